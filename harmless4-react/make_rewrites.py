import os, re, subprocess, sys, shutil
OUT=os.path.dirname(os.path.abspath(__file__))
SP='testtools/twistedsupport/_spinner.py'
RT='testtools/twistedsupport/_runtest.py'
def make(name, edits, note):
    wt='/tmp/react-hm'
    subprocess.run(['git','-C','/repo','worktree','remove','--force',wt],capture_output=True)
    subprocess.run(['git','-C','/repo','worktree','add','-q','--detach',wt],check=True)
    try:
        for f, pairs in edits.items():
            p=os.path.join(wt,f); s=open(p).read()
            for a,b in pairs:
                if callable(a):
                    s=a(s)
                else:
                    assert s.count(a)>=1, (name, a[:60])
                    s=s.replace(a,b)
            open(p,'w').write(s)
        for f in edits:
            subprocess.run(['/venv/bin/python','-m','py_compile',os.path.join(wt,f)],check=True)
        d=subprocess.run(['git','-C',wt,'diff'],capture_output=True,text=True).stdout
        assert d.strip(), name
        open(os.path.join(OUT,name+'.diff'),'w').write(d)
        open(os.path.join(OUT,'README.txt'),'a').write('%s  %s\n' % (name, note))
    finally:
        subprocess.run(['git','-C','/repo','worktree','remove','--force',wt],capture_output=True)
def ren(*pairs):
    def f(s):
        for a,b in pairs:
            s=re.sub(r'\b%s\b' % re.escape(a), b, s)
        return s
    return f
open(os.path.join(OUT,'README.txt'),'w').write('Behaviour-preserving rewrites of _spinner.py / _runtest.py aimed at the functions the C14 / C15 translators read.\nExpected: every quick check exits 0 (tools/try_harmless.py <patch> C14 C15).\n\n')
make('H01',{SP:[(ren(('this_run','current_run'),('during_this_run','while_running'),('guarded','wrapper')),None)]},'run token, guard and inner function renamed')
make('H02',{SP:[(ren(('run_function','start')),None),('                d = defer.maybeDeferred(function, *args, **kwargs)\n                d.addCallbacks(','                deferred = defer.maybeDeferred(function, *args, **kwargs)\n                deferred.addCallbacks('),('                d.addBoth(during_this_run(self._stop_reactor))','                deferred.addBoth(during_this_run(self._stop_reactor))')]},'run_function and its Deferred renamed')
make('H03',{SP:[('''                d.addCallbacks(
                    during_this_run(self._got_success),
                    during_this_run(self._got_failure),
                )''','''                d.addCallbacks(
                    errback=during_this_run(self._got_failure),
                    callback=during_this_run(self._got_success),
                )''')]},'addCallbacks with keyword arguments')
make('H04',{SP:[('''                d.addCallbacks(
                    during_this_run(self._got_success),
                    during_this_run(self._got_failure),
                )
                d.addBoth(during_this_run(self._stop_reactor))''','''                d.addCallbacks(
                    during_this_run(self._got_success),
                    during_this_run(self._got_failure),
                ).addBoth(during_this_run(self._stop_reactor))''')]},'addCallbacks(...).addBoth(...) chained in one statement')
make('H05',{SP:[('''            def during_this_run(callback):
                def guarded(result):
                    if not this_run.over:
                        return callback(result)

                return guarded
''','''            during_this_run = lambda callback: (
                lambda result: callback(result) if not this_run.over else None
            )
''')]},'the guard written as a lambda returning a lambda')
make('H06',{SP:[('            real_stop, self._reactor.stop = self._reactor.stop, self._fake_stop\n','            real_stop = self._reactor.stop\n            self._reactor.stop = self._fake_stop\n')]},'reactor.stop patched in two statements')
make('H07',{SP:[('''        if self._debug:
            debug_settings = DebugTwisted(True)
        else:
            debug_settings = Fixture()

        with debug_settings:''','''        with DebugTwisted(True) if self._debug else Fixture():''')]},'the debug fixture as a conditional expression in the with statement')
make('H08',{SP:[('''        e = TimeoutError(function, timeout)
        self._failure = Failure(e)''','''        self._failure = Failure(TimeoutError(function, timeout))''')]},'_timed_out without the local')
make('H09',{SP:[('''    def _got_success(self, result):
        self._cancel_timeout()''','''    def _got_success(self, result):
        if self._timeout_call:
            self._timeout_call.cancel()''')]},'_cancel_timeout inlined into _got_success')
make('H10',{SP:[('''        if self._failure is not self._UNSET:
            self._failure.raiseException()  # type: ignore
        if self._success is not self._UNSET:
            return self._success
        raise NoResultError()''','''        if self._UNSET is not self._failure:
            self._failure.raiseException()  # type: ignore
        elif not self._success is self._UNSET:
            return self._success
        else:
            raise NoResultError()''')]},'_get_result with elif/else, operands swapped, not ... is')
make('H11',{SP:[(ren(('delayed_call','pending_call'),('selectable','reader_or_writer')),None),('        self._junk.extend(junk)\n        return junk','        self._junk += junk\n        return junk'),('''        if IReactorThreads.providedBy(self._reactor):
            if self._reactor.threadpool is not None:
                self._reactor._stopThreadPool()''','''        if IReactorThreads.providedBy(self._reactor) and self._reactor.threadpool is not None:
            self._reactor._stopThreadPool()''')]},'_clean: loop variables renamed, += instead of extend, the two ifs merged with and')
make('H12',{SP:[(lambda s: re.sub(r"        for selectable in self\._reactor\.removeAll\(\):\n(            #.*\n)*            junk\.append\(selectable\)\n", "        junk.extend(self._reactor.removeAll())\n", s),None)]},'_clean: the selectables appended with extend')
make('H13',{SP:[('        """Run \'function\' in a reactor.\n','        """Spin the reactor until \'function\' is done.\n'),('            # A Spinner may be used for several runs: forget the result of\n            # the previous one.\n','            # Forget what the previous run left.\n')]},'docstring and comment of run reworded')
make('H14',{SP:[('            self._success = self._UNSET\n            self._failure = self._UNSET\n            self._save_signals()','            self._success = self._failure = self._UNSET\n            self._save_signals()')]},'the result reset as a chained assignment')
make('H15',{SP:[('        for sig, hdlr in self._saved_signals:\n            signal.signal(sig, hdlr)','        for signum, handler in self._saved_signals:\n            signal.signal(signum, handler)'),('''        available_signals = [
            getattr(signal, name, None) for name in self._PRESERVED_SIGNALS
        ]
        self._saved_signals = [
            (sig, signal.getsignal(sig)) for sig in available_signals if sig
        ]''','''        present = [getattr(signal, n, None) for n in self._PRESERVED_SIGNALS]
        self._saved_signals = [(s, signal.getsignal(s)) for s in present if s]''')]},'the signal helpers with other local names')
make('H16',{SP:[(ren(('decorated','wrapper')),None),('        if _calls.get(function, False):','        if _calls.get(function):')]},'not_reentrant: inner function renamed, .get without default')
make('H17',{SP:[(ren(('debug_infos','recorded'),('real_DebugInfo','original')),None)]},'trap_unhandled_errors: locals renamed')
make('H18',{RT:[(ren(('fails','failures'),('fail_if_exception_caught','note_failure'),('set_up_done','after_set_up'),('clean_up_done','cleanups_done')),None)]},'_run_deferred: fails and nested functions renamed')
make('H19',{RT:[('''        d = self._run_user(self.case._run_setup, self.result)
        d.addCallback(set_up_done)
        d.addBoth(force_failure)
        d.addBoth(lambda ignored: len(fails) == 0)
        return d''','''        return (
            self._run_user(self.case._run_setup, self.result)
            .addCallback(set_up_done)
            .addBoth(force_failure)
            .addBoth(lambda _: not fails)
        )''')]},'the main chain as one chained expression; the guard as `not fails`')
make('H20',{RT:[('''        d.addBoth(lambda ignored: len(fails) == 0)
        return d''','''        def all_passed(ignored):
            return len(fails) == 0

        d.addBoth(all_passed)
        return d''')]},'the success guard as a nested def')
make('H21',{RT:[('            if self.exception_caught is exception_caught:\n                fails.append(None)\n\n','            if exception_caught is self.exception_caught:\n                fails.append(None)\n\n')]},'operands of the identity test swapped')
make('H22',{RT:[('''                exc_info = (
                    outcome.type,
                    outcome.value,
                    outcome.getTracebackObject(),
                )
                self.case._report_traceback(exc_info)''','''                self.case._report_traceback(
                    (outcome.type, outcome.value, outcome.getTracebackObject())
                )'''),(ren(('last_exception','last_error')),None)]},'_run_cleanups: exc_info inlined, last_exception renamed')
def core_rename(s):
    i=s.index("    def _run_core(self):")
    j=s.index("    def _run_user(self, function", i)
    seg=s[i:j]
    seg=re.sub(r"\bsuccessful\b","ok",seg); seg=re.sub(r"(?<![-\"\w])unhandled(?![-\w])","leftover",seg)
    return s[:i]+seg+s[j:]
make('H23',{RT:[(core_rename,None)]},'_run_core: successful / unhandled renamed')
make('H24',{RT:[('            # We didn\'t get a result at all!  This could be for any number of\n            # reasons, but most likely someone hit Ctrl-C during the test.\n','            # Interrupted before there was a result.\n'),('        """Raise \'e\' and report it as a user exception."""','        """Report \'e\' as if user code had raised it."""')]},'comments / docstrings of _blocking_run_deferred and _log_user_exception reworded')
make('H25',{RT:[('''            d = self._run_user(self.case._run_teardown, self.result)
            d.addCallback(fail_if_exception_caught)
            d.addBoth(clean_up)
            return d''','''            return self._run_user(self.case._run_teardown, self.result).addCallback(
                fail_if_exception_caught
            ).addBoth(clean_up)''')]},'tear_down as one chained return')
make('H26',{RT:[('''        d = defer.maybeDeferred(lambda: function(*args, **kwargs))
        # The caller''','''        d = defer.maybeDeferred(lambda: function(*args, **kwargs))
        # (what follows: the caller''')]},'comment in _run_user')
OLD_SAVE = """        available_signals = [
            getattr(signal, name, None) for name in self._PRESERVED_SIGNALS
        ]
        self._saved_signals = [
            (sig, signal.getsignal(sig)) for sig in available_signals if sig
        ]"""
make('H27',{SP:[(OLD_SAVE,"""        saved = []
        for name in self._PRESERVED_SIGNALS:
            try:
                sig = getattr(signal, name)
            except AttributeError:
                continue
            if sig:
                saved.append((sig, signal.getsignal(sig)))
        self._saved_signals = saved""")]},'_save_signals as an explicit loop with try/except AttributeError (= harmless/14.diff)')
make('H28',{SP:[(OLD_SAVE,"""        self._saved_signals = [
            (sig, signal.getsignal(sig))
            for sig in (getattr(signal, name, None) for name in self._PRESERVED_SIGNALS)
            if sig is not None
        ]""")]},'_save_signals as one comprehension over a generator, filter `is not None`')
make('H29',{SP:[(OLD_SAVE,"""        self._saved_signals = []
        for name in self._PRESERVED_SIGNALS:
            sig = getattr(signal, name, None)
            if sig is None:
                continue
            self._saved_signals.append((sig, signal.getsignal(sig)))""")]},'_save_signals as a loop appending to the fresh attribute, `if sig is None: continue`')
make('H30',{SP:[(OLD_SAVE,"""        found = []
        for name in self._PRESERVED_SIGNALS:
            number = getattr(signal, name, None)
            if number:
                found.append((number, signal.getsignal(number)))
        self._saved_signals = found""")]},'_save_signals as a loop with getattr default and `if number:`')
print(len([f for f in os.listdir(OUT) if f.endswith('.diff')]), 'patches')
