import os, subprocess, sys, glob
sys.path.insert(0, os.path.dirname(os.path.dirname(os.path.abspath(__file__))))
from harness import pyspinner2lean, pyasync2lean
ref = (pyspinner2lean.generate('/repo'), pyasync2lean.generate('/repo'))
def changed(patch, apply_cmd=None):
    wt='/tmp/react-gc'
    subprocess.run(['git','-C','/repo','worktree','remove','--force',wt],capture_output=True)
    subprocess.run(['git','-C','/repo','worktree','add','-q','--detach',wt],check=True)
    try:
        r=subprocess.run(['git','-C',wt,'apply',patch],capture_output=True,text=True)
        if r.returncode:
            r=subprocess.run('cd %s && patch -s -p1 --fuzz=3 < %s' % (wt, patch), shell=True, capture_output=True, text=True)
            if r.returncode: return 'DOES NOT APPLY'
        try:
            got=(pyspinner2lean.generate(wt), pyasync2lean.generate(wt))
        except Exception as e:
            return 'translator raised %s: %s' % (type(e).__name__, e)
        out=[]
        for name,a,b in (('SpinnerSkel',ref[0],got[0]),('AsyncSkel',ref[1],got[1])):
            if a!=b:
                la,lb=a.splitlines(),b.splitlines()
                diff=[y.strip()[:150] for x,y in zip(la,lb) if x!=y]
                out.append('%s: %s' % (name,' || '.join(diff)[:400]))
        return out or 'unchanged'
    finally:
        subprocess.run(['git','-C','/repo','worktree','remove','--force',wt],capture_output=True)
for p in sys.argv[1:]:
    print(os.path.basename(os.path.dirname(p))+'/'+os.path.basename(p), '->', changed(p))
