import os, subprocess
SP='testtools/twistedsupport/_spinner.py'; RT='testtools/twistedsupport/_runtest.py'
OUT=os.path.join(os.path.dirname(os.path.abspath(__file__)), 'near-miss')
def make(name, f, a, b):
    wt='/tmp/react-mm'
    subprocess.run(['git','-C','/repo','worktree','remove','--force',wt],capture_output=True)
    subprocess.run(['git','-C','/repo','worktree','add','-q','--detach',wt],check=True)
    p=os.path.join(wt,f); s=open(p).read()
    for a, b in (a if isinstance(a, list) else [(a, b)]):
        assert s.count(a)>=1,(name,a[:50]); s=s.replace(a,b,1)
    open(p,'w').write(s)
    subprocess.run(['/venv/bin/python','-m','py_compile',p],check=True)
    open(os.path.join(OUT,name+'.diff'),'w').write(subprocess.run(['git','-C',wt,'diff'],capture_output=True,text=True).stdout)
    subprocess.run(['git','-C','/repo','worktree','remove','--force',wt],capture_output=True)
make('M01-finally-dropped',SP,'''            try:
                return self._get_result()
            finally:
                self._clean()''','''            result = self._get_result()
            self._clean()
            return result''')
make('M02-addBoth-to-addCallback',SP,'d.addBoth(during_this_run(self._stop_reactor))','d.addCallback(during_this_run(self._stop_reactor))')
make('M03-token-check-removed',SP,'''                    if not this_run.over:
                        return callback(result)''','''                    return callback(result)''')
make('M04-over-not-set',SP,'                this_run.over = True\n','')
make('M05-restore-before-unpatch-swapped',SP,'''                self._reactor.stop = real_stop
                self._restore_signals()''','''                self._restore_signals()
                self._reactor.stop = real_stop''')
make('M06-store-before-cancel',SP,'''    def _got_success(self, result):
        self._cancel_timeout()
        self._success = result''','''    def _got_success(self, result):
        self._success = result
        self._cancel_timeout()''')
make('M07-get-result-order',SP,'''        if self._failure is not self._UNSET:
            self._failure.raiseException()  # type: ignore
        if self._success is not self._UNSET:
            return self._success''','''        if self._success is not self._UNSET:
            return self._success
        if self._failure is not self._UNSET:
            self._failure.raiseException()  # type: ignore''')
make('M08-spinning-not-cleared',SP,'''            self._reactor.crash()
            self._spinning = False''','''            self._reactor.crash()''')
make('M09-clean-no-cancel',SP,'            delayed_call.cancel()\n','')
make('M10-unguarded-success',SP,'during_this_run(self._got_success)','self._got_success')
make('M11-stages-reordered',RT,'''            d.addCallback(fail_if_exception_caught)
            d.addBoth(clean_up)
            return d''','''            d.addBoth(clean_up)
            d.addCallback(fail_if_exception_caught)
            return d''')
make('M12-teardown-addCallback',RT,'                d.addBoth(tear_down)','                d.addCallback(tear_down)')
make('M13-identity-to-equality',RT,'            if self.exception_caught is exception_caught:\n                fails.append(None)\n\n','            if self.exception_caught == exception_caught:\n                fails.append(None)\n\n')
make('M14-setup-failure-skips-cleanups',RT,'''                fails.append(None)
                return clean_up()''','''                fails.append(None)
                return None''')
make('M15-cleanup-exception-not-failing',RT,'''                    self._exceptions.append(result)
                    fails.append(None)''','''                    self._exceptions.append(result)''')
make('M16-force-failure-addCallback',RT,'        d.addBoth(force_failure)','        d.addCallback(force_failure)')
make('M17-cleanups-direct-kwargs',RT,'d = defer.maybeDeferred(lambda: f(*args, **kwargs))','d = defer.maybeDeferred(f, *args, **kwargs)')
make('M18-noresult-without-stop',RT,'            self.result.stop()\n','')
make('M19-junk-not-failing',RT,'''        if junk:
            successful = False
            self._log_user_exception''','''        if junk:
            self._log_user_exception''')
make('M20-broken-iterations-1',RT,'spinner._OBLIGATORY_REACTOR_ITERATIONS = 2','spinner._OBLIGATORY_REACTOR_ITERATIONS = 1')
OLD_SAVE = """        available_signals = [
            getattr(signal, name, None) for name in self._PRESERVED_SIGNALS
        ]
        self._saved_signals = [
            (sig, signal.getsignal(sig)) for sig in available_signals if sig
        ]"""
make('M21-save-only-first-signal',SP,OLD_SAVE,"""        available_signals = [
            getattr(signal, name, None) for name in self._PRESERVED_SIGNALS[:1]
        ]
        self._saved_signals = [
            (sig, signal.getsignal(sig)) for sig in available_signals if sig
        ]""")
make('M22-save-without-filter',SP,OLD_SAVE,"""        available_signals = [
            getattr(signal, name, None) for name in self._PRESERVED_SIGNALS
        ]
        self._saved_signals = [
            (sig, signal.getsignal(sig)) for sig in available_signals
        ]""")
make('M23-save-appends-to-old-list',SP,OLD_SAVE,"""        for name in self._PRESERVED_SIGNALS:
            sig = getattr(signal, name, None)
            if sig:
                self._saved_signals.append((sig, signal.getsignal(sig)))""")
make('M24-save-after-reactor-run',SP,[("""            self._save_signals()
            self._timeout_call""","""            self._timeout_call"""),("""                self._reactor.stop = real_stop
                self._restore_signals()""","""                self._reactor.stop = real_stop
                self._save_signals()
                self._restore_signals()""")],None)
make('M25-save-loop-breaks-after-first',SP,OLD_SAVE,"""        saved = []
        for name in self._PRESERVED_SIGNALS:
            sig = getattr(signal, name, None)
            if sig:
                saved.append((sig, signal.getsignal(sig)))
                break
        self._saved_signals = saved""")
make('M26-restore-reversed-without-reset',SP,"""        for sig, hdlr in self._saved_signals:
            signal.signal(sig, hdlr)
        self._saved_signals = []""","""        for sig, hdlr in reversed(self._saved_signals):
            signal.signal(sig, hdlr)""")
make('M27-save-loop-without-filter',SP,OLD_SAVE,"""        saved = []
        for name in self._PRESERVED_SIGNALS:
            sig = getattr(signal, name, None)
            saved.append((sig, signal.getsignal(sig)))
        self._saved_signals = saved""")
# (saving or restoring in the reverse order is NOT a near miss: every pair carries its own signal number and the preserved names are
# distinct, so the order of the pairs is not observable; the recogniser nevertheless asks for the declared order, so such a rewrite
# would alarm with no-failing-input-found)
print(len(os.listdir(OUT)))
