#!/bin/sh
# soak.sh "<seeds>" [tier]: every claimed check with several seeds on the unchanged tree; prints one line per run, non-zero exits flagged
cd "$(dirname "$0")/.." || exit 2
(cd lean && lake build >/dev/null 2>&1)
tier=${2:-quick}
props=$(python3 -c "import json; print(' '.join(c['property_id'] for c in json.load(open('MANIFEST.json'))['checks']))")
for s in $1; do for p in $props; do
  out=$(VERIF_SEED=$s VERIF_TIER=$tier ./check $p 2>&1); rc=$?
  echo "seed=$s $p rc=$rc :: $(echo "$out" | grep -v KNOWN-FINDING | tail -1 | cut -c1-200)"
done; done
