#!/bin/sh
# mutation adequacy over all claimed properties (background job; results in mutation/*.json)
cd "$(dirname "$0")/.." || exit 2
for p in $(python3 -c "import json; print(' '.join(c['property_id'] for c in json.load(open('MANIFEST.json'))['checks']))"); do
  /venv/bin/python tools/mutate.py $p --max ${1:-80} --jobs ${2:-6} --cases 300
done
