#!/bin/sh
# sanity before committing: harness compiles, tables are the ones of /repo, MANIFEST validates, lean package builds
cd "$(dirname "$0")/.." || exit 2
/venv/bin/python -m py_compile harness/*.py harness/props/*.py tools/*.py || exit 1
/venv/bin/python tools/regen_tables.py | tail -1
/venv/bin/python tools/gen_manifest.py || exit 1
python3-vt -c "
import json,jsonschema
jsonschema.validate(json.load(open('MANIFEST.json')),json.load(open('/root/.vp/MANIFEST.schema.json')))
import glob
for f in glob.glob('evidence/*.json'): jsonschema.validate(json.load(open(f)),json.load(open('/root/.vp/EVIDENCE.schema.json')))
print('schemas ok')" || exit 1
(cd lean && lake build 2>&1 | tail -1)
# with --checks: every quick check once on /repo (about 5 min); any non-zero exit or VIOLATION line is printed
if [ "$1" = "--checks" ]; then
  for p in $(python3 -c "import json; print(' '.join(c['property_id'] for c in json.load(open('MANIFEST.json'))['checks']))"); do
    out=$(./check $p 2>&1); rc=$?
    [ $rc -ne 0 ] && echo "FAIL $p rc=$rc :: $(echo "$out" | tail -2 | cut -c1-300)"
  done
  echo "checks done"
fi
