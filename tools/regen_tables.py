#!/venv/bin/python
"""Regenerate every lean/TTV/Generated/*.lean from the repository (default /repo, or $VERIF_REPO) by running each plug-in's
extract_tables - so that the committed copies can never be stale when the Lean package is built (used by MANIFEST.setup_cmd)."""
import glob, importlib, os, sys
V = os.path.dirname(os.path.dirname(os.path.abspath(__file__)))
sys.path.insert(0, V)
from harness import core
sys.path.insert(0, core.REPO)
changed = 0
for f in sorted(glob.glob(os.path.join(V, 'harness', 'props', 'c[0-9][0-9].py'))):
    plug = importlib.import_module('harness.props.' + os.path.basename(f)[:-3]).PROP
    for rel, text in plug.extract_tables(core.REPO).items():
        p = os.path.join(core.LEAN, rel)
        if not os.path.exists(p) or open(p).read() != text:
            os.makedirs(os.path.dirname(p), exist_ok=True)
            open(p, 'w').write(text)
            changed += 1
            print('regenerated', rel)
print('tables regenerated from %s: %d file(s) changed' % (core.REPO, changed))
