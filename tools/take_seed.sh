#!/bin/sh
# take_seed.sh <name e.g. C07-e> [extra props...]: copy a finished seed from /tmp/seed-<name> into seeded/<name>, drop its
# scratch worktree, and try it against the check of its property (plus any extra ones)
cd "$(dirname "$0")/.." || exit 2
n=$1; shift; p=${n%-*}
mkdir -p seeded/$n && cp /tmp/seed-$n/patch.diff /tmp/seed-$n/demo_$p.py /tmp/seed-$n/meta.txt seeded/$n/ || exit 2
git -C /repo worktree remove --force /tmp/seed-$n
python3 tools/try_seed.py seeded/$n $p "$@" 2>/dev/null | tail -n +1 | sed 's/KNOWN-FINDING[^|]*| //g' | cut -c1-260
