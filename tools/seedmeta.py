#!/usr/bin/env python3
"""seedmeta.py <seed dir name> <prop> "<breaks>" "<needs>" <detected prop=how>...  -> seeded/<dir>/meta.json"""
import json, sys
d, prop, breaks, needs = sys.argv[1:5]
det = dict(a.split('=', 1) for a in sys.argv[5:])
json.dump({'property': prop, 'breaks': breaks, 'needs_to_manifest': needs,
           'confirmed': {'suite_still_passes': 'tools/baseline.py <scratch tree>: stable_pass=1327 passed_now=1327 missing=0',
                         'demo_on_changed_tree': 'exit 1', 'demo_on_unchanged_tree': 'exit 0'},
           'ran': 'python3 tools/try_seed.py seeded/%s %s   (patch applied to a scratch worktree of /repo; VERIF_REPO=<that tree> ./check <prop> --tier quick)' % (d, ' '.join(det)),
           'detected_by': det,
           'origin': 'written by a fresh sub-agent that saw only the property text and a scratch checkout'},
          open('/verif/seeded/%s/meta.json' % d, 'w'), indent=1)
