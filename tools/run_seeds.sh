#!/bin/sh
# run_seeds.sh: re-run every seeded change against the check of its property (regression suite for the checks themselves)
cd "$(dirname "$0")/.." || exit 2
for d in seeded/*/; do
  n=$(basename $d); if grep -q '"retired"' $d/meta.json 2>/dev/null; then echo "RETIRED $n"; continue; fi; p=$(python3 -c "import json; print(json.load(open('$d/meta.json'))['property'])")
  r=$(python3 tools/try_seed.py $d $p 2>&1 | grep "^check" | sed 's/KNOWN-FINDING[^|]*| //g' | cut -c1-220)
  case "$r" in *"exit=1"*) s=CAUGHT;; *) s=MISSED;; esac
  case "$r" in *"no-failing-input-found"*) s=UNSHOWN;; esac
  echo "$s $n :: $r"
done
