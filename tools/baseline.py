#!/usr/bin/env python3
"""Run /repo's pinned suite and compare with BASELINE.json's stable_pass list.
usage: baseline.py [repo_dir]   exit 0 iff every stable_pass test passes."""
import json, subprocess, sys, tempfile, os, xml.etree.ElementTree as ET
repo = sys.argv[1] if len(sys.argv) > 1 else '/repo'
base = json.load(open('/root/.vp/BASELINE.json'))
with tempfile.TemporaryDirectory() as d:
    x = os.path.join(d, 'j.xml')
    env = dict(os.environ, PYTHONPATH=repo)
    subprocess.run(['/venv/bin/python', '-m', 'pytest', '-q', '-p', 'no:cacheprovider', '--timeout=900',
                    '--continue-on-collection-errors', '--junitxml=' + x], cwd=repo, env=env,
                   stdout=subprocess.DEVNULL, stderr=subprocess.DEVNULL)
    passed = set()
    for tc in ET.parse(x).getroot().iter('testcase'):
        if not any(c.tag in ('failure', 'error', 'skipped') for c in tc):
            passed.add(tc.get('classname') + '::' + tc.get('name'))
want = set(base['stable_pass'])
missing = sorted(want - passed)
print(f'stable_pass={len(want)} passed_now={len(passed)} missing={len(missing)}')
for m in missing[:20]:
    print('  MISSING', m)
sys.exit(1 if missing else 0)
