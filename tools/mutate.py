#!/venv/bin/python
"""Mutation adequacy of the tie between model and code.

    tools/mutate.py Cxx [--max N] [--jobs J] [--cases K] [--seed S]

1. runs the property's own generator for K cases on the real code under `coverage` to learn which lines of the files the
   property is anchored in are executed by the correspondence check at all;
2. generates first-order AST mutants on those lines (comparison / boolean operator swaps, negated conditions, constant flips,
   statement deletion, `return None`, swapped adjacent statements, removed `finally` bodies);
3. for each mutant (in a private scratch worktree of /repo, never /repo itself) runs `VERIF_REPO=<wt> ./check Cxx --no-build`
   with table regeneration switched off; mutants the check does NOT flag are then run against the pinned test suite:
   a mutant that survives both is a *survivor* (equivalent mutant or blind spot) and is written out with its diff;
4. writes mutation/Cxx.json.

The numbers say how strongly the differential check ties the model to the code; they are not part of any verdict.
"""
import argparse, ast, copy, difflib, glob, importlib, json, os, random, re, subprocess, sys, tempfile, time
from concurrent.futures import ThreadPoolExecutor

V = os.path.dirname(os.path.dirname(os.path.abspath(__file__)))
sys.path.insert(0, V)
REPO = '/repo'

CMP = {ast.Is: ast.Eq, ast.Eq: ast.NotEq, ast.NotEq: ast.Eq, ast.IsNot: ast.NotEq, ast.Lt: ast.LtE, ast.LtE: ast.Lt,
       ast.Gt: ast.GtE, ast.GtE: ast.Gt, ast.In: ast.NotIn, ast.NotIn: ast.In}


def executed_lines(pid, files, cases, seed):
    import coverage
    sys.path.insert(0, REPO)
    plug = importlib.import_module('harness.props.' + pid.lower()).PROP
    cov = coverage.Coverage(data_file=None, include=[os.path.join(REPO, f) for f in files])
    cov.start()
    rng = random.Random('%s/mut/%d' % (pid, seed))
    for inp in plug.corpus():
        plug.run_impl(inp)
    for _ in range(cases):
        plug.run_impl(plug.gen(rng, 'quick'))
    cov.stop()
    out = {}
    for f in files:
        _, stmts, _, missing, _ = cov.analysis2(os.path.join(REPO, f))
        out[f] = set(stmts) - set(missing)
    return out


def names(node, ctx):
    out = set()
    for n in ast.walk(node):
        if isinstance(n, (ast.Name, ast.Attribute)) and isinstance(getattr(n, 'ctx', None), ctx):
            out.add(ast.unparse(n))
    return out


def independent(a, b):
    """two call-free assignments that neither read nor write what the other writes: swapping them is an equivalent mutant"""
    for st in (a, b):
        if not isinstance(st, ast.Assign) or any(isinstance(n, (ast.Call, ast.Await, ast.Yield)) for n in ast.walk(st)):
            return False
    wa, wb = names(a, ast.Store), names(b, ast.Store)
    ra, rb = names(a, ast.Load), names(b, ast.Load)
    return not (wa & (rb | wb)) and not (wb & ra)


class Mutator:
    """enumerate (description, mutated source) for one file"""

    def __init__(self, path, lines):
        self.src = open(path).read()
        self.tree = ast.parse(self.src)
        self.lines = lines

    def sites(self):
        """(kind, node id path) for every applicable site on an executed line inside a function body"""
        out = []
        for fn in ast.walk(self.tree):
            if not isinstance(fn, (ast.FunctionDef, ast.AsyncFunctionDef)):
                continue
            for node in ast.walk(fn):
                ln = getattr(node, 'lineno', None)
                if ln is None or ln not in self.lines:
                    continue
                if isinstance(node, ast.Compare) and type(node.ops[0]) in CMP:
                    out.append(('cmp', node))
                if isinstance(node, ast.BoolOp):
                    out.append(('boolop', node))
                if isinstance(node, (ast.If, ast.While)) or isinstance(node, ast.IfExp):
                    out.append(('negate', node))
                if isinstance(node, ast.Constant) and isinstance(node.value, bool):
                    out.append(('bool', node))
                if isinstance(node, ast.Constant) and type(node.value) is int and node.value in (0, 1, 2):
                    out.append(('int', node))
                if isinstance(node, ast.Return) and node.value is not None and not (isinstance(node.value, ast.Constant) and node.value.value is None):
                    out.append(('retnone', node))
                if isinstance(node, ast.Try) and node.finalbody:
                    out.append(('nofinally', node))
            for body in self.bodies(fn):
                for i, st in enumerate(body):
                    ln = getattr(st, 'lineno', None)
                    if ln is None or ln not in self.lines:
                        continue
                    if isinstance(st, (ast.Expr, ast.Assign, ast.AugAssign)) and not (isinstance(st, ast.Expr) and isinstance(st.value, ast.Constant)):
                        out.append(('delete', (body, i)))
                    if i + 1 < len(body) and all(isinstance(x, (ast.Expr, ast.Assign, ast.AugAssign)) for x in body[i:i + 2]) \
                            and not independent(body[i], body[i + 1]):
                        out.append(('swap', (body, i)))
        # de-duplicate nodes reached through nested functions
        seen, res = set(), []
        for k, n in out:
            key = (k, id(n) if not isinstance(n, tuple) else (id(n[0]), n[1]))
            if key not in seen:
                seen.add(key)
                res.append((k, n))
        return res

    def bodies(self, fn):
        for node in ast.walk(fn):
            for field in ('body', 'orelse', 'finalbody'):
                b = getattr(node, field, None)
                if isinstance(b, list) and b and isinstance(b[0], ast.stmt):
                    yield b
            if isinstance(node, ast.Try):
                for h in node.handlers:
                    yield h.body

    def apply(self, kind, target):
        """mutate in place, return (description, undo)"""
        if kind == 'cmp':
            old = target.ops[0]
            target.ops[0] = CMP[type(old)]()
            return 'L%d: comparison %s -> %s' % (target.lineno, type(old).__name__, type(target.ops[0]).__name__), lambda: target.ops.__setitem__(0, old)
        if kind == 'boolop':
            old = target.op
            target.op = ast.Or() if isinstance(old, ast.And) else ast.And()
            return 'L%d: %s -> %s' % (target.lineno, type(old).__name__, type(target.op).__name__), lambda: setattr(target, 'op', old)
        if kind == 'negate':
            old = target.test
            target.test = ast.UnaryOp(op=ast.Not(), operand=old)
            return 'L%d: condition negated' % target.lineno, lambda: setattr(target, 'test', old)
        if kind == 'bool':
            old = target.value
            target.value = not old
            return 'L%d: %r -> %r' % (target.lineno, old, target.value), lambda: setattr(target, 'value', old)
        if kind == 'int':
            old = target.value
            target.value = old + 1
            return 'L%d: %d -> %d' % (target.lineno, old, old + 1), lambda: setattr(target, 'value', old)
        if kind == 'retnone':
            old = target.value
            target.value = ast.Constant(value=None)
            return 'L%d: return None' % target.lineno, lambda: setattr(target, 'value', old)
        if kind == 'nofinally':
            old = target.finalbody
            target.finalbody = [ast.Pass()]
            return 'L%d: finally body removed' % target.lineno, lambda: setattr(target, 'finalbody', old)
        if kind == 'delete':
            body, i = target
            old = body[i]
            body[i] = ast.copy_location(ast.Pass(), old)
            return 'L%d: statement deleted' % old.lineno, lambda: body.__setitem__(i, old)
        if kind == 'swap':
            body, i = target
            body[i], body[i + 1] = body[i + 1], body[i]
            return 'L%d: swapped with next statement' % body[i + 1].lineno, lambda: body.__setitem__(slice(i, i + 2), [body[i + 1], body[i]])
        raise ValueError(kind)

    def mutants(self):
        base = ast.unparse(self.tree)
        for kind, target in self.sites():
            try:
                desc, undo = self.apply(kind, target)
                ast.fix_missing_locations(self.tree)
                text = ast.unparse(self.tree)
            except Exception:
                continue
            finally:
                try:
                    undo()
                except Exception:
                    pass
            if text != base:
                yield kind, desc, base, text


def run(cmd, **kw):
    return subprocess.run(cmd, capture_output=True, text=True, **kw)


def evaluate(job):
    pid, wt, rel, kind, desc, base, text = job
    path = os.path.join(wt, rel)
    orig = open(path).read()
    open(path, 'w').write(text)
    try:
        env = dict(os.environ, VERIF_REPO=wt, VERIF_NO_TABLES='1', PYTHONPATH=wt)
        r = run([os.path.join(V, 'check'), pid, '--no-build'], env=env, cwd=V, timeout=600)
        out = r.stdout
        if r.returncode == 1 and 'no-failing-input-found' in out:
            verdict = 'unshown'
        elif r.returncode == 1:
            verdict = 'detected'
        elif r.returncode == 0:
            b = run(['/venv/bin/python', os.path.join(V, 'tools', 'baseline.py'), wt], timeout=900)
            verdict = 'survivor' if b.returncode == 0 else 'missed-but-killed-by-suite'
        else:
            verdict = 'infra'
        diff = ''.join(difflib.unified_diff(base.splitlines(True), text.splitlines(True), rel, rel, n=2))
        return {'file': rel, 'kind': kind, 'desc': desc, 'verdict': verdict, 'diff': diff if verdict in ('survivor', 'infra', 'unshown') else None,
                'tail': out.strip().splitlines()[-1][:300] if out.strip() else r.stderr[-300:]}
    except subprocess.TimeoutExpired:
        return {'file': rel, 'kind': kind, 'desc': desc, 'verdict': 'timeout', 'diff': None, 'tail': ''}
    finally:
        open(path, 'w').write(orig)


def main():
    ap = argparse.ArgumentParser()
    ap.add_argument('prop')
    ap.add_argument('--max', type=int, default=120)
    ap.add_argument('--jobs', type=int, default=8)
    ap.add_argument('--cases', type=int, default=300)
    ap.add_argument('--seed', type=int, default=0)
    a = ap.parse_args()
    pid = a.prop.upper()
    anchors = [json.loads(l) for l in open(os.path.join(V, 'properties.jsonl'))]
    files = [f for p in anchors if p['id'] == pid for f in p['anchors']['files']]
    t0 = time.time()
    lines = executed_lines(pid, files, a.cases, a.seed)
    jobs = []
    for rel in files:
        m = Mutator(os.path.join(REPO, rel), lines[rel])
        for kind, desc, base, text in m.mutants():
            jobs.append((rel, kind, desc, base, text))
    rng = random.Random(a.seed)
    rng.shuffle(jobs)
    total = len(jobs)
    jobs = jobs[:a.max]
    wts = []
    for j in range(a.jobs):
        wt = tempfile.mkdtemp(prefix='mut-%s-' % pid, dir='/tmp')
        os.rmdir(wt)
        subprocess.run(['git', '-C', REPO, 'worktree', 'add', '-q', '--detach', wt], check=True)
        wts.append(wt)
    results = []
    try:
        # one worker thread per scratch tree; each takes the next mutant
        import queue
        q = queue.Queue()
        for jb in jobs:
            q.put(jb)

        def worker(wt):
            while True:
                try:
                    rel, kind, desc, base, text = q.get_nowait()
                except queue.Empty:
                    return
                # normalise the file first so that the diff is only the mutation
                results.append(evaluate((pid, wt, rel, kind, desc, base, text)))
        with ThreadPoolExecutor(len(wts)) as ex:
            list(ex.map(worker, wts))
    finally:
        for wt in wts:
            subprocess.run(['git', '-C', REPO, 'worktree', 'remove', '--force', wt])
    tally = {}
    for r in results:
        tally[r['verdict']] = tally.get(r['verdict'], 0) + 1
    out = {'property': pid, 'files': files, 'executed_lines': {f: len(l) for f, l in lines.items()}, 'mutants_generated': total,
           'mutants_run': len(results), 'tally': tally, 'wall_s': round(time.time() - t0, 1),
           'survivors': [r for r in results if r['verdict'] == 'survivor'],
           'unshown': [r for r in results if r['verdict'] == 'unshown'],
           'other': [r for r in results if r['verdict'] in ('infra', 'timeout')],
           'operators': 'comparison swap, and/or swap, negated condition, True/False flip, small int +1, return None, finally removed, statement deleted, adjacent statements swapped'}
    os.makedirs(os.path.join(V, 'mutation'), exist_ok=True)
    json.dump(out, open(os.path.join(V, 'mutation', pid + '.json'), 'w'), indent=1)
    print(pid, 'mutants run %d of %d:' % (len(results), total), tally, '%.0fs' % (time.time() - t0))
    for r in out['survivors']:
        print('  SURVIVOR', r['file'], r['desc'])


if __name__ == '__main__':
    main()
