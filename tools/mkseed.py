#!/usr/bin/env python3
"""mkseed.py Cxx [suffix] -> creates scratch worktree /tmp/seed-Cxx[suffix] of /repo and prints the agent prompt path"""
import json, subprocess, sys
pid = sys.argv[1]; suf = sys.argv[2] if len(sys.argv) > 2 else ''
wt = '/tmp/seed-%s%s' % (pid, suf)
subprocess.run(['git', '-C', '/repo', 'worktree', 'add', '-q', '--detach', wt], check=True)
p = [json.loads(l) for l in open('/verif/properties.jsonl') if json.loads(l)['id'] == pid][0]
t = open('/verif/tools/prompts/seed.md').read()
for k, v in {'@ID@': pid, '@TITLE@': p['title'], '@STATEMENT@': p['statement'], '@QUANT@': p['quantifier']['text'],
             '@FILES@': ', '.join(p['anchors']['files']), '@WT@': wt}.items():
    t = t.replace(k, v)
open('/tmp/seedprompt-%s%s.md' % (pid, suf), 'w').write(t)
print('/tmp/seedprompt-%s%s.md' % (pid, suf))
