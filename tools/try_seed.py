#!/usr/bin/env python3
"""try_seed.py <dir with patch.diff + demo_*.py> <Cxx> [more props…] [--tier thorough]
Applies the patch to a fresh scratch worktree of /repo (never to /repo itself), confirms (1) the pinned suite still passes,
(2) the demonstration fails on the changed tree and passes on /repo, then runs ./check for the given properties with
VERIF_REPO pointing at the scratch tree and reports which of them raise a VIOLATION."""
import glob, os, subprocess, sys, tempfile
V = os.path.dirname(os.path.dirname(os.path.abspath(__file__)))   # the checkout this script lives in (works in worktrees)
args = [a for a in sys.argv[1:] if not a.startswith('--')]
tier = 'thorough' if '--tier' in sys.argv and 'thorough' in sys.argv else 'quick'
d, props = os.path.abspath(args[0]), args[1:]
wt = tempfile.mkdtemp(prefix='try-', dir='/tmp')
os.rmdir(wt)
run = lambda *a, **k: subprocess.run(*a, capture_output=True, text=True, **k)
subprocess.run(['git', '-C', '/repo', 'worktree', 'add', '-q', '--detach', wt], check=True)
try:
    r = run(['git', '-C', wt, 'apply', os.path.join(d, 'patch.diff')])
    if r.returncode:
        print('PATCH DOES NOT APPLY', r.stderr); sys.exit(2)
    b = run(['/venv/bin/python', os.path.join(V, 'tools', 'baseline.py'), wt])
    print('suite  :', b.stdout.strip().splitlines()[0] if b.stdout else b.stderr[-200:])
    for demo in sorted(glob.glob(os.path.join(d, 'demo*.py'))):
        r1 = run(['/venv/bin/python', demo], env=dict(os.environ, PYTHONPATH=wt), cwd='/tmp')
        r2 = run(['/venv/bin/python', demo], env=dict(os.environ, PYTHONPATH='/repo'), cwd='/tmp')
        print('demo   : %s changed-tree exit=%d  unchanged exit=%d' % (os.path.basename(demo), r1.returncode, r2.returncode))
    for p in props:
        r = run([os.path.join(V, 'check'), p, '--tier', tier], env=dict(os.environ, VERIF_REPO=wt), cwd=V)
        lines = [l for l in r.stdout.splitlines() if l.startswith(('VIOLATION', 'KNOWN-FINDING', 'INFRA', p))]
        print('check  : %s exit=%d :: %s' % (p, r.returncode, ' | '.join(l[:230] for l in lines)))
finally:
    subprocess.run(['git', '-C', '/repo', 'worktree', 'remove', '--force', wt])
    subprocess.run(['/venv/bin/python', os.path.join(V, 'tools', 'regen_tables.py')], capture_output=True)
