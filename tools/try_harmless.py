#!/usr/bin/env python3
"""try_harmless.py <patch.diff> [Cxx …]   (default: all claimed properties)
Applies a behaviour-preserving patch to a scratch worktree of /repo and runs the quick checks against it: the expected outcome is
exit 0 everywhere; an exit 1 is printed with its VIOLATION line (a `no-failing-input-found` alarm names a tie the rewrite broke; an
alarm WITH a failing input on a harmless patch is a false alarm of the check and has to be fixed)."""
import json, os, subprocess, sys, tempfile
V = os.path.dirname(os.path.dirname(os.path.abspath(__file__)))
patch = os.path.abspath(sys.argv[1])
props = sys.argv[2:] or [c['property_id'] for c in json.load(open(os.path.join(V, 'MANIFEST.json')))['checks']]
wt = tempfile.mkdtemp(prefix='harmless-', dir='/tmp')
os.rmdir(wt)
run = lambda *a, **k: subprocess.run(*a, capture_output=True, text=True, **k)
subprocess.run(['git', '-C', '/repo', 'worktree', 'add', '-q', '--detach', wt], check=True)
bad = 0
try:
    r = run(['git', '-C', wt, 'apply', patch])
    if r.returncode:
        print('PATCH DOES NOT APPLY', r.stderr); sys.exit(2)
    b = run(['/venv/bin/python', os.path.join(V, 'tools', 'baseline.py'), wt])
    print('suite  :', b.stdout.strip().splitlines()[0] if b.stdout else b.stderr[-200:])
    for p in props:
        r = run([os.path.join(V, 'check'), p], env=dict(os.environ, VERIF_REPO=wt), cwd=V)
        if r.returncode != 0:
            bad += 1
            lines = [l for l in r.stdout.splitlines() if l.startswith(('VIOLATION', 'INFRA', p))]
            print('ALARM  : %s exit=%d :: %s' % (p, r.returncode, ' | '.join(l[:260] for l in lines) or r.stdout[-300:] + r.stderr[-300:]))
    print('%s: %d of %d checks raised an alarm' % (os.path.basename(patch), bad, len(props)))
finally:
    subprocess.run(['git', '-C', '/repo', 'worktree', 'remove', '--force', wt])
    subprocess.run(['/venv/bin/python', os.path.join(V, 'tools', 'regen_tables.py')], capture_output=True)
