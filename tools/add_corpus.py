#!/usr/bin/env python3
"""add_corpus.py <replay.json> <name> [note]: keep the (shrunk) input of a past failure in corpus/<prop>/<name>.json (runs first in every check)"""
import json, os, sys
d = json.load(open(sys.argv[1]))
pid = d['property']
os.makedirs('/verif/corpus/' + pid, exist_ok=True)
json.dump({'input': d['input'], 'input_sexp': d['input_sexp'], 'note': sys.argv[3] if len(sys.argv) > 3 else '', 'failed_clauses': d.get('failed_clauses')},
          open('/verif/corpus/%s/%s.json' % (pid, sys.argv[2]), 'w'), indent=1)
print('added corpus/%s/%s.json: %s' % (pid, sys.argv[2], d['input_sexp'][:300]))
