#!/usr/bin/env python3
"""Regenerate MANIFEST.json from the property plug-ins that exist (harness/props/cXX.py with a
`manifest` dict) - every other property of properties.jsonl goes under not_applicable."""
import importlib, json, os, sys
V = os.path.dirname(os.path.dirname(os.path.abspath(__file__)))
sys.path.insert(0, V)
props = [json.loads(l) for l in open(os.path.join(V, 'properties.jsonl'))]
checks, na = [], []
for p in props:
    pid = p['id']
    plug = os.path.join(V, 'harness', 'props', pid.lower() + '.py')
    thm = os.path.join(V, 'lean', 'TTV', 'Props', pid + '.lean')
    meta = None
    if os.path.exists(plug) and os.path.exists(thm):
        meta = getattr(importlib.import_module('harness.props.' + pid.lower()).PROP, 'manifest', None)
    if not meta:
        na.append({'property_id': pid, 'reason': 'check not built yet (model/harness in progress; design in DESIGN.md section 5)'})
        continue
    checks.append({
        'property_id': pid,
        'quick_cmd': './check %s --tier quick' % pid,
        'thorough_cmd': './check %s --tier thorough' % pid,
        'evidence_file': 'evidence/%s.json' % pid,
        'replay_cmd_template': './check %s --replay {path}' % pid,
        'engine': 'ttv',
        'level_claimed': {'category': 'proof', 'text': meta['text'], 'design_ref': 'DESIGN.md section 5, ' + pid},
        'level_note': meta['note'],
        'technique': meta.get('technique', 'Lean 4 theorems over an executable model + differential correspondence with the real code'),
    })
m = {
    'version': 1,
    'setup_cmd': '/venv/bin/python tools/regen_tables.py && cd lean && lake build',
    'hooks': {'guard': 'TESTTOOLS_VERIF',
              'enable': 'no hooks are needed: the harness injects semaphores, queues, threads and reactors through public constructor arguments and module attributes',
              'baseline_off_cmd': 'cd /repo && /venv/bin/python -m pytest -ra -q -p no:cacheprovider --timeout=900 --continue-on-collection-errors',
              'source_commits': [], 'add_only': True},
    'engines': [{'name': 'ttv', 'path': 'lean/ + harness/', 'serves_properties': [c['property_id'] for c in checks],
                 'kind_free_text': 'Lean 4 package TTV (models, Bool specs, theorems, line-protocol driver) + Python correspondence harness driving the real testtools code'}],
    'checks': checks,
    'not_applicable': na,
    'notes': 'Lean 4 proof over executable models, tied to /repo by regenerated tables and a differential correspondence check on every run; see DESIGN.md. '
             'Exit codes: 0 held, 1 VIOLATION, 2 infrastructure failure. VERIF_SEED seeds the single PRNG, VERIF_TIER overrides --tier, VERIF_REPO points the checks at another checkout (default /repo).',
}
json.dump(m, open(os.path.join(V, 'MANIFEST.json'), 'w'), indent=1)
print('claimed:', [c['property_id'] for c in checks], 'not claimed:', len(na))
