#!/venv/bin/python
"""Writes the behaviour-preserving rewrites NN.diff and the near-miss mutants mutants/mNN.diff of the code the C04 / C05 / C08
translator (harness/pyres2lean.py) reads.  Usage: make_patches.py  (uses a scratch worktree of /repo)"""
import os, subprocess, sys, tempfile
HERE = os.path.dirname(os.path.abspath(__file__))
REAL, RUN, TC, RT = 'testtools/testresult/real.py', 'testtools/run.py', 'testtools/testcase.py', 'testtools/runtest.py'

H = [  # (file, old, new, what)
    (REAL, "        failfast = self.failfast\n        tb_locals = self.tb_locals\n        super().__init__()\n        self.skip_reasons = {}\n        self.__now = None\n        self._tags = TagContext()\n        # -- Start: As per python 2.7 --\n        self.expectedFailures = []\n        self.unexpectedSuccesses = []\n        self.failfast = failfast\n",
           "        keep_ff = self.failfast\n        tb_locals = self.tb_locals\n        super().__init__()\n        self.skip_reasons = {}\n        self.__now = None\n        self._tags = TagContext()\n        # -- Start: As per python 2.7 --\n        self.expectedFailures = []\n        self.unexpectedSuccesses = []\n        self.failfast = keep_ff\n", 'startTestRun: local renamed'),
    (REAL, "        self.errors.append((test, self._err_details_to_string(test, err, details)))\n        if self.failfast:\n            self.stop()\n",
           "        # remember it\n        self.errors.append(\n            (test, self._err_details_to_string(test, err, details))\n        )\n        if self.failfast:\n            # and stop the run\n            self.stop()\n", 'addError: comments and layout'),
    (REAL, "        return not (self.errors or self.failures or self.unexpectedSuccesses)", "        return not (self.failures or self.unexpectedSuccesses or self.errors)", 'wasSuccessful: operands permuted'),
    (REAL, "        self.skip_reasons = {}\n        self.__now = None\n", "        self.__now = None\n        self.skip_reasons = {}\n", 'startTestRun: independent resets permuted'),
    (REAL, "        return tuple(\n            getattr(result, message)(*args, **kwargs) for result in self._results\n        )", "        return tuple(\n            [getattr(result, message)(*args, **kwargs) for result in self._results]\n        )", '_dispatch: list comprehension'),
    (REAL, "        return tuple(\n            getattr(result, message)(*args, **kwargs) for result in self._results\n        )", "        return tuple(getattr(r, message)(*args, **kwargs) for r in self._results)", '_dispatch: loop variable renamed'),
    (REAL, "        return any(result.shouldStop for result in self._results)", "        return any([target.shouldStop for target in self._results])", 'Multi.shouldStop: list comprehension, renamed'),
    (REAL, "        if getattr(self, \"_failfast_frozen\", False):\n            return\n", "        # (assignments made by the base class while it resets itself are ignored)\n        if getattr(self, \"_failfast_frozen\", False):\n            return\n", '_set_failfast: comment'),
    (REAL, "    def _stop_if_failfast(self):\n", "    def _stop_if_failfast(self):\n        \"\"\"Stop the target if failfast was set on this forwarder.\"\"\"\n", '_stop_if_failfast: docstring'),
    (REAL, "        addExpectedFailure = getattr(self.decorated, \"addExpectedFailure\", None)\n        if addExpectedFailure is None:\n            return self.addSuccess(test)\n        if details is not None:\n            try:\n                return addExpectedFailure(test, details=details)\n            except TypeError:\n                # have to convert\n                err = self._details_to_exc_info(details)\n        return addExpectedFailure(test, err)",
           "        method = getattr(self.decorated, \"addExpectedFailure\", None)\n        if method is None:\n            return self.addSuccess(test)\n        if details is not None:\n            try:\n                return method(test, details=details)\n            except TypeError:\n                err = self._details_to_exc_info(details)\n        return method(test, err)", 'ETOD.addExpectedFailure: local renamed'),
    (REAL, "        addSkip = getattr(self.decorated, \"addSkip\", None)\n        if addSkip is None:", "        addSkip = getattr(self.decorated, \"addSkip\", None)\n        if addSkip == None:", 'ETOD.addSkip: == None'),
    (REAL, "            outcome = getattr(self.decorated, \"addUnexpectedSuccess\", None)\n            if outcome is None:", "            outcome = getattr(self.decorated, \"addUnexpectedSuccess\", None)\n            if outcome == None:", 'ETOD.addUnexpectedSuccess: == None'),
    (REAL, "        param_count = 0\n        if err is not None:\n            param_count += 1\n        if details is not None:\n            param_count += 1\n        if param_count != 1:", "        given = 0\n        if err is not None:\n            given += 1\n        if details != None:\n            given += 1\n        if given != 1:", '_check_args: local renamed, != None'),
    (REAL, "        method = getattr(self.decorated, \"progress\", None)\n        if method is None:\n            return\n        return method(offset, whence)", "        progress = getattr(self.decorated, \"progress\", None)\n        if progress is None:\n            return\n        return progress(offset, whence)", 'ETOD.progress: local renamed'),
    (REAL, "        tags = set(self.current_tags)\n        super().stopTest(test)\n        self._on_test(\n            test=test,\n            status=self._status,\n            start_time=self._start_time,\n            stop_time=self._stop_time,\n            tags=tags,",
           "        current = set(self.current_tags)\n        super().stopTest(test)\n        self._on_test(\n            test=test,\n            status=self._status,\n            start_time=self._start_time,\n            stop_time=self._stop_time,\n            tags=current,", 'TestByTestResult.stopTest: local renamed'),
    (TC, "        existing_details = self.getDetails()\n        full_name = name\n        suffix = 1\n        while full_name in existing_details:\n            full_name = \"%s-%d\" % (name, suffix)\n            suffix += 1\n        self.addDetail(full_name, content_object)",
         "        taken = self.getDetails()\n        candidate = name\n        n = 1\n        while candidate in taken:\n            candidate = \"%s-%d\" % (name, n)\n            n += 1\n        self.addDetail(candidate, content_object)", 'addDetailUniqueName: locals renamed'),
    (TC, "        new_name = name\n        disambiguator = itertools.count(1)\n        while new_name in target_dict:\n            new_name = \"%s-%d\" % (name, next(disambiguator))\n        name = new_name", "        unique = name\n        numbers = itertools.count(1)\n        while unique in target_dict:\n            unique = \"%s-%d\" % (name, next(numbers))\n        name = unique", 'gather_details: locals renamed'),
    (TC, "        id_gen = self._traceback_id_gens.setdefault(tb_label, itertools.count(0))\n        while True:\n            tb_id = next(id_gen)\n            if tb_id:\n                tb_label = \"%s-%d\" % (tb_label, tb_id)", "        ids = self._traceback_id_gens.setdefault(tb_label, itertools.count(0))\n        while True:\n            # the first traceback keeps the plain label\n            number = next(ids)\n            if number:\n                tb_label = \"%s-%d\" % (tb_label, number)", '_report_traceback: locals renamed, comment'),
    (RT, "            for sub_exc_info in exc_info[1].args:\n                self._got_user_exception(sub_exc_info, tb_label)", "            for each in exc_info[1].args:\n                self._got_user_exception(each, tb_label)", '_got_user_exception: loop variable renamed'),
    (TC, "        if self.__details is None:\n            self.__details = {}\n        self.__details[name] = content_object", "        if self.__details == None:\n            self.__details = {}\n        self.__details[name] = content_object", 'addDetail: == None'),
    (RUN, "        result = TextTestResult(\n            unicode_output_stream(self.stdout),\n            failfast=self.failfast,\n            tb_locals=self.tb_locals,\n        )\n        result.startTestRun()\n        try:\n            return test.run(result)\n        finally:\n            result.stopTestRun()",
          "        text_result = TextTestResult(\n            unicode_output_stream(self.stdout),\n            failfast=self.failfast,\n            tb_locals=self.tb_locals,\n        )\n        text_result.startTestRun()\n        try:\n            return test.run(text_result)\n        finally:\n            text_result.stopTestRun()", 'TestToolsTestRunner.run: local renamed'),
    (RUN, "        testRunner = self._get_runner()\n        self.result = testRunner.run(self.test)", "        runner = self._get_runner()\n        self.result = runner.run(self.test)", 'runTests: local renamed'),
    (REAL, "    def stop(self):\n        return self.decorated.stop()\n", "    def stop(self):\n        \"\"\"Ask the decorated result to stop.\"\"\"\n        return self.decorated.stop()\n", 'TestResultDecorator.stop: docstring'),
    (RT, "        try:\n            e = exc_info[1]\n            self.case.onException(exc_info, tb_label=tb_label)\n        finally:\n            del exc_info", "        try:\n            exc = exc_info[1]\n            self.case.onException(exc_info, tb_label=tb_label)\n        finally:\n            del exc_info", None),   # needs the follow-up below
    (REAL, '        return not (self.errors or self.failures or self.unexpectedSuccesses)\n', '        return not self._problems()\n\n    def _problems(self):\n        return self.errors or self.failures or self.unexpectedSuccesses\n', 'wasSuccessful: pure helper extracted'),
    (REAL, '        return any(result.shouldStop for result in self._results)\n', '        return any(self._stop_flags())\n\n    def _stop_flags(self):\n        return (result.shouldStop for result in self._results)\n', 'Multi.shouldStop: pure helper extracted'),
    (REAL, '        return getattr(self.decorated, "failfast", self._failfast)\n', '        return self._target_failfast()\n\n    def _target_failfast(self):\n        return getattr(self.decorated, "failfast", self._failfast)\n', 'ETOD.failfast: pure helper extracted'),
    (TC, '            full_name = "%s-%d" % (name, suffix)\n            suffix += 1\n        self.addDetail(full_name, content_object)\n', '            full_name = self._numbered(name, suffix)\n            suffix += 1\n        self.addDetail(full_name, content_object)\n\n    def _numbered(self, base, n):\n        return "%s-%d" % (base, n)\n', 'addDetailUniqueName: pure helper extracted'),
]
M = [
    (REAL, "        self.errors.append((test, self._err_details_to_string(test, err, details)))\n        if self.failfast:\n            self.stop()\n", "        if self.failfast:\n            self.stop()\n        self.errors.append((test, self._err_details_to_string(test, err, details)))\n", 'addError: failfast test before the append'),
    (REAL, "        return not (self.errors or self.failures or self.unexpectedSuccesses)", "        return not (self.errors or self.failures)", 'wasSuccessful: unexpected successes dropped'),
    (REAL, "        failfast = self.failfast\n        tb_locals = self.tb_locals\n        super().__init__()\n", "        failfast = self.failfast\n        tb_locals = self.tb_locals\n        self.failfast = failfast\n        super().__init__()\n", 'startTestRun: failfast also restored before the reset (equivalent: the late restore stays)'),
    (REAL, "        return getattr(self._results[0], \"failfast\", False)", "        return getattr(self._results[-1], \"failfast\", False)", 'Multi.failfast: last target'),
    (REAL, "        return any(result.shouldStop for result in self._results)", "        return all(result.shouldStop for result in self._results)", 'Multi.shouldStop: all'),
    (REAL, "        addExpectedFailure = getattr(self.decorated, \"addExpectedFailure\", None)\n        if addExpectedFailure is None:\n            return self.addSuccess(test)", "        addExpectedFailure = getattr(self.decorated, \"addExpectedFailure\", None)\n        if addExpectedFailure is None:\n            return self.addSkip(test, \"expected failure\")", 'ETOD.addExpectedFailure: missing method becomes a skip'),
    (REAL, "                except (LookupError, ValueError):\n                    # No reason attachment", "                except KeyError:\n                    # No reason attachment", 'ETOD.addSkip: narrowed except'),
    (REAL, "        tags = set(self.current_tags)\n        super().stopTest(test)\n        self._on_test(", "        tags = set(self.current_tags)\n        self._on_test(", None),
    (TC, "        full_name = name\n        suffix = 1\n", "        full_name = name\n        suffix = 0\n", 'addDetailUniqueName: counter starts at 0'),
    (TC, "        disambiguator = itertools.count(1)", "        disambiguator = itertools.count(0)", 'gather_details: counter starts at 0'),
    (TC, "        id_gen = self._traceback_id_gens.setdefault(tb_label, itertools.count(0))", "        id_gen = self._traceback_id_gens.setdefault(tb_label, itertools.count(1))", '_report_traceback: counter starts at 1'),
    (RT, "            for sub_exc_info in exc_info[1].args:", "            for sub_exc_info in reversed(exc_info[1].args):", '_got_user_exception: reversed expansion'),
    (RUN, "            sys.exit(not self.result.wasSuccessful())", "            sys.exit(self.result.wasSuccessful())", 'runTests: inverted exit status'),
    (REAL, "    def stop(self):\n        return self.decorated.stop()\n", "    def stop(self):\n        return self.decorated.shouldStop\n", 'TestResultDecorator.stop does not stop'),
    (REAL, "        super().startTest(test)\n        self.tags(self._new_tags, self._gone_tags)", "        super().startTest(test)\n        if self._new_tags:\n            self.tags(self._new_tags, self._gone_tags)", 'Tagger.startTest: conditional tags'),
    (REAL, "            if details is not None:\n                try:\n                    return self.decorated.addFailure(test, details=details)\n                except TypeError:\n                    # have to convert\n                    err = self._details_to_exc_info(details)\n            return self.decorated.addFailure(test, err)", "            if details is not None:\n                err = self._details_to_exc_info(details)\n            return self.decorated.addFailure(test, err)", 'ETOD.addFailure: details never tried'),
    (REAL, '        return not (self.errors or self.failures or self.unexpectedSuccesses)\n', '        return not self._problems()\n\n    def _problems(self):\n        return self.errors or self.failures\n', 'wasSuccessful: extracted helper drops a counter'),
    (TC, '            full_name = "%s-%d" % (name, suffix)\n            suffix += 1\n        self.addDetail(full_name, content_object)\n', '            full_name = self._numbered(name, suffix)\n            suffix += 1\n        self.addDetail(full_name, content_object)\n\n    def _numbered(self, base, n):\n        return "%s_%d" % (base, n)\n', 'addDetailUniqueName: extracted helper formats differently'),
    (REAL, '        return any(result.shouldStop for result in self._results)\n', '        return any(self._stop_flags())\n\n    def _stop_flags(self):\n        return [result.shouldStop for result in self._results[:1]]\n', 'Multi.shouldStop: extracted helper looks at the first target only'),
    (REAL, '        return getattr(self.decorated, "failfast", self._failfast)\n', '        return self._target_failfast()\n\n    def _target_failfast(self):\n        self._failfast = getattr(self.decorated, "failfast", self._failfast)\n        return self._failfast\n', 'ETOD.failfast: extracted helper has an effect'),
]


def sh(*a, **k):
    return subprocess.run(a, capture_output=True, text=True, **k)


def make(entries, outdir, prefix):
    wt = tempfile.mkdtemp(prefix='mk-', dir='/tmp'); os.rmdir(wt)
    sh('git', '-C', '/repo', 'worktree', 'add', '-q', '--detach', wt)
    try:
        n = 0
        for f, old, new, what in entries:
            p = os.path.join(wt, f)
            s = open(p).read()
            assert s.count(old) == 1 or 'param_count = 0' in old, (f, old[:60], s.count(old))
            s2 = s.replace(old, new, 1)        # (_check_args exists twice; the first one is ExtendedToOriginalDecorator's)
            if f == RT and 'exc = exc_info[1]' in new:       # the rename needs the use site too
                s2 = s2.replace("self._exceptions.append(e)", "self._exceptions.append(exc)")
                what = '_got_user_exception: local renamed'
            if f == REAL and what is None and 'self._on_test(' in new:
                s2 = s2.replace("            details=self._details,\n        )\n", "            details=self._details,\n        )\n        super().stopTest(test)\n", 1)
                what = 'TestByTestResult.stopTest: callback before leaving the tag context'
            open(p, 'w').write(s2)
            d = sh('git', '-C', wt, 'diff').stdout
            open(os.path.join(outdir, '%s%02d.diff' % (prefix, n)), 'w').write(d)
            open(os.path.join(outdir, '%s%02d.txt' % (prefix, n)), 'w').write(what + '\n')
            sh('git', '-C', wt, 'checkout', '.')
            n += 1
        return n
    finally:
        sh('git', '-C', '/repo', 'worktree', 'remove', '--force', wt)


if __name__ == '__main__':
    print(make(H, HERE, ''), 'harmless;', make(M, os.path.join(HERE, 'mutants'), 'm'), 'mutants')
