"""harmless3-stream/make.py: writes NN.diff + INDEX.txt and mutants/NN.diff + INDEX.txt next to itself (VERIF_REPO = the tree to diff against, default /repo): behaviour-preserving rewrites of the functions pystream.py translates"""
import os, subprocess, shutil, tempfile, sys
W = os.path.dirname(os.path.dirname(os.path.abspath(__file__)))
OUT = os.path.dirname(os.path.abspath(__file__))
F = 'testtools/testresult/real.py'
REPO = os.environ.get('VERIF_REPO', '/repo')          # the tree the diffs are made against
SRC = open(REPO + '/' + F).read()
RW = []
MU = []


def rw(group, desc, *pairs, expect='tolerated'):
    RW.append((group, desc, pairs, expect))


# =================================================================================================== router (C18)
STATUS = '''    def status(self, **kwargs):
        route_code = kwargs.get("route_code", None)
        test_id = kwargs.get("test_id", None)
        if route_code is not None:
            prefix = route_code.split("/")[0]
        else:
            prefix = route_code
        if prefix in self._route_code_prefixes:
            target, consume_route = self._route_code_prefixes[prefix]
            if route_code is not None and consume_route:
                route_code = route_code[len(prefix) + 1 :]
                if not route_code:
                    route_code = None
                kwargs["route_code"] = route_code
        elif test_id in self._test_ids:
            target = self._test_ids[test_id]
        else:
            target = self.fallback
        target.status(**kwargs)
'''
assert SRC.count(STATUS) == 1

rw('router', "StreamResultRouter.status: alpha-renamed the locals (prefix -> head, target -> sink, consume_route -> strip, route_code -> code)",
   (STATUS, '''    def status(self, **kwargs):
        code = kwargs.get("route_code", None)
        test_id = kwargs.get("test_id", None)
        if code is not None:
            head = code.split("/")[0]
        else:
            head = code
        if head in self._route_code_prefixes:
            sink, strip = self._route_code_prefixes[head]
            if code is not None and strip:
                code = code[len(head) + 1 :]
                if not code:
                    code = None
                kwargs["route_code"] = code
        elif test_id in self._test_ids:
            sink = self._test_ids[test_id]
        else:
            sink = self.fallback
        sink.status(**kwargs)
'''))
rw('router', "StreamResultRouter.status: prefix computed by a conditional expression, kwargs.get without the redundant None default",
   (STATUS, STATUS.replace('''        if route_code is not None:
            prefix = route_code.split("/")[0]
        else:
            prefix = route_code
''', '''        prefix = route_code.split("/")[0] if route_code is not None else None
''').replace('kwargs.get("route_code", None)', 'kwargs.get("route_code")').replace('kwargs.get("test_id", None)', 'kwargs.get("test_id")')))
rw('router', "StreamResultRouter.status: every rule kind forwards and returns at once (three call sites, one per path), test-id sink called without a local",
   (STATUS, '''    def status(self, **kwargs):
        route_code = kwargs.get("route_code", None)
        test_id = kwargs.get("test_id", None)
        if route_code is not None:
            prefix = route_code.split("/")[0]
        else:
            prefix = route_code
        if prefix in self._route_code_prefixes:
            target, consume_route = self._route_code_prefixes[prefix]
            if route_code is not None and consume_route:
                route_code = route_code[len(prefix) + 1 :]
                if not route_code:
                    route_code = None
                kwargs["route_code"] = route_code
            target.status(**kwargs)
            return
        if test_id in self._test_ids:
            self._test_ids[test_id].status(**kwargs)
            return
        self.fallback.status(**kwargs)
'''))
rw('router', "StreamResultRouter.status: local aliases of the two rule dicts (only read here)",
   (STATUS, STATUS.replace('''        test_id = kwargs.get("test_id", None)
''', '''        test_id = kwargs.get("test_id", None)
        prefixes = self._route_code_prefixes
        ids = self._test_ids
''').replace('in self._route_code_prefixes:', 'in prefixes:').replace('= self._route_code_prefixes[prefix]', '= prefixes[prefix]')
    .replace('in self._test_ids:', 'in ids:').replace('= self._test_ids[test_id]', '= ids[test_id]')))
rw('router', "StreamResultRouter.status: `if a and b:` split into two nested ifs",
   (STATUS, STATUS.replace('''            if route_code is not None and consume_route:
                route_code = route_code[len(prefix) + 1 :]
                if not route_code:
                    route_code = None
                kwargs["route_code"] = route_code
''', '''            if route_code is not None:
                if consume_route:
                    route_code = route_code[len(prefix) + 1 :]
                    if not route_code:
                        route_code = None
                    kwargs["route_code"] = route_code
''')))
rw('router', "StreamResultRouter.status: `!= None` / `== None` instead of `is not None` / `is None` (route codes are str or None)",
   (STATUS, STATUS.replace('''        if route_code is not None:
            prefix = route_code.split("/")[0]
        else:
            prefix = route_code
''', '''        if route_code == None:
            prefix = None
        else:
            prefix = route_code.split("/")[0]
''').replace('if route_code is not None and consume_route:', 'if route_code != None and consume_route:')))
rw('router', "StreamResultRouter.status: rule chain turned around (`if prefix not in …: (test id / fallback) else: (prefix rule)`)",
   (STATUS, '''    def status(self, **kwargs):
        route_code = kwargs.get("route_code", None)
        test_id = kwargs.get("test_id", None)
        if route_code is not None:
            prefix = route_code.split("/")[0]
        else:
            prefix = route_code
        if prefix not in self._route_code_prefixes:
            if test_id in self._test_ids:
                target = self._test_ids[test_id]
            else:
                target = self.fallback
        else:
            target, consume_route = self._route_code_prefixes[prefix]
            if route_code is not None and consume_route:
                route_code = route_code[len(prefix) + 1 :]
                if not route_code:
                    route_code = None
                kwargs["route_code"] = route_code
        target.status(**kwargs)
'''))
rw('router', "StreamResultRouter.status: the pure binding `test_id = kwargs.get(...)` moved down to just before the rule chain",
   (STATUS, STATUS.replace('''        test_id = kwargs.get("test_id", None)
''', '').replace('''        if prefix in self._route_code_prefixes:
''', '''        test_id = kwargs.get("test_id", None)
        if prefix in self._route_code_prefixes:
''')))
rw('router', "StreamResultRouter.status: operands of `route_code is not None and consume_route` swapped (both are reads of locals; the lookup happened one line above, under the `in` test)",
   (STATUS, STATUS.replace('if route_code is not None and consume_route:', 'if consume_route and route_code is not None:')))
rw('router', "StreamResultRouter.status: first segment via split(\"/\", 1)[0], remainder as `… or None` written into kwargs directly",
   (STATUS, STATUS.replace('route_code.split("/")[0]', 'route_code.split("/", 1)[0]').replace('''                route_code = route_code[len(prefix) + 1 :]
                if not route_code:
                    route_code = None
                kwargs["route_code"] = route_code
''', '''                kwargs["route_code"] = route_code[1 + len(prefix) :] or None
''')))
rw('router', "StreamResultRouter.status: prefix rule looked up with dict.get (`entry = ….get(prefix); if entry is not None: target, consume_route = entry`); the values are 2-tuples, never None",
   (STATUS, STATUS.replace('''        if prefix in self._route_code_prefixes:
            target, consume_route = self._route_code_prefixes[prefix]
''', '''        entry = self._route_code_prefixes.get(prefix)
        if entry is not None:
            target, consume_route = entry
''')))
CTL = '''    def startTestRun(self):
        super().startTestRun()
        for sink in self._sinks:
            sink.startTestRun()
        self._in_run = True

    def stopTestRun(self):
        super().stopTestRun()
        for sink in self._sinks:
            sink.stopTestRun()
        self._in_run = False

    def status(self, **kwargs):'''
assert SRC.count(CTL) == 1
rw('router', "StreamResultRouter.startTestRun / stopTestRun: loop variable renamed, explicit two-argument super()",
   (CTL, CTL.replace('for sink in self._sinks:', 'for result in self._sinks:').replace('sink.st', 'result.st')
    .replace('super().', 'super(StreamResultRouter, self).')))
HEAD = '''        policy_method = StreamResultRouter._policies.get(policy, None)
        if not policy_method:
            raise ValueError(f"bad policy {policy!r}")
        policy_method(self, sink, **policy_args)
'''
ADD = SRC[SRC.index(HEAD):SRC.index('    def _map_route_code_prefix(self')]
assert SRC.count(ADD) == 1 and 'if do_start_stop_run and not any(s is sink for s in self._sinks):' in ADD
rw('router', "StreamResultRouter.add_rule: local renamed, `is None` test, policy table reached through self, `if a and b:` as two nested ifs, the variable of the generator renamed",
   (ADD, '''        method = self._policies.get(policy)
        if method is None:
            raise ValueError(f"bad policy {policy!r}")
        method(self, sink, **policy_args)
        if do_start_stop_run:
            if not any(known is sink for known in self._sinks):
                self._sinks.append(sink)
                if self._in_run:
                    sink.startTestRun()

'''))
rw('router', "StreamResultRouter.add_rule: early return when the sink is not to see start/stop (`if not do_start_stop_run: return`)",
   (ADD, HEAD + '''        if not do_start_stop_run:
            return
        if not any(s is sink for s in self._sinks):
            self._sinks.append(sink)
            if self._in_run:
                sink.startTestRun()

'''))
rw('router', "StreamResultRouter.add_rule: the sink is started BEFORE it is appended to _sinks (two effects swapped; the suite passes, but a sink that re-enters the router from startTestRun sees the difference: the check finds a failing input)",
   (ADD, HEAD + '''        if do_start_stop_run and not any(s is sink for s in self._sinks):
            if self._in_run:
                sink.startTestRun()
            self._sinks.append(sink)

''', ), expect='strict')
rw('router', "StreamResultRouter.stopTestRun: `self._in_run = False` moved before the loop over the sinks (the suite passes, but a sink that re-enters add_rule during stopTestRun sees another flag: the check finds a failing input)",
   (CTL, CTL.replace('''        super().stopTestRun()
        for sink in self._sinks:
            sink.stopTestRun()
        self._in_run = False
''', '''        super().stopTestRun()
        self._in_run = False
        for sink in self._sinks:
            sink.stopTestRun()
''')), expect='strict')

# =================================================================================================== consumers (C10)
UPD = '''        if test_status is not None:
            case = case.set(status=test_status)

        case = case.got_timestamp(timestamp)

        if file_name is not None and file_bytes:
            case = case.got_file(file_name, file_bytes, mime_type)

        if test_tags is not None:
            case = case.set("tags", test_tags)

        return case
'''
assert SRC.count(UPD) == 1
UPDSIG = '''    def _update_case(
        self,
        case,
'''
assert SRC.count(UPDSIG) == 1
rw('consumers', "_StreamToTestRecord._update_case: the record parameter (passed positionally) and nothing else renamed case -> record",
   (UPDSIG, UPDSIG.replace('        case,', '        record,')), (UPD, UPD.replace('case', 'record')))
rw('consumers', "_StreamToTestRecord._update_case: operands of `file_name is not None and file_bytes` swapped (two parameter tests)",
   (UPD, UPD.replace('if file_name is not None and file_bytes:', 'if file_bytes and file_name is not None:')))
rw('consumers', "_StreamToTestRecord._update_case: the file test as two nested ifs, `!= None` for the tags test",
   (UPD, UPD.replace('''        if file_name is not None and file_bytes:
            case = case.got_file(file_name, file_bytes, mime_type)
''', '''        if file_name is not None:
            if file_bytes:
                case = case.got_file(file_name, file_bytes, mime_type)
''').replace('if test_tags is not None:', 'if test_tags != None:')))
rw('consumers', "_StreamToTestRecord._update_case: set(\"status\", …) / set(tags=…) (the two spellings of _TestRecord.set exchanged), got_file with mime_type by keyword",
   (UPD, UPD.replace('case.set(status=test_status)', 'case.set("status", test_status)').replace('case.set("tags", test_tags)', 'case.set(tags=test_tags)')
    .replace('case.got_file(file_name, file_bytes, mime_type)', 'case.got_file(file_name, file_bytes, mime_type=mime_type)')))
rw('consumers', "_StreamToTestRecord._update_case: early return when there are no tags (`if test_tags is None: return case`), the last update returned directly",
   (UPD, UPD.replace('''        if test_tags is not None:
            case = case.set("tags", test_tags)

        return case
''', '''        if test_tags is None:
            return case
        return case.set("tags", test_tags)
''')))
rw('consumers', "_StreamToTestRecord._update_case: the timestamp update moved to the front (functional updates of distinct fields commute)",
   (UPD, UPD.replace('''        if test_status is not None:
            case = case.set(status=test_status)

        case = case.got_timestamp(timestamp)
''', '''        case = case.got_timestamp(timestamp)
        if test_status is not None:
            case = case.set(status=test_status)
''')))
TAIL = '''        # notify completed tests.
        if test_status not in INTERIM_STATES:
            self.on_test(self._inprogress.pop(key))
'''
assert SRC.count(TAIL) == 1
rw('consumers', "_StreamToTestRecord.status: early return for interim states, then the hand-over unconditionally",
   (TAIL, '''        # notify completed tests.
        if test_status in INTERIM_STATES:
            return
        self.on_test(self._inprogress.pop(key))
'''))
rw('consumers', "_StreamToTestRecord.status: the popped record bound to a local before it is handed over; `if key is None` for the guard",
   (TAIL, '''        # notify completed tests.
        if test_status not in INTERIM_STATES:
            record = self._inprogress.pop(key)
            self.on_test(record)
'''), ('''        if not key:
            return

        # update fields''', '''        if key is None:
            return

        # update fields'''))
rw('consumers', "_StreamToTestRecord.status: on_test called with the record still in _inprogress, deleted afterwards (the suite passes, but with an on_test that raises the record stays behind: the check finds a failing input - this is what seeded/C10-c does)",
   (TAIL, '''        # notify completed tests.
        if test_status not in INTERIM_STATES:
            self.on_test(self._inprogress[key])
            del self._inprogress[key]
'''), expect='strict')
ENS = '''        if test_id is None:
            return
        key = (test_id, route_code)
        if key not in self._inprogress:
            self._inprogress[key] = _TestRecord.create(test_id, timestamp)
        return key
'''
assert SRC.count(ENS) == 1
rw('consumers', "_StreamToTestRecord._ensure_key: guard turned around (`if test_id is not None: …; return key` then `return None`)",
   (ENS, '''        if test_id is not None:
            key = (test_id, route_code)
            if key not in self._inprogress:
                self._inprogress[key] = _TestRecord.create(test_id, timestamp)
            return key
        return None
'''))
rw('consumers', "_StreamToTestRecord._ensure_key: explicit `return None`, membership as `not key in …`, local renamed",
   (ENS, '''        if test_id is None:
            return None
        k = (test_id, route_code)
        if not k in self._inprogress:
            self._inprogress[k] = _TestRecord.create(test_id, timestamp)
        return k
'''))
STOP = '''        while self._inprogress:
            case = self._inprogress.popitem()[1]
            self.on_test(case.got_timestamp(None))
'''
assert SRC.count(STOP) == 1
rw('consumers', "_StreamToTestRecord.stopTestRun: popitem() unpacked (`_, record = …`), the stamped record bound before the hand-over",
   (STOP, '''        while self._inprogress:
            _, record = self._inprogress.popitem()
            record = record.got_timestamp(None)
            self.on_test(record)
'''))
EXT = '''        if test_status == "exists":
            return
        self.hook.status(test_id=test_id, test_status=test_status, *args, **kwargs)
'''
assert SRC.count(EXT) == 1
rw('consumers', "StreamToExtendedDecorator.status: guard turned around (`if test_status != \"exists\": forward`)",
   (EXT, '''        if test_status != "exists":
            self.hook.status(test_id=test_id, test_status=test_status, *args, **kwargs)
'''))
HT = '''        case = test_record.to_test_case()
        case.run(self.decorated)
'''
assert SRC.count(HT) == 1
HD = '''        self.on_test(test_record.to_dict())
'''
assert SRC.count(HD) == 1
rw('consumers', "StreamToExtendedDecorator._handle_tests: the two calls chained; StreamToDict._handle_test: the dict bound to a local first",
   (HT, '''        test_record.to_test_case().run(self.decorated)
'''), (HD, '''        test_dict = test_record.to_dict()
        self.on_test(test_dict)
'''))
EXTRUN = '''    def startTestRun(self):
        self.decorated.startTestRun()
        self.hook.startTestRun()
'''
assert SRC.count(EXTRUN) == 1
rw('consumers', "StreamToExtendedDecorator.startTestRun: the hook is started before the decorated result (two effects swapped)",
   (EXTRUN, '''    def startTestRun(self):
        self.hook.startTestRun()
        self.decorated.startTestRun()
'''), expect='strict')

# =================================================================================================== decorators (C11)
TS = '''        timestamp = kwargs.pop("timestamp", None)
        if timestamp is None:
            timestamp = datetime.datetime.now(utc)
        super().status(*args, timestamp=timestamp, **kwargs)
'''
assert SRC.count(TS) == 1
rw('decorators', "TimestampingStreamResult.status: `kwargs.pop(\"timestamp\", None) or now` (a datetime is never false)",
   (TS, '''        timestamp = kwargs.pop("timestamp", None) or datetime.datetime.now(utc)
        super().status(*args, timestamp=timestamp, **kwargs)
'''))
rw('decorators', "TimestampingStreamResult.status: conditional expression with the test turned around, local renamed",
   (TS, '''        stamp = kwargs.pop("timestamp", None)
        stamp = datetime.datetime.now(utc) if stamp is None else stamp
        super().status(*args, timestamp=stamp, **kwargs)
'''))
rw('decorators', "TimestampingStreamResult.status: the timestamp written back into kwargs (`kwargs[\"timestamp\"] = …; super().status(*args, **kwargs)`) instead of pop + keyword",
   (TS, '''        timestamp = kwargs.get("timestamp")
        if timestamp is None:
            timestamp = datetime.datetime.now(utc)
        kwargs["timestamp"] = timestamp
        super().status(*args, **kwargs)
'''))
rw('decorators', "TimestampingStreamResult.status: only a missing timestamp is filled in (`if kwargs.get(\"timestamp\") is None: kwargs[\"timestamp\"] = now`)",
   (TS, '''        if kwargs.get("timestamp") is None:
            kwargs["timestamp"] = datetime.datetime.now(utc)
        super().status(*args, **kwargs)
'''))
RC = '''        if route_code is None:
            return self.routing_code
        return self.routing_code + "/" + route_code
'''
assert SRC.count(RC) == 1
rw('decorators', "StreamToQueue.route_code: test turned around with else, the join as \"/\".join((a, b))",
   (RC, '''        if route_code is not None:
            return "/".join((self.routing_code, route_code))
        else:
            return self.routing_code
'''))
rw('decorators', "StreamToQueue.route_code: one conditional expression, the join as an f-string",
   (RC, '''        return self.routing_code if route_code is None else f"{self.routing_code}/{route_code}"
'''))
QD_OLD = SRC[SRC.index('        self.queue.put(\n            dict(\n                event="status",'):SRC.index('    def stopTestRun(self):\n        self.queue.put(dict(event="stopTestRun"')]
rw('decorators', "StreamToQueue.status: the event as a dict literal, keys in another order",
   (QD_OLD, '''        self.queue.put(
            {
                "event": "status",
                "route_code": self.route_code(route_code),
                "timestamp": timestamp,
                "test_id": test_id,
                "test_status": test_status,
                "test_tags": test_tags,
                "runnable": runnable,
                "file_name": file_name,
                "file_bytes": file_bytes,
                "eof": eof,
                "mime_type": mime_type,
            }
        )

'''))
rw('decorators', "StreamToQueue.status: the adjusted route code and the event dict bound to locals before queue.put",
   (QD_OLD, '''        routed = self.route_code(route_code)
        event = dict(
            event="status",
            test_id=test_id,
            test_status=test_status,
            test_tags=test_tags,
            runnable=runnable,
            file_name=file_name,
            file_bytes=file_bytes,
            eof=eof,
            mime_type=mime_type,
            route_code=routed,
            timestamp=timestamp,
        )
        self.queue.put(event)

'''))
FF = '''        if test_status in ("uxsuccess", "fail"):
            self.on_error()
'''
assert SRC.count(FF) == 1
rw('decorators', "StreamFailFast.status: `==` / `or` chain instead of the tuple membership",
   (FF, '''        if test_status == "fail" or test_status == "uxsuccess":
            self.on_error()
'''))
rw('decorators', "StreamFailFast.status: early return for everything else, list instead of tuple",
   (FF, '''        if test_status not in ["fail", "uxsuccess"]:
            return
        self.on_error()
'''))
COPY = '''    def startTestRun(self):
        super().startTestRun()
        _strict_map(methodcaller("startTestRun"), self.targets)

    def stopTestRun(self):
        super().stopTestRun()
        _strict_map(methodcaller("stopTestRun"), self.targets)

    def status(self, *args, **kwargs):
        super().status(*args, **kwargs)
        _strict_map(methodcaller("status", *args, **kwargs), self.targets)
'''
assert SRC.count(COPY) == 1
rw('decorators', "CopyStreamResult: the three `_strict_map(methodcaller(…), self.targets)` as plain for loops over self.targets",
   (COPY, '''    def startTestRun(self):
        super().startTestRun()
        for target in self.targets:
            target.startTestRun()

    def stopTestRun(self):
        super().stopTestRun()
        for target in self.targets:
            target.stopTestRun()

    def status(self, *args, **kwargs):
        super().status(*args, **kwargs)
        for target in self.targets:
            target.status(*args, **kwargs)
'''))
rw('decorators', "CopyStreamResult.status: the targets are served before super().status (two effects swapped; the base method happens to do nothing)",
   (COPY, COPY.replace('''        super().status(*args, **kwargs)
        _strict_map(methodcaller("status", *args, **kwargs), self.targets)
''', '''        _strict_map(methodcaller("status", *args, **kwargs), self.targets)
        super().status(*args, **kwargs)
''')), expect='strict')
TAG = SRC[SRC.index('class StreamTagger(CopyStreamResult):'):SRC.index('class _TestRecord:')]
TAGST = TAG[TAG.index('    def status(self, *args, **kwargs):'):]

# =================================================================================================== converter (C09)
CONV = SRC[SRC.index('    def _convert(self, test, err, details, status, reason=None):'):SRC.index('    def addExpectedFailure(self, test, err=None, details=None):\n        self._check_args(err, details)\n        self._convert(test, err, details, "xfail")')]
assert CONV.count('self.status(') == 4
import re


def conv(f):
    new = f(CONV)
    assert new != CONV
    return (CONV, new)


def rename(text, names):
    for a, b in names.items():
        text = re.sub(r'(?<![\w.])%s(?!\w)(?!=)' % a, b, text)
    return text


rw('converter', "ExtendedToStreamDecorator._convert: locals alpha-renamed (test_id -> tid, now -> stamp, name -> label, content -> detail, file_bytes -> pending, next_bytes -> chunk, mime_type -> mime); keywords of self.status untouched",
   conv(lambda t: rename(t, {'test_id': 'tid', 'now': 'stamp', 'name': 'label', 'content': 'detail', 'file_bytes': 'pending', 'next_bytes': 'chunk', 'mime_type': 'mime'})
        .replace('detail.detail_type', 'detail.content_type')))
rw('converter', "ExtendedToStreamDecorator._convert: keywords of the four self.status(...) calls in another order (same keyword sets)",
   conv(lambda t: t.replace('''                            file_name=name,
                            file_bytes=file_bytes,
                            mime_type=mime_type,
                            test_id=test_id,
                            timestamp=now,
''', '''                            test_id=test_id,
                            timestamp=now,
                            file_name=name,
                            mime_type=mime_type,
                            file_bytes=file_bytes,
''').replace('''                    file_name=name,
                    file_bytes=file_bytes,
                    eof=True,
                    mime_type=mime_type,
                    test_id=test_id,
                    timestamp=now,
''', '''                    test_id=test_id,
                    file_name=name,
                    file_bytes=file_bytes,
                    mime_type=mime_type,
                    eof=True,
                    timestamp=now,
''').replace('''            test_id=test_id,
            test_status=status,
            test_tags=self.current_tags,
            timestamp=now,
''', '''            test_id=test_id,
            timestamp=now,
            test_tags=self.current_tags,
            test_status=status,
''')))
rw('converter', "ExtendedToStreamDecorator._convert: the empty-chunk default as a conditional expression, b\"\" for _b(\"\")",
   conv(lambda t: t.replace('''                if file_bytes is None:
                    file_bytes = _b("")
''', '''                file_bytes = b"" if file_bytes is None else file_bytes
''')))
rw('converter', "ExtendedToStreamDecorator._convert: `for name in details: content = details[name]` instead of details.items()",
   conv(lambda t: t.replace('''            for name, content in details.items():
''', '''            for name in details:
                content = details[name]
''')))
rw('converter', "ExtendedToStreamDecorator._convert: the two pure bindings at the head of the details loop exchanged (`file_bytes = None` before `mime_type = repr(...)`)",
   conv(lambda t: t.replace('''                mime_type = repr(content.content_type)
                file_bytes = None
''', '''                file_bytes = None
                mime_type = repr(content.content_type)
''')))
rw('converter', "ExtendedToStreamDecorator._convert: None tests respelled (`not (x is None)`, `x != None`, `x == None`) for err / details / reason / file_bytes",
   conv(lambda t: t.replace('if err is not None:', 'if not (err is None):').replace('if details is not None:', 'if details != None:')
        .replace('if reason is not None:', 'if not reason is None:').replace('if file_bytes is None:', 'if file_bytes == None:')))
rw('converter', "ExtendedToStreamDecorator._convert: \"utf-8\" for \"utf8\" in reason.encode, the current tags bound to a local right before the final event",
   conv(lambda t: t.replace('reason.encode("utf8")', 'reason.encode("utf-8")').replace('''        self.status(
            test_id=test_id,
            test_status=status,
            test_tags=self.current_tags,
            timestamp=now,
        )
''', '''        tags = self.current_tags
        self.status(
            test_id=test_id,
            test_status=status,
            test_tags=tags,
            timestamp=now,
        )
''')))
rw('converter', "ExtendedToStreamDecorator._convert: the details block guarded by an inverted test with an empty then-arm (`if details is None: pass else: …`), inner `if details is None` of the traceback block likewise as if/else-less `if not (details is not None)`",
   conv(lambda t: t.replace('''        if details is not None:
            for name, content in details.items():
''', '''        if details is None:
            pass
        else:
            for name, content in details.items():
''').replace('''            if details is None:
                details = {}
''', '''            if not (details is not None):
                details = {}
''')))
E2S = '''        super().startTestRun()
        self._tags = TagContext()
        self.shouldStop = False
        self.__now = None
        self._started = True
'''
assert SRC.count(E2S) == 1
rw('converter', "ExtendedToStreamDecorator.startTestRun: the four independent attribute resets after super().startTestRun() in another order",
   (E2S, '''        super().startTestRun()
        self._started = True
        self.__now = None
        self._tags = TagContext()
        self.shouldStop = False
'''))
rw('converter', "ExtendedToStreamDecorator._convert: `now = self._now()` and `test_id = test.id()` exchanged (two calls of foreign code - test.id() is the test's - in another order)",
   conv(lambda t: t.replace('''        test_id = test.id()
        now = self._now()
''', '''        now = self._now()
        test_id = test.id()
''')), expect='strict')
rw('converter', "ExtendedToStreamDecorator.startTestRun: `self._started = True` moved before super().startTestRun() (order of effects: the targets' startTestRun run with the flag already set)",
   (E2S, '''        self._started = True
        super().startTestRun()
        self._tags = TagContext()
        self.shouldStop = False
        self.__now = None
'''), expect='strict')

# (appended later so that the numbers above stay)
TAGGER = '''        if supplied is None and not test_tags:
            test_tags = None
'''
if SRC.count(TAGGER) == 1:
    rw('decorators', "StreamTagger.status: the two tests of the None rule exchanged (`if not test_tags and supplied is None`)",
       (TAGGER, '''        if not test_tags and supplied is None:
            test_tags = None
'''))
IMPLIED = '''        tags, now = self._tags, self.__now
        self.startTestRun()
        self._tags, self.__now = tags, now
'''
if SRC.count(IMPLIED) == 1:
    rw('converter', "ExtendedToStreamDecorator._implied_start: the two locals renamed",
       (IMPLIED, '''        kept_tags, kept_now = self._tags, self.__now
        self.startTestRun()
        self._tags, self.__now = kept_tags, kept_now
'''))
    rw('converter', "ExtendedToStreamDecorator._implied_start: tags and clock put back BEFORE startTestRun() runs (they are reset again: the time() / tags() given before the first startTest are lost)",
       (IMPLIED, '''        tags, now = self._tags, self.__now
        self._tags, self.__now = tags, now
        self.startTestRun()
'''), expect='strict')

# =================================================================================================== mutants
def mu(group, desc, *pairs):
    MU.append((group, desc, pairs, 'mutant'))


mu('router', "status: the prefix lookup moved in front of the membership test (KeyError for an unknown prefix)",
   (STATUS, STATUS.replace("""        if prefix in self._route_code_prefixes:
            target, consume_route = self._route_code_prefixes[prefix]
""", """        target, consume_route = self._route_code_prefixes[prefix]
        if prefix in self._route_code_prefixes:
""")))
mu('router', "status: the remainder written to kwargs without `or None` (an empty remainder stays \"\")",
   (STATUS, STATUS.replace("""                route_code = route_code[len(prefix) + 1 :]
                if not route_code:
                    route_code = None
                kwargs["route_code"] = route_code
""", """                kwargs["route_code"] = route_code[len(prefix) + 1 :]
""")))
mu('router', "status: early-return form with the `return` after the prefix rule forgotten (the event is forwarded twice)",
   (STATUS, """    def status(self, **kwargs):
        route_code = kwargs.get("route_code", None)
        test_id = kwargs.get("test_id", None)
        if route_code is not None:
            prefix = route_code.split("/")[0]
        else:
            prefix = route_code
        if prefix in self._route_code_prefixes:
            target, consume_route = self._route_code_prefixes[prefix]
            if route_code is not None and consume_route:
                route_code = route_code[len(prefix) + 1 :]
                if not route_code:
                    route_code = None
                kwargs["route_code"] = route_code
            target.status(**kwargs)
        if test_id in self._test_ids:
            self._test_ids[test_id].status(**kwargs)
            return
        self.fallback.status(**kwargs)
"""))
mu('router', "status: test-id rule looked up with dict.get and tested for None (a sink registered as None - or a falsy one - is skipped; not the same as `in`)",
   (STATUS, STATUS.replace("""        elif test_id in self._test_ids:
            target = self._test_ids[test_id]
        else:
            target = self.fallback
""", """        else:
            target = self._test_ids.get(test_id)
            if target is None:
                target = self.fallback
""")))
mu('router', "status: an empty remainder DROPS the event (`if not route_code: return` nested two ifs deep, the forwarding call after the chain as before)",
   (STATUS, STATUS.replace("""                if not route_code:
                    route_code = None
""", """                if not route_code:
                    return
""")))
mu('router', "status: `split(\"/\", 0)[0]` (no split at all: the whole route code is the prefix)",
   (STATUS, STATUS.replace('route_code.split("/")[0]', 'route_code.split("/", 0)[0]')))
mu('router', "add_rule: flattened form with the start in front of the append",
   (ADD, HEAD + """        if do_start_stop_run and self._in_run and not any(s is sink for s in self._sinks):
            sink.startTestRun()
        if do_start_stop_run and not any(s is sink for s in self._sinks):
            self._sinks.append(sink)

"""))
mu('router', "add_rule: `if self._in_run` taken out of the registration test (a sink that is not to see start/stop, or is registered already, is started)",
   (ADD, HEAD + """        if do_start_stop_run and not any(s is sink for s in self._sinks):
            self._sinks.append(sink)
        if self._in_run:
            sink.startTestRun()

"""))
mu('router', "add_rule: a sink that is registered already is not appended again but still started at once (a second start inside the run)",
   (ADD, HEAD + """        if do_start_stop_run:
            if not any(s is sink for s in self._sinks):
                self._sinks.append(sink)
            if self._in_run:
                sink.startTestRun()

"""))
mu('router', "add_rule: registered-already decided by equality (`sink not in self._sinks`) instead of identity",
   (ADD, HEAD + """        if do_start_stop_run and sink not in self._sinks:
            self._sinks.append(sink)
            if self._in_run:
                sink.startTestRun()

"""))
mu('router', "__init__: the fallback registered if it is truthy (`and fallback`) instead of present",
   ("        if do_start_stop_run and fallback is not None:\n", "        if do_start_stop_run and fallback:\n"))
mu('consumers', "status: the early return for interim states placed before the update (interim events no longer update the record)",
   (TAIL, """        self.on_test(self._inprogress.pop(key))
"""), ("""        if not key:
            return

        # update fields""", """        if not key:
            return
        if test_status in INTERIM_STATES:
            return

        # update fields"""))
mu('consumers', "_ensure_key: turned-around guard with the `return key` lost",
   (ENS, """        if test_id is not None:
            key = (test_id, route_code)
            if key not in self._inprogress:
                self._inprogress[key] = _TestRecord.create(test_id, timestamp)
        return None
"""))
mu('consumers', "_update_case: early return for missing tags placed before the file update",
   (UPD, UPD.replace("""        if file_name is not None and file_bytes:""", """        if test_tags is None:
            return case
        if file_name is not None and file_bytes:""")))
mu('consumers', "stopTestRun: unpacked popitem() with the KEY handed on (`record, _ = …`)",
   (STOP, """        while self._inprogress:
            record, _ = self._inprogress.popitem()
            self.on_test(record.got_timestamp(None))
"""))
mu('decorators', "TimestampingStreamResult.status: kwargs.get (not pop) and still `timestamp=…, **kwargs` (the keyword is passed twice: TypeError)",
   (TS, TS.replace('kwargs.pop("timestamp", None)', 'kwargs.get("timestamp", None)')))
mu('decorators', "TimestampingStreamResult.status: popped and not handed on (`super().status(*args, **kwargs)`)",
   (TS, TS.replace('super().status(*args, timestamp=timestamp, **kwargs)', 'super().status(*args, **kwargs)')))
mu('decorators', "StreamToQueue.route_code: join with the operands exchanged",
   (RC, RC.replace('self.routing_code + "/" + route_code', '"/".join((route_code, self.routing_code))')))
mu('decorators', "StreamFailFast.status: `==`/`or` chain with xfail added",
   (FF, """        if test_status == "fail" or test_status == "uxsuccess" or test_status == "xfail":
            self.on_error()
"""))
mu('decorators', "StreamFailFast.status: early return on `in` instead of `not in`",
   (FF, """        if test_status in ["fail", "uxsuccess"]:
            return
        self.on_error()
"""))
mu('decorators', "CopyStreamResult.status: plain loop over reversed(self.targets)",
   (COPY, COPY.replace("""        _strict_map(methodcaller("status", *args, **kwargs), self.targets)""", """        for target in reversed(self.targets):
            target.status(*args, **kwargs)""")))
mu('decorators', "StreamToQueue.status: dict literal without the eof key and with the unadjusted route code",
   (QD_OLD, """        self.queue.put(
            {
                "event": "status",
                "route_code": route_code,
                "timestamp": timestamp,
                "test_id": test_id,
                "test_status": test_status,
                "test_tags": test_tags,
                "runnable": runnable,
                "file_name": file_name,
                "file_bytes": file_bytes,
                "mime_type": mime_type,
            }
        )

"""))
mu('converter', "_convert: loop targets exchanged (`for content, name in details.items()`), the body as it was",
   conv(lambda t: t.replace('for name, content in details.items():', 'for content, name in details.items():')))
mu('converter', "_convert: locals renamed AND the final event stamped with the test id local by mistake (timestamp=tid)",
   conv(lambda t: rename(t, {'test_id': 'tid', 'now': 'stamp'}).replace("""            test_tags=self.current_tags,
            timestamp=stamp,""", """            test_tags=self.current_tags,
            timestamp=tid,""")))
mu('converter', "_convert: the tags read into a local BEFORE the details are emitted (no longer right before the final event)",
   conv(lambda t: t.replace("""        if details is not None:
            for name, content in details.items():""", """        tags = self.current_tags
        if details is not None:
            for name, content in details.items():""").replace('test_tags=self.current_tags', 'test_tags=tags')))
mu('converter', "startTestRun: `self._tags = TagContext()` in front of super().startTestRun()",
   (E2S, """        self._tags = TagContext()
        super().startTestRun()
        self.shouldStop = False
        self.__now = None
        self._started = True
"""))
mu('converter', "_convert: empty-chunk default with the arms exchanged (`b\"\" if file_bytes is not None else file_bytes`)",
   conv(lambda t: t.replace("""                if file_bytes is None:
                    file_bytes = _b("")
""", """                file_bytes = b"" if file_bytes is not None else file_bytes
""")))

# =================================================================================================== write
import glob
os.makedirs(OUT + '/mutants', exist_ok=True)
for f in glob.glob(OUT + '/*.diff') + glob.glob(OUT + '/mutants/*.diff'):
    os.remove(f)
for OUT, RW in ((OUT, RW), (OUT + '/mutants', MU)):
  index = []
  for i, (group, desc, pairs, expect) in enumerate(RW, 1):
      text = SRC
      for old, new in pairs:
          assert text.count(old) == 1, (i, desc)
          text = text.replace(old, new)
      compile(text, F, 'exec')
      d = tempfile.mkdtemp(prefix='stream-mk-', dir='/tmp')
      try:
          for side, t in (('a', SRC), ('b', text)):
              os.makedirs(os.path.join(d, side, os.path.dirname(F)))
              open(os.path.join(d, side, F), 'w').write(t)
          r = subprocess.run(['diff', '-u', 'a/' + F, 'b/' + F], cwd=d, capture_output=True, text=True)
          body = '\n'.join(l.split('\t')[0] if l.startswith(('--- ', '+++ ')) else l for l in r.stdout.splitlines()) + '\n'
          open('%s/%02d.diff' % (OUT, i), 'w').write('diff --git a/%s b/%s\n' % (F, F) + body)
      finally:
          shutil.rmtree(d)
      index.append('%02d: [%s; %s] %s: %s' % (i, group, {'tolerated': 'expected: no alarm', 'strict': 'expected: ALARM (deliberately strict)', 'mutant': 'NOT behaviour-preserving: must alarm'}[expect], F, desc))
  open(OUT + '/INDEX.txt', 'w').write('\n'.join(index) + '\n')
  print(len(RW), 'written to', OUT)
