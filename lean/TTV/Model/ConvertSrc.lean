import TTV.Model.StreamConvert
/-! The statement skeleton of `ExtendedToStreamDecorator._convert` (testtools/testresult/real.py), as data.

`harness/pystream.py` re-reads `_convert` from the tree under test on every run (`TTV/Generated/ConvertSrc.lean`): the
prologue, the `err` → `traceback` detail, the loop over the details with the chunk loop and its one-chunk look-ahead
(`file_bytes` = the pending chunk), the default empty chunk, the `eof` event, the reason file and the final status event —
each `self.status(...)` call recognised only with exactly its keyword set.  The interpreter below gives the skeleton its
meaning over the converter model; `C09_src_convert` proves that the hand-written `convert` (with `chunkLoop`) *is* the
interpretation of exactly what was found in the source.

Trusted: the reading of `for … in content.iter_bytes()` / `details.items()` as iteration over the chunk list / the dict in
order, of `is (not) None`, and of the recognised `self.status(...)` keyword sets as the model's `fileEvent` / final event;
`details["traceback"] = …` as a dict assignment.  Unrecognised statements are `other`. -/
namespace TTV.ConvertSrc
open TTV.Stream TTV.Stream.Convert

/-- body of `for next_bytes in content.iter_bytes():` -/
inductive LStmt where
  | ifPendingEmit     -- if file_bytes is not None: self.status(file_name=name, file_bytes=file_bytes, mime_type=…, test_id=…, timestamp=now)
  | setPending        -- file_bytes = next_bytes
  | other
deriving DecidableEq, Repr

/-- body of `for name, content in details.items():` -/
inductive KStmt where
  | bindMime          -- mime_type = repr(content.content_type)
  | initPending       -- file_bytes = None
  | forChunks (body : List LStmt)
  | defaultEmpty      -- if file_bytes is None: file_bytes = _b("")
  | emitLast          -- self.status(…same…, eof=True)
  | other
deriving DecidableEq, Repr

inductive VStmt where
  | ensureStarted | bindTestId | bindNow
  | ifErrTraceback    -- if err is not None: (if details is None: details = {}); details["traceback"] = TracebackContent(err, test)
  | ifDetailsFor (body : List KStmt)    -- if details is not None: for name, content in details.items(): body
  | ifReasonEmit      -- if reason is not None: self.status(file_name="reason", file_bytes=reason.encode("utf8"), eof=True, mime_type="text/plain; charset=utf8", …)
  | emitFinal         -- self.status(test_id=test_id, test_status=status, test_tags=self.current_tags, timestamp=now)
  | other
deriving DecidableEq, Repr

/-- one iteration of the chunk loop: events emitted, new pending chunk; `none` = unknown statement -/
def lInterp (mk : Bytes → Bool → Event) (c : Bytes) : List LStmt → Option Bytes → Option (List Event × Option Bytes)
  | [], p => some ([], p)
  | .ifPendingEmit :: r, p =>
    match lInterp mk c r p with
    | some x => some ((match p with | some b => [mk b false] | none => []) ++ x.1, x.2)
    | none => none
  | .setPending :: r, _ => lInterp mk c r (some c)
  | .other :: _, _ => none

def chunksInterp (mk : Bytes → Bool → Event) (body : List LStmt) : List Bytes → Option Bytes → Option (List Event × Option Bytes)
  | [], p => some ([], p)
  | c :: cs, p =>
    match lInterp mk c body p with
    | some x =>
      match chunksInterp mk body cs x.2 with
      | some y => some (x.1 ++ y.1, y.2)
      | none => none
    | none => none

/-- the events of one detail; state: the pending chunk (`none` before `file_bytes = None` ran: reading it would be an error) -/
def kInterp (mk : Bytes → Bool → Event) (chunks : List Bytes) : List KStmt → Option (Option Bytes) → Option (List Event)
  | [], _ => some []
  | .bindMime :: r, p => kInterp mk chunks r p
  | .initPending :: r, _ => kInterp mk chunks r (some none)
  | .forChunks body :: r, some p =>
    match chunksInterp mk body chunks p with
    | some x => (kInterp mk chunks r (some x.2)).map (x.1 ++ ·)
    | none => none
  | .defaultEmpty :: r, some p => kInterp mk chunks r (some (some (p.getD [])))
  | .emitLast :: r, some (some b) => (kInterp mk chunks r (some (some b))).map (mk b true :: ·)
  | _ :: _, _ => none

def detailsInterp (id : Nat) (ts : Ts) (body : List KStmt) : List DetailIn → Option (List Event)
  | [] => some []
  | d :: ds =>
    match kInterp (fileEvent id ts d.name d.mime) d.chunks body none, detailsInterp id ts body ds with
    | some a, some b => some (a ++ b)
    | _, _ => none

/-- the arguments `_convert` is called with -/
structure Args where
  err : Bool
  details : Option (List DetailIn)
  reason : Option (List Nat)
  status : Status

def vInterp (id : Nat) (ts : Ts) (tags : List Nat) (a : Args) : List VStmt → Option (List DetailIn) → Option (List Event)
  | [], _ => some []
  | .ensureStarted :: r, d => vInterp id ts tags a r d
  | .bindTestId :: r, d => vInterp id ts tags a r d
  | .bindNow :: r, d => vInterp id ts tags a r d
  | .ifErrTraceback :: r, d => vInterp id ts tags a r (if a.err then some (d.getD [] ++ [tracebackDetail]) else d)
  | .ifDetailsFor body :: r, d =>
    match d with
    | some ds =>
      match detailsInterp id ts body (asDict ds), vInterp id ts tags a r d with
      | some x, some y => some (x ++ y)
      | _, _ => none
    | none => vInterp id ts tags a r d
  | .ifReasonEmit :: r, d => (vInterp id ts tags a r d).map (reasonPart id ts a.reason ++ ·)
  | .emitFinal :: r, d =>
    (vInterp id ts tags a r d).map ({ blank id ts with status := some a.status, tags := some tags } :: ·)
  | .other :: _, _ => none

/-- how the outcome methods call `_convert` -/
def callArgs : Result → Args
  | .success ds => { err := false, details := ds, reason := none, status := .success }
  | .uxsuccess ds => { err := false, details := ds, reason := none, status := .uxsuccess }
  | .error (.details ds) => { err := false, details := some ds, reason := none, status := .fail }
  | .error .err => { err := true, details := none, reason := none, status := .fail }
  | .failure (.details ds) => { err := false, details := some ds, reason := none, status := .fail }
  | .failure .err => { err := true, details := none, reason := none, status := .fail }
  | .xfail (.details ds) => { err := false, details := some ds, reason := none, status := .xfail }
  | .xfail .err => { err := true, details := none, reason := none, status := .xfail }
  | .skip .none => { err := false, details := none, reason := none, status := .skip }
  | .skip (.reason r) => { err := false, details := none, reason := some r, status := .skip }
  | .skip (.details ds) => { err := false, details := some ds, reason := none, status := .skip }

def refDetailBody : List KStmt := [.bindMime, .initPending, .forChunks [.ifPendingEmit, .setPending], .defaultEmpty, .emitLast]
def refConvert : List VStmt :=
  [.ensureStarted, .bindTestId, .bindNow, .ifErrTraceback, .ifDetailsFor refDetailBody, .ifReasonEmit, .emitFinal]

/-! ### `startTestRun`: what a new run resets -/
inductive XStmt where
  | superCall       -- super().startTestRun(): the targets and the summary
  | resetTags       -- self._tags = TagContext()
  | clearStop       -- self.shouldStop = False
  | resetClock      -- self.__now = None
  | setStarted      -- self._started = True
  -- `__init__`
  | superInit       -- super().__init__([decorated])
  | controlInit     -- TestControl.__init__(self)
  | clearStarted    -- self._started = False
  -- `_implied_start` (a run that was not started with startTestRun())
  | saveState       -- tags, now = self._tags, self.__now
  | callStartTestRun  -- self.startTestRun()
  | restoreState    -- self._tags, self.__now = tags, now
  -- `startTest`
  | ensureStarted   -- if not self._started: self._implied_start()
  | emitInprogress  -- self.status(test_id=test.id(), test_status="inprogress", timestamp=self._now())
  | pushTags        -- self._tags = TagContext(self._tags)
  | other
deriving DecidableEq, Repr

/-- the converter's state (run-level tags, last `time()` value) after `startTestRun`, from whatever it was -/
def xInterp : List XStmt → St → Option St
  | [], s => some s
  | .resetTags :: r, s => xInterp r { s with gtags := [] }
  | .resetClock :: r, s => xInterp r { s with now := none }
  | .other :: _, _ => none
  | _ :: r, s => xInterp r s

def refStart : List XStmt := [.superCall, .resetTags, .clearStop, .resetClock, .setStarted]

/-- `__init__`: the state before any run is started exists and is blank (`tags()` / `time()` may come before the first startTest) -/
def refInit : List XStmt := [.superInit, .controlInit, .clearStarted, .resetTags, .resetClock]

/-- `_implied_start` given the body of `startTestRun`: the state afterwards; `saved` = the locals `tags, now` -/
def iInterp (start : List XStmt) : List XStmt → St → Option St → Option St
  | [], s, _ => some s
  | .saveState :: r, s, _ => iInterp start r s (some s)
  | .callStartTestRun :: r, s, sv =>
    match xInterp start s with
    | some s' => iInterp start r s' sv
    | none => none
  | .restoreState :: r, _, some sv => iInterp start r sv (some sv)
  | _ :: _, _, _ => none

def refImpliedStart : List XStmt := [.saveState, .callStartTestRun, .restoreState]

/-- `startTest(test)` with the converter in state `s` (run-level tags, last `time()` value): the state afterwards and the
events emitted; `started` = `self._started` -/
def tInterp (start implied : List XStmt) (started : Bool) (id : Nat) : List XStmt → St → Option (St × List Event)
  | [], s => some (s, [])
  | .ensureStarted :: r, s =>
    if started then tInterp start implied started id r s
    else match iInterp start implied s none with
      | some s' => tInterp start implied started id r s'
      | none => none
  | .emitInprogress :: r, s =>
    (tInterp start implied started id r s).map fun x => (x.1, { blank id (stamp s.now) with status := some .inprogress } :: x.2)
  | .pushTags :: r, s => tInterp start implied started id r s        -- a child context: the run-level tags stay in force
  | _ :: _, _ => none

def refStartTest : List XStmt := [.ensureStarted, .emitInprogress, .pushTags]

end TTV.ConvertSrc
