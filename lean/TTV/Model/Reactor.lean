/-! M-React (shared by C14, C15): a virtual-time reactor and the `Spinner` state machine.

* The reactor is `twisted.internet.task.Clock` as used by `harness/vreactor.py`: virtual time `Nat`, the
  pending delayed calls as a list kept **sorted by time, stable** (`callLater` = append + stable sort =
  insertion behind every call that is due no later), so the position in the list is the order
  `(time, scheduling sequence)` in which calls run.  `reactor.run()` = run what was registered with
  `callWhenRunning`, then `while not crashed: advance to the time of the earliest call; run every call
  that is due (also after a crash request)` (`drain` / `spin`).
* `Spinner` (`testtools/twistedsupport/_spinner.py`): `_success`, `_failure`, `_spinning`, the timeout
  call, `_junk`; `_got_success/_got_failure` (`deliver`), `_stop_reactor`, `_timed_out`.

The user actions `A` and the user state `U` are parameters: C15 instantiates them with the scenario
actions of `Model/Spinner.lean`, C14 with the stage chain of `Model/AsyncRun.lean`.
Import-free (the driver links against it). -/
namespace TTV.Reactor

/-- a pending `DelayedCall` -/
structure DCall (A : Type) where
  time : Nat
  act : A
deriving Repr

/-- `Clock.callLater`: `calls.append(dc); calls.sort(key=time)` (stable) -/
def insert {A : Type} (c : DCall A) : List (DCall A) → List (DCall A)
  | [] => [c]
  | d :: ds => if d.time ≤ c.time then d :: insert c ds else c :: d :: ds

/-- what `Spinner.run` returns or raises -/
inductive Res
  | value (v : Nat)      -- returned v
  | raised (e : Nat)     -- raised the user's exception number e
  | timeout              -- TimeoutError
  | noresult             -- NoResultError
  | reentry              -- ReentryError
  | stalejunk            -- StaleJunkError
  | rejected             -- `reactor.callLater(timeout, …)` raised (a timeout the reactor does not accept)
deriving DecidableEq, Repr, Inhabited

/-- label of a delayed call: the spinner's own timeout call or the n-th call of the scenario -/
inductive Lbl | timeout | user (n : Nat)
deriving DecidableEq, Repr

/-- what sits in the reactor's queue -/
inductive QAct (A : Type) | timeout | user (lbl : Nat) (a : A)
deriving Repr

def QAct.lbl {A : Type} : QAct A → Lbl
  | .timeout => .timeout
  | .user l _ => .user l

def QAct.isTimeout {A : Type} : QAct A → Bool
  | .timeout => true
  | .user _ _ => false

/-- an entry of `Spinner._junk`: a cancelled delayed call or a removed selectable -/
inductive Junk | call (l : Lbl) | sel (n : Nat)
deriving DecidableEq, Repr

/-- state of `Spinner._timeout_call` -/
inductive TState | unset | pending | called | cancelled
deriving DecidableEq, Repr

structure Spinner where
  success : Option Nat := none     -- `_success` (`none` = `_UNSET`)
  failure : Option Res := none     -- `_failure`: `raised e` or `timeout`
  spinning : Bool := false
  tcall : TState := .unset
  junk : List Junk := []
  saved : List Nat := []           -- `_saved_signals`: the handlers found by the last `_save_signals()` ([] = none saved)
deriving Repr

/-- reactor + process state + spinner + the user's state -/
structure World (A U : Type) where
  now : Nat := 0
  calls : List (DCall (QAct A)) := []
  sels : List Nat := []                 -- registered selectables (by the label of the registering action)
  crashed : Bool := false
  running : Bool := false
  stopPatched : Bool := false           -- `reactor.stop` currently is `Spinner._fake_stop`
  sigs : List Nat := [0, 0, 0, 0]       -- installed handler (0 = the one found at the start) per signal
  sp : Spinner := {}
  t0 : Nat := 0                         -- virtual time at the start of the current `Spinner.run`
  events : List (Nat × Lbl) := []       -- calls executed in the current run: (time - t0, label)
  u : U

variable {A U : Type}

def schedule (t : Nat) (q : QAct A) (w : World A U) : World A U :=
  { w with calls := insert ⟨t, q⟩ w.calls }

def logEvent (l : Lbl) (w : World A U) : World A U :=
  { w with events := w.events ++ [(w.now - w.t0, l)] }

/-- `Spinner._stop_reactor` -/
def stopReactor (w : World A U) : World A U :=
  if w.sp.spinning then { w with crashed := true, sp := { w.sp with spinning := false } } else w

/-- `_got_success` / `_got_failure` followed by `_stop_reactor` (the callbacks `run_function` adds).
`_cancel_timeout()` raises `AlreadyCalled`/`AlreadyCancelled` unless the timeout call is still pending; the
exception is swallowed by the callback chain and the result is **not** recorded. -/
def deliver (r : Res) (w : World A U) : World A U :=
  let w := match w.sp.tcall with
    | .pending =>
      let sp := { w.sp with tcall := .cancelled }
      let sp := match r with
        | .value v => { sp with success := some v }
        | f => { sp with failure := some f }
      { w with calls := w.calls.filter (fun c => !c.act.isTimeout), sp := sp }
    | _ => w
  stopReactor w

/-- `Spinner._timed_out` -/
def execTimeout (w : World A U) : World A U :=
  let w := logEvent .timeout w
  stopReactor { w with sp := { w.sp with tcall := .called, failure := some .timeout } }

def execCall (exec : Nat → A → World A U → World A U) (c : DCall (QAct A)) (w : World A U) : World A U :=
  match c.act with
  | .timeout => execTimeout w
  | .user l a => exec l a (logEvent (.user l) w)

/-- `Clock.advance`'s loop: `while calls and calls[0].time <= now: pop it and call it` -/
def drain (exec : Nat → A → World A U → World A U) : Nat → World A U → World A U
  | 0, w => w
  | n + 1, w =>
    match w.calls with
    | [] => w
    | c :: rest => if c.time ≤ w.now then drain exec n (execCall exec c { w with calls := rest }) else w

/-- the loop of `reactor.run()`.  `fuelD n` bounds the inner loop after `n` outer iterations are left.
An empty queue while not crashed would block for ever (the harness's reactor raises); it cannot happen
under `Spinner.run`, whose timeout call is pending until the reactor is crashed. -/
def spin (exec : Nat → A → World A U → World A U) (fuelD : World A U → Nat) : Nat → World A U → World A U
  | 0, w => w
  | n + 1, w =>
    if w.crashed then w else
    match w.calls with
    | [] => w
    | c :: _ =>
      let w := { w with now := max w.now c.time }
      spin exec fuelD n (drain exec (fuelD w) w)

/-- `Spinner._get_result` -/
def getResult (sp : Spinner) : Res :=
  match sp.failure with
  | some f => f
  | none => match sp.success with
    | some v => .value v
    | none => .noresult

/-- what `_clean` finds: the pending calls in queue order, then the selectables -/
def leftovers (w : World A U) : List Junk :=
  w.calls.map (fun c => Junk.call c.act.lbl) ++ w.sels.map Junk.sel

end TTV.Reactor
