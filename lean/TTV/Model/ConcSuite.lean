import TTV.Model.Conc
/-! # M-Conc, part 2 — `ConcurrentTestSuite.run` and `ConcurrentStreamTestSuite.run`  (C13)

Transcription of testtools/testsuite.py lines 65-195.

* Thread 0 is the caller of `run()` (*main*); thread `w+1` is the worker of the `w`-th sub-suite that
  `make_tests` yields.  Workers are static lists of micro-steps run by the shared `Conc.stepThread`
  (`acq | rel | call | put`); main is a small state machine (`MainPc`) because what it does next depends
  on what it takes out of the queue.
* `ConcurrentTestSuite` (*suite* flavour): a worker drives its own `ThreadsafeForwardingResult` (the
  forwarder of `Conc.stepOp`) through its tests; the first raise abandons the rest (`PlaceHolder.run` has
  no handler) and the `broken-runner` error holder is reported through the same forwarder;
  `queue.put(threading.current_thread())` in `finally` - the worker hands back its own Thread object, the key under
  which `run()` registered it (`Item.fin w`; a worker IS its position in what `make_tests` yields: the sub-suite object
  may be unhashable, equal to another one or the very same object again - the model never looks at it).  A sub-suite that
  is a stock `unittest.TestSuite` reads `result.shouldStop` - one more critical section of the forwarder - before each
  element it holds (`Worker.polls`).  Main: `start()` each, then `get · join` until no thread is registered; in the `except:`
  clause `process_result.stop()` (a forwarder control section) for every registered worker, then re-raise.
* `ConcurrentStreamTestSuite` (*stream* flavour): for each sub-suite MAIN registers the worker, calls
  `process_result.startTestRun()` itself - `ExtendedToStreamDecorator.startTestRun` first forwards (the
  `put` of the `startTestRun` item, a scheduling point of main: `MainPc.announce`) and *then* assigns
  `self.shouldStop = False` - and only then starts the thread (`MainPc.spawn`).  A worker's test is a
  TestResult-API test or one that calls `result.status(...)` itself (the per-worker result is
  `ExtendedToStreamDecorator(TimestampingStreamResult(StreamToQueue))`; `TimestampingStreamResult.status`
  replaces a missing or `None` `timestamp` by the wall clock, a given one travels unchanged).  The worker puts its status
  events (`inprogress`, final status; for a broken runner `inprogress`, the traceback chunks, `fail`) and
  `stopTestRun` into the queue.  A worker's program counter still lists all the items that travel under its
  route code, the first of them (`startTestRun`) being put by main on its behalf before the thread exists.
  Main forwards `status` items to the caller's result, and pops + joins on `stopTestRun`; in the `except:`
  clause it sets `shouldStop` of every registered worker's result (no shared-object operation), then
  re-raises.  (The code enters the worker into `threads` just before `startTestRun()` / `start()`; the model
  does it in the `start()` step - nothing can raise in between, so this is indistinguishable.)
* Exceptions reaching main: `make_tests` raises after yielding `k` sub-suites; the `m`-th `queue.get()` is
  interrupted (how a `KeyboardInterrupt` is modelled); the caller's result raises at main's `j`-th call on
  it (stream: a `status` call; suite: a `stop` call of the abort path, which then aborts the abort).
* Inside the machine a status event carries the index of the worker that emitted it (`SEv.w`; the code keys its table by
  the worker's `StreamToQueue` OBJECT, and the `stopTestRun` item carries that object: a worker is its position in what
  `make_tests` yields, whatever route code it was given).  What the caller's result can see of that is the route code:
  `traceOf` relabels every delivered event with `routeOf` - two workers given the same code (`None` twice, the same string)
  are then told apart by nothing but the content and order of their events.
* `threads[...]` is main-local: removing the entry when the finished sub-suite is taken from the queue
  (stream: as the code does; suite: the code deletes it after the join) is indistinguishable, because
  nothing can raise between `get` and the end of `join` in this model. -/
namespace TTV.Conc

inductive Flavour where
  | suite | stream
deriving DecidableEq, Repr, Inhabited

/-- how a natively emitted event states its time: keyword omitted, `timestamp=None`, or a given instant -/
inductive TsMode where
  | omitted
  | none
  | given (n : Nat)
deriving DecidableEq, Repr, Inhabited

/-- one scripted `result.status(...)` call of a test that speaks the stream protocol itself -/
structure NEv where
  id : Nat
  kind : SKind
  tags : Option (List Nat)
  ts : TsMode
deriving Repr, Inhabited

/-- a test of a sub-suite: a TestResult-API test (`PlaceHolder` with outcome `kind` and `tags`), or - stream flavour
only, `native = some evs` - a test whose `run(result)` calls `result.status(...)` for each scripted event -/
structure WTest where
  kind : Kind
  tags : List Nat
  native : Option (List NEv) := none
deriving Repr, Inhabited

/-- a sub-suite: runs its placeholder tests in order, then raises from `run()` if `boom` -/
structure Worker where
  tests : List WTest
  boom : Bool
  faults : List Nat        -- suite flavour: this worker's calls on the target that raise
  polls : Bool := false    -- suite flavour: the sub-suite is a stock `unittest.TestSuite`, whose `run()` reads `result.shouldStop`
                           -- (the forwarder's property: `acquire · target.shouldStop · release`) before each test it holds
deriving Repr, Inhabited

inductive Cause where
  | interrupt | makeTests | injected
deriving DecidableEq, Repr, Inhabited

inductive MainRes where
  | returned
  | raised (c : Cause)
deriving DecidableEq, Repr, Inhabited

structure SInput where
  flavour : Flavour
  workers : List Worker
  mkRaise : Option Nat          -- make_tests raises after yielding this many sub-suites
  intr : Option Nat        -- main's queue.get() number … is interrupted
  mfaults : List Nat       -- main's calls on the caller's result that raise
  tb : Nat                 -- chunks of a broken-runner traceback (measured on the implementation)
  sched : List Nat
  routes : List Nat := []  -- stream flavour: the route code `make_tests` gives to each worker, as a small number; codes may REPEAT
                           -- (several workers given `None`, or the same string); a worker without an entry has its own index
deriving Repr, Inhabited

/-- the route code of worker `w` (equal codes for different workers are allowed) -/
def routeOf (i : SInput) (w : Nat) : Nat := (i.routes[w]?).getD w

/-! ## worker programs -/

def testOps (j : Nat) (t : WTest) : List Op :=
  [.tags t.tags [], .startTest (.t j), .outcome t.kind (.t j), .stopTest (.t j), .tags [] t.tags]

def testsOps : Nat → List WTest → List Op
  | _, [] => []
  | j, t :: ts => testOps j t ++ testsOps (j + 1) ts

/-- what a sub-suite does with its forwarder.  A stock `unittest.TestSuite` (`polls`) reads `result.shouldStop` before every
element it holds - its tests and, if the run is to break, the element whose `run()` raises.  The value read is not modelled:
it is taken to be `False` (the worker goes on); a worker that reads `True` leaves the loop and does a prefix of this. -/
def testsOpsP (p : Bool) : Nat → List WTest → List Op
  | _, [] => []
  | j, t :: ts => (if p then [Op.ctl .shouldStop] else []) ++ testOps j t ++ testsOpsP p (j + 1) ts

def workerOps (w : Worker) : List Op :=
  testsOpsP w.polls 0 w.tests ++ (if w.polls && w.boom then [.ctl .shouldStop] else [])

def brokenOps : List Op :=
  [.tags [] [], .startTest .broken, .outcome .error .broken, .stopTest .broken, .tags [] []]

structure WProg where
  segs : List Seg
  died : Bool              -- the worker's thread ends with an exception
deriving Repr

/-- `_run_test` of ConcurrentTestSuite -/
def suiteProg (wi : Nat) (w : Worker) : WProg :=
  let r := sectionsAbort w.faults {} (workerOps w)
  if r.2.2 || w.boom then
    let b := sectionsAbort w.faults r.2.1 brokenOps
    { segs := (r.1 ++ b.1).map Seg.sec ++ [.put (.fin wi)], died := b.2.2 }
  else
    { segs := r.1.map Seg.sec ++ [.put (.fin wi)], died := false }

def statusOf : Kind → Status
  | .success => .success | .error => .fail | .failure => .fail
  | .skip => .skip | .xfail => .xfail | .uxsuccess => .uxsuccess

/-- a natively emitted event as it is delivered: `TimestampingStreamResult` replaces a missing or `None` time stamp
by the wall clock and leaves a given one alone; everything else travels unchanged -/
def nativeEvent (wi : Nat) (e : NEv) : SEv :=
  { w := wi, id := .t e.id, kind := e.kind, tags := e.tags.map normTags,
    ts := match e.ts with
      | .given n => some n
      | _ => none }

/-- the events of one test: `inprogress` (no tags) and the final status with the test's tags current, or the
scripted events of a native emitter -/
def testEvents (wi j : Nat) (t : WTest) : List SEv :=
  match t.native with
  | some evs => evs.map (nativeEvent wi)
  | none => [{ w := wi, id := .t j, kind := .st .inprogress },
             { w := wi, id := .t j, kind := .st (statusOf t.kind), tags := some (normTags t.tags) }]

def testsEvents (wi : Nat) : Nat → List WTest → List SEv
  | _, [] => []
  | j, t :: ts => testEvents wi j t ++ testsEvents wi (j + 1) ts

/-- the traceback of the broken runner: `n` chunks (at least one event), the last with `eof` -/
def fileEvents (wi : Nat) : Nat → List SEv
  | 0 => [{ w := wi, id := .broken, kind := .file true }]
  | 1 => [{ w := wi, id := .broken, kind := .file true }]
  | n + 2 => { w := wi, id := .broken, kind := .file false } :: fileEvents wi (n + 1)

/-- the final event of the errored `broken-runner` test of worker `wi` -/
def brokenFail (wi : Nat) : SEv := { w := wi, id := .broken, kind := .st .fail, tags := some [] }

def brokenEvents (wi tb : Nat) : List SEv :=
  { w := wi, id := .broken, kind := .st .inprogress } :: (fileEvents wi tb ++ [brokenFail wi])

/-- the status events worker `wi` emits, in order -/
def streamEvents (wi tb : Nat) (w : Worker) : List SEv :=
  testsEvents wi 0 w.tests ++ (if w.boom then brokenEvents wi tb else [])

/-- `_run_test` of ConcurrentStreamTestSuite -/
def streamProg (wi tb : Nat) (w : Worker) : WProg :=
  { segs := .put (.startRun wi) :: ((streamEvents wi tb w).map (fun e => Seg.put (.status e)) ++ [.put (.stopRun wi)]),
    died := false }

def progOf (i : SInput) (wi : Nat) (w : Worker) : WProg :=
  match i.flavour with
  | .suite => suiteProg wi w
  | .stream => streamProg wi i.tb w

def progsFrom (i : SInput) : Nat → List Worker → List WProg
  | _, [] => []
  | k, w :: ws => progOf i k w :: progsFrom i (k + 1) ws

def progs (i : SInput) : List WProg := progsFrom i 0 i.workers

/-! ## main -/

inductive MainPc where
  | announce (k : Nat)     -- stream: parked at the `put` of worker k's `startTestRun` item (`process_result.startTestRun()`)
  | spawn (k : Nat)        -- parked at `start()` of worker k's thread
  | get                    -- parked at `queue.get()`
  | join (w : Nat)         -- parked at `join()` of worker w's thread
  | fwd (e : SEv)          -- parked at `result.status(e)` (stream)
  | abort                  -- running the `process_result.stop()` sections of the `except:` clause (suite)
  | done
deriving DecidableEq, Repr, Inhabited

structure CSt where
  base : St                       -- semaphore, queue, worker program counters (index w+1; index 0: main's abort path), log
  mpc : MainPc := .done
  nsp : Nat := 0                  -- workers started so far: 0 … nsp-1
  reg : List Nat := []            -- keys of `threads`, in insertion order
  flags : List Bool := []         -- stream: `shouldStop` of each worker's ExtendedToStreamDecorator
  sink : List (SEv × Bool) := []  -- stream: status calls the caller's result received, with "raised"
  nstatus : Nat := 0
  ngets : Nat := 0
  result : Option MainRes := none
  pending : Cause := .injected    -- suite: what is re-raised after the stop() calls
  joined : List Nat := []
  liveAtReturn : List Nat := []
  msecs : List Section := []      -- suite: the stop() sections of the abort path, once main has entered it
deriving Repr, Inhabited

def spawnCount (i : SInput) : Nat :=
  match i.mkRaise with
  | some k => min k i.workers.length
  | none => i.workers.length

def workerDone (s : CSt) (w : Nat) : Bool := s.base.pcs[w + 1]? == some []

def unfinished (s : CSt) : List Nat := (List.range s.nsp).filter fun w => !workerDone s w

def finishMain (s : CSt) (r : MainRes) : CSt :=
  { s with mpc := .done, result := some r, liveAtReturn := unfinished s }

/-- the `stop()` sections of the abort path: one per registered worker, abandoned after one that raises -/
def stopSections (mf : List Nat) : Nat → Nat → List Section
  | _, 0 => []
  | k, n + 1 => if mf.contains k then [[(.ctl .stop, true)]] else [(.ctl .stop, false)] :: stopSections mf (k + 1) n

def stopsRaise (mf : List Nat) : Nat → Nat → Bool
  | _, 0 => false
  | k, n + 1 => mf.contains k || stopsRaise mf (k + 1) n

def setFlags (flags : List Bool) : List Nat → List Bool
  | [] => flags
  | w :: ws => setFlags (flags.set w true) ws

/-- the `except:` clause of `run()` -/
def abortMain (i : SInput) (s : CSt) (c : Cause) : CSt :=
  match i.flavour with
  | .stream => finishMain { s with flags := setFlags s.flags s.reg } (.raised c)
  | .suite =>
    if s.reg.isEmpty then finishMain s (.raised c)
    else
      { s with base := { s.base with pcs := s.base.pcs.set 0 (progSteps (stopSections i.mfaults 0 s.reg.length)) },
               mpc := .abort,
               msecs := stopSections i.mfaults 0 s.reg.length,
               pending := if stopsRaise i.mfaults 0 s.reg.length then .injected else c }

/-- `while threads:` -/
def loopHead (s : CSt) : CSt :=
  if s.reg.isEmpty then finishMain s .returned else { s with mpc := .get }

/-- where main parks next once `make_tests` has yielded sub-suite `k`: stream - at the `put` of
`process_result.startTestRun()`; suite - at `start()` -/
def parkPc (i : SInput) (k : Nat) : MainPc :=
  match i.flavour with
  | .stream => .announce k
  | .suite => .spawn k

/-- the `for` loop asks `make_tests` for sub-suite number `k` -/
def nextSpawn (i : SInput) (s : CSt) (k : Nat) : CSt :=
  if k < spawnCount i then { s with mpc := parkPc i k }
  else if i.mkRaise.isSome then abortMain i s .makeTests
  else loopHead s

def mainEnabled (i : SInput) (s : CSt) : Bool :=
  match s.mpc with
  | .announce _ => true
  | .spawn _ => true
  | .get => i.intr == some s.ngets || !s.base.queue.isEmpty
  | .join w => workerDone s w
  | .fwd _ => true
  | .abort => enabled s.base 0
  | .done => false

/-- `ExtendedToStreamDecorator.startTestRun`: forward (the `put`), then `self.shouldStop = False` -/
def flagsAfter (s : CSt) (t : Nat) : List Bool :=
  match s.base.pcs[t]? with
  | some (.put (.startRun w) :: _) => s.flags.set w false
  | _ => s.flags

def stepMain (i : SInput) (s : CSt) : CSt :=
  match s.mpc with
  | .announce k =>
    -- main puts worker k's `startTestRun` item (the head of that worker's item list), then clears its stop flag
    { s with base := stepThread s.base (k + 1), flags := flagsAfter s (k + 1), mpc := .spawn k }
  | .spawn k => nextSpawn i { s with nsp := k + 1, reg := s.reg ++ [k] } (k + 1)
  | .get =>
    if i.intr == some s.ngets then abortMain i { s with ngets := s.ngets + 1 } .interrupt
    else
      match s.base.queue with
      | [] => s
      | x :: q =>
        let s' : CSt := { s with base := { s.base with queue := q }, ngets := s.ngets + 1 }
        match x with
        | .fin w => { s' with reg := s'.reg.erase w, mpc := .join w }
        | .stopRun w => { s' with reg := s'.reg.erase w, mpc := .join w }
        | .startRun _ => loopHead s'
        | .status e => { s' with mpc := .fwd e }
  | .join w => if workerDone s w then loopHead { s with joined := s.joined ++ [w] } else s
  | .fwd e =>
    let r := i.mfaults.contains s.nstatus
    let s' : CSt := { s with sink := s.sink ++ [(e, r)], nstatus := s.nstatus + 1 }
    if r then abortMain i s' .injected else loopHead s'
  | .abort =>
    let s' : CSt := { s with base := stepThread s.base 0 }
    if (s'.base.pcs[0]?.getD []).isEmpty then finishMain s' (.raised s.pending) else s'
  | .done => s

/-! ## the whole system -/

def enabledC (i : SInput) (s : CSt) (t : Nat) : Bool :=
  if t = 0 then mainEnabled i s else decide (t - 1 < s.nsp) && enabled s.base t

/-- thread `t` takes its next step (a no-op if it is not started, finished or blocked) -/
def stepC (i : SInput) (s : CSt) (t : Nat) : CSt :=
  if t = 0 then (if mainEnabled i s then stepMain i s else s)
  else if t - 1 < s.nsp then { s with base := stepThread s.base t, flags := flagsAfter s t }
  else s

def runC (i : SInput) (s : CSt) (sched : List Nat) : CSt := sched.foldl (stepC i) s

def firstEnabledC (i : SInput) (s : CSt) : Option Nat := (List.range s.base.pcs.length).find? (enabledC i s)

def drainC (i : SInput) : Nat → CSt → CSt
  | 0, s => s
  | fuel + 1, s =>
    match firstEnabledC i s with
    | none => s
    | some t => drainC i fuel (stepC i s t)

def finishedC (s : CSt) : Bool := s.mpc == .done && (unfinished s).isEmpty

def initC (i : SInput) : CSt :=
  nextSpawn i { base := { pcs := [] :: (progs i).map fun p => segSteps p.segs },
                flags := i.workers.map fun _ => false } 0

/-- enough fuel for every run (see `TTV.Props.C13`) -/
def fuelC (i : SInput) : Nat := 3 * remaining (initC i).base + 12 * i.workers.length + 8

def finalC (i : SInput) : CSt := drainC i (fuelC i) (runC i (initC i) i.sched)

structure STrace where
  log : List Ev                        -- suite: semaphore/target events (thread 0 = main, w+1 = worker w)
  sink : List (SEv × Bool × Bool)      -- stream: events received by the caller's result: (event, has timestamp, raised); the `w` of
                                       -- an observed event is its ROUTE CODE - all that tells the caller who emitted it
  result : Option MainRes              -- how run() ended (none: it never did)
  spawned : List Nat                   -- workers started, in order
  joined : List Nat                    -- workers joined, in order
  liveAtReturn : List Nat              -- started workers still running when run() ended
  runs : List Nat                      -- per worker: number of times its run() was called
  flags : List Bool                    -- per worker: final shouldStop of its result (stream)
  died : List Bool                     -- per worker: its thread ended with an exception
  finished : Bool                      -- every started thread ended (no deadlock)
deriving Repr, Inhabited

def traceOf (i : SInput) (s : CSt) : STrace :=
  let n := i.workers.length
  { log := s.base.log,
    sink := s.sink.map fun p => ({ p.1 with w := routeOf i p.1.w }, true, p.2),
    result := s.result,
    spawned := List.range s.nsp,
    joined := s.joined,
    liveAtReturn := s.liveAtReturn,
    runs := (List.range n).map fun w => if w < s.nsp then 1 else 0,
    flags := s.flags,
    died := (progs i).zipIdx.map fun p => decide (p.2 < s.nsp) && p.1.died,
    finished := finishedC s }

def modelC (i : SInput) : STrace := traceOf i (finalC i)

/-! ## histories: several `run()` calls on ONE suite object

`run()` keeps nothing on the suite object: `make_tests` is called again, the queue, the semaphore, the table of threads and the
per-worker results are locals of the call.  A history of runs - each with its own worker programs, fault plan and schedule, the
earlier ones possibly aborted, their leftover workers finishing before or while the next run goes on - is therefore modelled as
what it should be: every run by itself, on a fresh machine. -/

abbrev HInput := List SInput
abbrev HTrace := List STrace

def modelH (h : HInput) : HTrace := h.map modelC

end TTV.Conc
