/-! M-Content: model of `testtools.content` (`Content`, `_iter_chunks`, `text_content`, `json_content`,
`content_from_file/stream/reader`), `testtools.content_type.ContentType.__repr__`,
`testtools.testresult.real._make_content_type` and `testtools.testcase._copy_content`.
Import-free (the driver links against it).

Bytes are `Nat`s below 256, text is a list of code points (Unicode scalar values); both invariants are
enforced by the codec (`TTV/Drv/C16.lean`). -/
namespace TTV.Content

abbrev Bytes := List Nat
abbrev Text := List Nat

/-! ## UTF-8 (what `str.encode("utf8")` produces) -/

/-- Unicode scalar value: what a Python `str` element can be encoded from -/
def validCp (c : Nat) : Bool := c < 0xD800 || (0xE000 ≤ c && c < 0x110000)

def encodeCp (c : Nat) : Bytes :=
  if c < 0x80 then [c]
  else if c < 0x800 then [0xC0 + c / 64, 0x80 + c % 64]
  else if c < 0x10000 then [0xE0 + c / 4096, 0x80 + c / 64 % 64, 0x80 + c % 64]
  else [0xF0 + c / 262144, 0x80 + c / 4096 % 64, 0x80 + c / 64 % 64, 0x80 + c % 64]

def utf8Encode (s : Text) : Bytes := s.flatMap encodeCp

/-! ## Incremental decoders (`codecs.getincrementaldecoder(enc)()`)

`feed` = `decoder.decode(chunk)`, `flush` = `decoder.decode(b"", True)`; `none` = `UnicodeDecodeError`. -/
structure Decoder (σ : Type) where
  init : σ
  feed : σ → Bytes → Option (σ × Text)
  flush : σ → Option Text

/-- a decoder given by a per-byte transition function -/
def feedBytes {σ : Type} (step : σ → Nat → Option (σ × Text)) : σ → Bytes → Option (σ × Text)
  | s, [] => some (s, [])
  | s, b :: bs =>
    match step s b with
    | none => none
    | some (s', o) =>
      match feedBytes step s' bs with
      | none => none
      | some (s'', o') => some (s'', o ++ o')

/-- ISO-8859-1: every byte is the code point of the same number -/
def latin1 : Decoder Unit :=
  { init := (), feed := feedBytes (fun _ b => if b < 256 then some ((), [b]) else none), flush := fun _ => some [] }

/-- ASCII: bytes above 127 are errors -/
def ascii : Decoder Unit :=
  { init := (), feed := feedBytes (fun _ b => if b < 128 then some ((), [b]) else none), flush := fun _ => some [] }

/-- state of the UTF-8 machine: `need` continuation bytes outstanding (0 = between characters; at most 3),
the bits gathered so far, and the range the next byte must lie in (this is where overlong forms,
surrogates and values above U+10FFFF are rejected, as CPython does, as soon as the byte arrives) -/
structure U8 where
  need : Nat
  acc : Nat
  lo : Nat
  hi : Nat
deriving DecidableEq, Repr

def U8.start : U8 := ⟨0, 0, 0x80, 0xBF⟩

def u8step (s : U8) (b : Nat) : Option (U8 × Text) :=
  if s.need = 0 then
    if b < 0x80 then some (U8.start, [b])
    else if 0xC2 ≤ b && b ≤ 0xDF then some (⟨1, b - 0xC0, 0x80, 0xBF⟩, [])
    else if 0xE0 ≤ b && b ≤ 0xEF then
      some (⟨2, b - 0xE0, if b = 0xE0 then 0xA0 else 0x80, if b = 0xED then 0x9F else 0xBF⟩, [])
    else if 0xF0 ≤ b && b ≤ 0xF4 then
      some (⟨3, b - 0xF0, if b = 0xF0 then 0x90 else 0x80, if b = 0xF4 then 0x8F else 0xBF⟩, [])
    else none
  else if s.lo ≤ b && b ≤ s.hi then
    if s.need = 1 then some (U8.start, [s.acc * 64 + (b - 0x80)])
    else some (⟨s.need - 1, s.acc * 64 + (b - 0x80), 0x80, 0xBF⟩, [])
  else none

def utf8 : Decoder U8 :=
  { init := U8.start, feed := feedBytes u8step, flush := fun s => if s.need = 0 then some [] else none }

/-- `Content._iter_text`: one piece per chunk, then the final flush if it is non-empty -/
def iterTextFrom {σ : Type} (D : Decoder σ) : σ → List Bytes → Option (List Text)
  | s, [] => (D.flush s).map fun f => if f.isEmpty then [] else [f]
  | s, c :: cs =>
    match D.feed s c with
    | none => none
    | some (s', o) => (iterTextFrom D s' cs).map (o :: ·)

def iterText {σ : Type} (D : Decoder σ) (chunks : List Bytes) : Option (List Text) := iterTextFrom D D.init chunks

/-- `Content.as_text` -/
def asText {σ : Type} (D : Decoder σ) (chunks : List Bytes) : Option Text := (iterText D chunks).map List.flatten

/-- decoding the whole byte string at once with the same codec -/
def decodeAll {σ : Type} (D : Decoder σ) (b : Bytes) : Option Text := asText D [b]

/-- the `charset` parameter of the content type.  `opaque` = any other codec of the `codecs` module
(utf-16, cp1252, ...): not modelled, its whole-string result is an oracle value of the input. -/
inductive Charset | absent | utf8 | latin1 | ascii | opaque
deriving DecidableEq, Repr

/-! ## Streams: `io.BytesIO` / a file opened `"rb"` (the `read`/`seek` contract) -/

structure Stream where
  data : Bytes
  pos : Nat
deriving Repr

inductive Exc | valueError | osError | unicodeDecodeError | indexError
deriving DecidableEq, Repr

/-- `stream.seek(off, whence)`: a `BytesIO` raises `ValueError` for a negative absolute offset and clamps a
negative relative target to 0; a real file raises `OSError` for every negative target. -/
def seekBase (s : Stream) (whence : Nat) : Int :=
  if whence = 0 then 0 else if whence = 1 then s.pos else s.data.length

def seek (isFile : Bool) (s : Stream) (off : Int) (whence : Nat) : Except Exc Stream :=
  let target := seekBase s whence + off
  if target < 0 then
    if isFile then .error .osError
    else if whence = 0 then .error .valueError
    else .ok { s with pos := 0 }
  else .ok { s with pos := target.toNat }

/-- `stream.read(n)` -/
def read (s : Stream) (n : Nat) : Bytes × Stream :=
  let got := (s.data.drop s.pos).take n
  (got, { s with pos := s.pos + got.length })

/-- how many bytes `read(n)` may return this time: a raw stream (pipe, socket, `io.RawIOBase`) may return
fewer bytes than asked for although more follow.  `caps` is the plan of such short reads, one cap (≥ 1)
per call; when the plan is used up reads are limited by `n` and the data only (as `BytesIO` and buffered files
always are). -/
def readLimit (n : Nat) : List Nat → Nat
  | [] => n
  | k :: _ => min n k

/-- the chunks `_iter_chunks` yields from the bytes that remain: `read(n)` until it returns `b""`.
`fuel` bounds the number of reads (each non-empty read consumes at least one byte). -/
def chunksF : Nat → Nat → List Nat → Bytes → List Bytes
  | 0, _, _, _ => []
  | f + 1, n, caps, rem =>
    let c := rem.take (readLimit n caps)
    if c.isEmpty then [] else c :: chunksF f n caps.tail (rem.drop c.length)

def chunks (n : Nat) (caps : List Nat) (rem : Bytes) : List Bytes := chunksF (rem.length + 1) n caps rem

/-- what the instrumented stream and the consumer of `iter_bytes()` log, in order -/
inductive Ev
  | opened                      -- `open(path, "rb")` (file contents only)
  | closed                      -- the `with` block was left
  | seek (off : Int) (whence : Nat)
  | read (n got : Nat)          -- `read(n)` returned `got` bytes
  | chunk (b : Bytes)           -- the consumer received a chunk from the iterator
  | made                        -- `content_from_*` returned
  | iter                        -- the consumer called `iter_bytes()` and starts pulling
  | done                        -- the iterator was exhausted
  | raised (e : Exc)
  | eqSelf (b : Bool)           -- `c == c` returned `b` (second part of the log only)
deriving Repr

structure StreamIn where
  isFile : Bool
  data0 : Bytes                 -- contents when `content_from_*` is called
  data1 : Option Bytes          -- contents replaced (same position) before the content is iterated
  pos0 : Nat                    -- position of the stream when handed over (files are opened afresh: 0)
  chunkSize : Nat               -- ≥ 1
  seekTo : Option (Int × Nat)   -- `seek_offset`, `seek_whence` ∈ {0, 1, 2}
  bufferNow : Bool
  iters : Nat                   -- how many times `iter_bytes()` is consumed afterwards
  caps : List Nat := []         -- short-read plan of the stream (restarts with every evaluation of the reader)
  eqs : Nat := 0                -- how many times `c == c` is evaluated after the consumptions
deriving Repr

def seekEvs (i : StreamIn) : List Ev :=
  match i.seekTo with
  | none => []
  | some (off, wh) => [Ev.seek off wh]

/-- the optional `stream.seek(seek_offset, seek_whence)` at the start of `_iter_chunks` -/
def seekRes (i : StreamIn) (s0 : Stream) : Except Exc Stream :=
  match i.seekTo with
  | none => .ok s0
  | some (off, wh) => seek i.isFile s0 off wh

/-- one evaluation of `reader()` run to exhaustion: events (with or without the consumer's `chunk`
events), the chunks (`none`: the seek raised), and the stream afterwards -/
def readAll (i : StreamIn) (s : Stream) (consumer : Bool) : List Ev × Option (List Bytes) × Stream :=
  let s0 : Stream := if i.isFile then { s with pos := 0 } else s
  let op := if i.isFile then [Ev.opened] else []
  let cl := if i.isFile then [Ev.closed] else []
  match seekRes i s0 with
  | .error e => (op ++ seekEvs i ++ cl ++ [Ev.raised e], none, s0)
  | .ok s1 =>
    let cs := chunks i.chunkSize i.caps (s1.data.drop s1.pos)
    let evs := cs.flatMap fun c => Ev.read i.chunkSize c.length :: (if consumer then [Ev.chunk c] else [])
    let s2 : Stream := { s1 with pos := s1.pos + cs.flatten.length }
    (op ++ seekEvs i ++ evs ++ [Ev.read i.chunkSize 0] ++ cl, some cs, s2)

/-- `iters` consumptions of a lazy content -/
def lazyIters (i : StreamIn) : Nat → Stream → List Ev
  | 0, _ => []
  | k + 1, s =>
    let r := readAll i s true
    (Ev.iter :: r.1) ++ (if r.2.1.isSome then [Ev.done] else []) ++ lazyIters i k r.2.2

/-- the whole scenario: construct, replace the data, consume `iters` times -/
def streamModel (i : StreamIn) : List Ev :=
  let s : Stream := { data := i.data0, pos := i.pos0 }
  if i.bufferNow then
    let r := readAll i s false
    match r.2.1 with
    | none => r.1          -- the constructor raised
    | some cs =>
      r.1 ++ [Ev.made] ++ (List.replicate i.iters (Ev.iter :: cs.map Ev.chunk ++ [Ev.done])).flatten
  else
    let s' : Stream := { s with data := i.data1.getD i.data0 }
    Ev.made :: lazyIters i i.iters s'

/-- where `k` consumptions of a lazy content leave the stream -/
def lazyEnd (i : StreamIn) : Nat → Stream → Stream
  | 0, s => s
  | k + 1, s => lazyEnd i k (readAll i s true).2.2

/-- `c == c` on a lazy content, `k` times: `Content.__eq__` evaluates `iter_bytes()` of the left and then of the
right operand (each a fresh call of the reader: seek again, read to the end) and compares the joined bytes.  The
log has the stream's own events and the answer; an evaluation that raises ends that comparison. -/
def lazyEqs (i : StreamIn) : Nat → Stream → List Ev
  | 0, _ => []
  | k + 1, s =>
    let r1 := readAll i s false
    match r1.2.1 with
    | none => r1.1 ++ lazyEqs i k r1.2.2
    | some a =>
      let r2 := readAll i r1.2.2 false
      match r2.2.1 with
      | none => r1.1 ++ r2.1 ++ lazyEqs i k r2.2.2
      | some b => r1.1 ++ r2.1 ++ [Ev.eqSelf (a.flatten == b.flatten)] ++ lazyEqs i k r2.2.2

/-- second part of the scenario: `c == c`, `eqs` times, after the consumptions (nothing when the constructor raised) -/
def streamEqModel (i : StreamIn) : List Ev :=
  let s : Stream := { data := i.data0, pos := i.pos0 }
  if i.bufferNow then
    match (readAll i s false).2.1 with
    | none => []
    | some cs => List.replicate i.eqs (Ev.eqSelf (cs.flatten == cs.flatten))
  else
    lazyEqs i i.eqs (lazyEnd i i.iters { s with data := i.data1.getD i.data0 })

/-! ## Content types -/

structure CT where
  type : Text
  subtype : Text
  params : List (Text × Text)     -- a dict: distinct names
deriving Repr, DecidableEq

/-- lexicographic order on code-point lists = Python's `str` order -/
def lexLe : Text → Text → Bool
  | [], _ => true
  | _ :: _, [] => false
  | a :: as, b :: bs => a < b || (a == b && lexLe as bs)

def chQuote : Nat := 34
def chBackslash : Nat := 92
def chSemi : Nat := 59
def chSpace : Nat := 32
def chEq : Nat := 61
def chSlash : Nat := 47
def chComma : Nat := 44

/-- `ContentType._quote`: backslash and quote are escaped with a backslash -/
def quoteValue : Text → Text
  | [] => []
  | c :: cs => if c = chBackslash || c = chQuote then chBackslash :: c :: quoteValue cs else c :: quoteValue cs

def renderParam (p : Text × Text) : Text := p.1 ++ [chEq, chQuote] ++ quoteValue p.2 ++ [chQuote]

/-- `"; ".join(items)` with the leading `"; "` -/
def joinParams : List Text → Text
  | [] => []
  | x :: xs => [chSemi, chSpace] ++ x ++ joinParams xs

/-- `ContentType.__repr__` -/
def render (ct : CT) : Text :=
  ct.type ++ [chSlash] ++ ct.subtype ++ joinParams ((ct.params.map renderParam).mergeSort lexLe)

/-- characters of the lower-case tokens the property quantifies over: printable ASCII without the
MIME specials `()<>@,;:\"/[]?=`, space, upper-case letters and the RFC 2231 markers `*'%` -/
def tokenChar (c : Nat) : Bool :=
  33 ≤ c && c ≤ 126 &&
  !([40, 41, 60, 62, 64, 44, 59, 58, 92, 34, 47, 91, 93, 63, 61, 42, 39, 37].contains c) &&
  !(65 ≤ c && c ≤ 90)

def isToken (s : Text) : Bool := !s.isEmpty && s.all tokenChar

/-- token characters in either case: MIME type, subtype and parameter NAMES are case-insensitive; the parser accepts
upper-case letters in them and hands them back lower-cased -/
def tokenCharU (c : Nat) : Bool := tokenChar c || (65 ≤ c && c ≤ 90)
def isTokenU (s : Text) : Bool := !s.isEmpty && s.all tokenCharU
def lowerC (c : Nat) : Nat := if 65 ≤ c && c ≤ 90 then c + 32 else c
/-- `str.lower()` on a token (ASCII) -/
def lower (s : Text) : Text := s.map lowerC

/-- line boundaries of `str.splitlines()`: a header value containing one is refused by `email` -/
def lineBreak (c : Nat) : Bool := [10, 13, 11, 12, 28, 29, 30, 0x85, 0x2028, 0x2029].contains c

/-- result of `_make_content_type`; `unparsed` = text outside the grammar that is modelled -/
inductive Parsed
  | ok (ct : CT)
  | raised (e : Exc)
  | unparsed
deriving Repr, DecidableEq

def spanToken : Text → Text × Text
  | [] => ([], [])
  | c :: cs => if tokenCharU c then let r := spanToken cs; (c :: r.1, r.2) else ([], c :: cs)

/-- body of a quoted string after the opening quote: a backslash makes the next character literal
(`esc` = the previous character was such a backslash), an unescaped quote ends it.  Returns the value
and what follows the closing quote. -/
def unquoteAux : Bool → Text → Option (Text × Text)
  | _, [] => none
  | true, c :: cs => (unquoteAux false cs).map fun r => (c :: r.1, r.2)
  | false, c :: cs =>
    if c = chQuote then some ([], cs)
    else if c = chBackslash then unquoteAux true cs
    else (unquoteAux false cs).map fun r => (c :: r.1, r.2)

def unquote (s : Text) : Option (Text × Text) := unquoteAux false s

/-- the parameter section `("; " name "=" quoted-string)*`; `fuel` = an upper bound of its length -/
def parseParams : Nat → Text → Option (List (Text × Text))
  | _, [] => some []
  | 0, _ :: _ => none
  | f + 1, c :: cs =>
    if c = chSemi then
      match cs with
      | d :: ds =>
        if d = chSpace then
          let nm := spanToken ds
          match nm.2 with
          | e :: q :: rest =>
            if e = chEq && q = chQuote && !nm.1.isEmpty then
              match unquote rest with
              | some (v, rest') => (parseParams f rest').map ((lower nm.1, v) :: ·)      -- names come back lower-cased
              | none => none
            else none
          | _ => none
        else none
      | [] => none
    else none

def charsetName : Text := [99, 104, 97, 114, 115, 101, 116]   -- "charset"

/-- the work-around at the end of `_make_content_type`: a charset is cut at its first comma -/
def fixCharset (ps : List (Text × Text)) : List (Text × Text) :=
  ps.map fun p => if p.1 = charsetName then (p.1, p.2.takeWhile (· != chComma)) else p

/-- `_make_content_type` on the grammar `token "/" token ("; " token "=" quoted-string)*`; type, subtype and parameter names
are lower-cased, values are kept as they are -/
def parseCT (s : Text) : Parsed :=
  if s.any lineBreak then .raised .valueError
  else
    let t := spanToken s
    match t.2 with
    | c :: r1 =>
      if c = chSlash && !t.1.isEmpty then
        let st := spanToken r1
        if st.1.isEmpty then .unparsed
        else match parseParams st.2.length st.2 with
          | some ps => .ok { type := lower t.1, subtype := lower st.1, params := fixCharset ps }
          | none => .unparsed
      else .unparsed
    | [] => .unparsed

/-- canonical form of a parameter dict: sorted by name -/
def sortParams (ps : List (Text × Text)) : List (Text × Text) := ps.mergeSort fun a b => lexLe a.1 b.1

/-! ## `_copy_content`: histories over a volatile source -/

inductive CopyOp
  | set (chunks : List Bytes)     -- the source now yields these chunks
  | copy                          -- `_copy_content(original)`, the result is remembered as the next copy
  | readOrig                      -- `list(original.iter_bytes())`
  | readCopy (k : Nat)            -- `list(copies[k].iter_bytes())`
deriving Repr

/-- what an operation reports: the chunks read (reads) and how often the source was evaluated by it -/
structure CopyObs where
  chunks : Option (List Bytes)
  evals : Nat
deriving Repr, DecidableEq

structure CopySt where
  cur : List Bytes
  copies : List (List Bytes)
deriving Repr

def copyStep (s : CopySt) : CopyOp → CopySt × CopyObs
  | .set cs => ({ s with cur := cs }, ⟨none, 0⟩)
  | .copy => ({ s with copies := s.copies ++ [s.cur] }, ⟨none, 1⟩)
  | .readOrig => (s, ⟨some s.cur, 1⟩)
  | .readCopy k => (s, ⟨s.copies[k]?, 0⟩)

def copyRun (s : CopySt) : List CopyOp → List CopyObs
  | [] => []
  | op :: ops => let r := copyStep s op; r.2 :: copyRun r.1 ops

/-! ## Scenarios -/

inductive Input
  /-- two contents given by content-type index and source chunks: `iter_bytes` of each and `==` -/
  | eq (ctA ctB : Nat) (a b : List Bytes)
  /-- `text_content(s)` -/
  | text (s : Text)
  /-- `json_content(data)`; `dumped` = `json.dumps(data)` (oracle: `json` is not modelled) -/
  | json (dumped : Text)
  /-- `Content(ContentType(text?, …, charset), lambda: chunks)`: `iter_text` / `as_text`;
  `whole` = result of decoding the joined bytes at once, used for opaque codecs only -/
  | decode (isText : Bool) (cs : Charset) (chunks : List Bytes) (whole : Option Text)
  | stream (i : StreamIn)
  /-- `_make_content_type(repr(ct))` -/
  | ctype (ct : CT)
  /-- the same for several content types one after the other in one process (typically a type, a variant of it that differs
  in letter case only, and the type again): every answer is the one for that content type alone; names may be in upper case -/
  | ctypeSeq (cts : List CT)
  | copy (init : List Bytes) (ops : List CopyOp)
deriving Repr

inductive Trace
  | eq (bytesA bytesB : List Bytes) (equal : Bool)
  /-- chunks of `iter_bytes()`, is the type `text/plain; charset="utf8"`, `as_text()` -/
  | text (chunks : List Bytes) (typeOk : Bool) (astext : Option Text)
  /-- chunks, is the type `application/json`, `json.loads(bytes) == data` -/
  | json (chunks : List Bytes) (typeOk : Bool) (loadsOk : Bool)
  /-- `as_text()` (none = raised) with its exception; `iter_text()` pieces (none = raised) with its exception; and the
  whole-string decode of the joined bytes -/
  | decode (astext : Option Text) (aerr : Option Exc) (pieces : Option (List Text)) (err : Option Exc) (whole : Option Text)
  | stream (evs eqEvs : List Ev)
  | ctype (rendered : Text) (parsed : Parsed)
  | ctypeSeq (rs : List (Text × Parsed))
  | copy (obs : List CopyObs)
deriving Repr

/-! ## known-finding classes (KNOWN_FINDINGS.txt) -/

/-- `"=?"` occurs in the text: the start of an RFC 2047 encoded word -/
def hasEncodedWordStart : Text → Bool
  | a :: b :: rest => (a == 61 && b == 63) || hasEncodedWordStart (b :: rest)
  | _ => false

def charsetComma (ct : CT) : Bool := ct.params.any fun p => p.1 == charsetName && p.2.contains chComma
def valueCRLF (ct : CT) : Bool := ct.params.any fun p => p.2.any lineBreak
def valueEncodedWord (ct : CT) : Bool := ct.params.any fun p => hasEncodedWordStart p.2
/-- a parameter NAME that is not a lower-case token without `*`, `'`, `%`: the `email` parser folds the case of names and reads
`*`, `'`, `%` as RFC 2231 syntax, so such a name does not come back (upper case: faithfully modelled by `lower`; RFC 2231
characters: not modelled, soft correspondence) -/
def nameNotLowerToken (ct : CT) : Bool := ct.params.any fun p => !isToken p.1


/-! ## the domain the property quantifies over (enforced by the input codec) -/

def hasDupNames : List (Text × Text) → Bool
  | [] => false
  | p :: ps => ps.any (·.1 == p.1) || hasDupNames ps

def CT.wf (ct : CT) : Bool :=
  isToken ct.type && isToken ct.subtype && ct.params.all (fun p => isToken p.1) && !hasDupNames ct.params

def StreamIn.wf (i : StreamIn) : Bool :=
  i.chunkSize ≥ 1 && (match i.seekTo with | some (_, w) => w ≤ 2 | none => true) && i.caps.all (1 ≤ ·)

/-- with type, subtype and names lower-cased (values untouched): what a content type means to the parser -/
def CT.lowered (ct : CT) : CT :=
  { type := lower ct.type, subtype := lower ct.subtype, params := ct.params.map fun p => (lower p.1, p.2) }

/-- tokens in either case, parameter names distinct as the parser sees them -/
def CT.wfU (ct : CT) : Bool :=
  isTokenU ct.type && isTokenU ct.subtype && ct.params.all (fun p => isTokenU p.1) && !hasDupNames ct.lowered.params

/-- RFC 2045 token characters in either case, the RFC 2231 markers included -/
def tokenCharAny (c : Nat) : Bool := tokenCharU c || c == 42 || c == 39 || c == 37
def isTokenAny (s : Text) : Bool := !s.isEmpty && s.all tokenCharAny

/-- the domain of the content-type round trip as the property states it: lower-case token type and subtype; parameter names any
(distinct) tokens; values anything -/
def CT.wfWide (ct : CT) : Bool :=
  isToken ct.type && isToken ct.subtype && ct.params.all (fun p => isTokenAny p.1) && !hasDupNames ct.params

def Input.wf : Input → Bool
  | .text s => s.all validCp
  | .json d => d.all validCp
  | .stream i => i.wf
  | .ctype ct => ct.wfWide
  | .ctypeSeq cts => cts.all CT.wfU
  | _ => true

def decodeModel (isText : Bool) (cs : Charset) (chunks : List Bytes) (whole : Option Text) : Trace :=
  let r : Option (List Text) × Option Text := match cs with
    | .absent | .latin1 => (iterText latin1 chunks, decodeAll latin1 chunks.flatten)
    | .utf8 => (iterText utf8 chunks, decodeAll utf8 chunks.flatten)
    | .ascii => (iterText ascii chunks, decodeAll ascii chunks.flatten)
    | .opaque => (whole.map fun w => [w], whole)     -- pieces are not compared for opaque codecs
  -- `as_text()` joins the bytes and decodes them in one go (so it cannot depend on the chunking, whatever the codec);
  -- `iter_text()` feeds an incremental decoder chunk by chunk.  Both refuse a non-text type.
  if !isText then .decode none (some .valueError) none (some .valueError) r.2
  else .decode r.2 (if r.2.isNone then some .unicodeDecodeError else none)
         r.1 (if r.1.isNone then some .unicodeDecodeError else none) r.2

/-- the rendering and what parsing it gives (parameters in canonical order) -/
def ctypePair (ct : CT) : Text × Parsed :=
  let r := render ct
  (r, match parseCT r with
    | .ok p => .ok { p with params := sortParams p.params }
    | x => x)

def ctypeModel (ct : CT) : Trace := .ctype (ctypePair ct).1 (ctypePair ct).2

def model : Input → Trace
  | .eq ctA ctB a b => .eq a b (ctA == ctB && a.flatten == b.flatten)
  | .text s => .text [utf8Encode s] true (asText utf8 [utf8Encode s])
  | .json d => .json [utf8Encode d] true true
  | .decode isText cs chunks whole => decodeModel isText cs chunks whole
  | .stream i => .stream (streamModel i) (streamEqModel i)
  | .ctype ct => ctypeModel ct
  | .ctypeSeq cts => .ctypeSeq (cts.map ctypePair)        -- no state: one answer per content type
  | .copy init ops => .copy (copyRun ⟨init, []⟩ ops)

end TTV.Content
