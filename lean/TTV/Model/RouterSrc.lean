import TTV.Model.StreamRouter
/-! The decision logic of `StreamResultRouter` (testtools/testresult/real.py), as data.

`harness/pystream.py` re-reads `status`, `startTestRun`, `stopTestRun`, `add_rule` and the registered policy methods from the
tree under test on every run and emits them as terms of the types below (`TTV/Generated/RouterSrc.lean`).  The
interpreters here give those terms their meaning over the router model's `State`; `C18_src_status`, `C18_src_start_stop`
and `C18_src_add_rule` prove that the hand-written `route`, `step .start/.stop` and `regStep` *are* the interpretation of
exactly what was found in the source.

Trusted: that `eval` reads `is not None`, `in <dict>`, `and`, `not`, truthiness of a `str`, `x.split("/")[0]`,
`x[len(p) + 1:]`, dict lookup and the conditional as Python does; that `super().startTestRun()` of `StreamResult` is a no-op;
that `for sink in self._sinks: sink.m()` is the model's `loop` over the live list.  Forms the translator does not recognise
are `other` (`undef`: a local read before assignment), which no reference term contains. -/
namespace TTV.RouterSrc
open TTV.Stream TTV.Stream.Router

/-! ### `status`: symbolic terms -/
inductive RExpr where
  | kwRoute | kwTestId              -- kwargs.get("route_code") / kwargs.get("test_id") as passed in
  | none | fallback | undef | other
  | firstSeg (e : RExpr)            -- e.split("/")[0]
  | dropSeg (e p : RExpr)           -- e[len(p) + 1:]
  | pfxSink (e : RExpr)             -- self._route_code_prefixes[e][0]
  | pfxConsume (e : RExpr)          -- self._route_code_prefixes[e][1]
  | idSink (e : RExpr)              -- self._test_ids[e]
  | notNone (e : RExpr)             -- e is not None
  | inPrefixes (e : RExpr)          -- e in self._route_code_prefixes
  | inIds (e : RExpr)               -- e in self._test_ids
  | truthy (e : RExpr)              -- bool(e)
  | and (a b : RExpr)
  | not (a : RExpr)
  | ite (c a b : RExpr)             -- after `if c: … else: …`: a if c else b
deriving DecidableEq, Repr

inductive Val where
  | none
  | str (s : Str)
  | tid (n : Nat)
  | sink (n : Nat)
  | bool (b : Bool)
  | bad
deriving DecidableEq, Repr

def eval (s : State) (e : Event) : RExpr → Val
  | .kwRoute => match e.route with | some r => .str r | none => .none
  | .kwTestId => match e.testId with | some n => .tid n | none => .none
  | .none => .none
  | .fallback => match s.fallback with | some f => .sink f | none => .none
  | .undef => .bad
  | .other => .bad
  | .firstSeg x => match eval s e x with | .str r => .str (firstSeg r) | _ => .bad
  | .dropSeg x p => match eval s e x, eval s e p with | .str r, .str q => .str (r.drop (q.length + 1)) | _, _ => .bad
  | .pfxSink x => match eval s e x with
    | .str r => (match dictGet s.prefixes r with | some p => .sink p.1 | none => .bad)
    | _ => .bad
  | .pfxConsume x => match eval s e x with
    | .str r => (match dictGet s.prefixes r with | some p => .bool p.2 | none => .bad)
    | _ => .bad
  | .idSink x => match eval s e x with
    | .tid n => (match dictGet s.ids (some n) with | some k => .sink k | none => .bad)
    | .none => (match dictGet s.ids none with | some k => .sink k | none => .bad)
    | _ => .bad
  | .notNone x => match eval s e x with | .none => .bool false | .bad => .bad | _ => .bool true
  | .inPrefixes x => match eval s e x with
    | .str r => .bool (dictGet s.prefixes r).isSome
    | .none => .bool false            -- the keys of `_route_code_prefixes` are strings
    | _ => .bad
  | .inIds x => match eval s e x with
    | .tid n => .bool (dictGet s.ids (some n)).isSome
    | .none => .bool (dictGet s.ids none).isSome
    | _ => .bad
  | .truthy x => match eval s e x with
    | .str r => .bool (!r.isEmpty)
    | .bool b => .bool b
    | .none => .bool false
    | _ => .bad
  | .and a b => match eval s e a with
    | .bool false => .bool false
    | .bool true => eval s e b
    | _ => .bad
  | .not a => match eval s e a with | .bool b => .bool (!b) | _ => .bad
  | .ite c a b => match eval s e c with
    | .bool true => eval s e a
    | .bool false => eval s e b
    | _ => .bad

def valRoute : Val → Option Str
  | .str r => some r
  | _ => Option.none

/-- `target.status(**kwargs)` with the evaluated target and route code; a target that is `None` (no fallback): the call raises -/
def statusInterp (s : State) (e : Event) (target route : RExpr) : Option (Nat × Event) :=
  match eval s e target with
  | .sink k => some (k, { e with route := valRoute (eval s e route) })
  | _ => Option.none

/-- the first segment of the route code, or `None` -/
def refPrefix : RExpr := .ite (.notNone .kwRoute) (.firstSeg .kwRoute) .none

/-- the terms the model `route` was written from -/
def refStatusTarget : RExpr :=
  .ite (.inPrefixes refPrefix) (.pfxSink refPrefix) (.ite (.inIds .kwTestId) (.idSink .kwTestId) .fallback)
def refStatusRoute : RExpr :=
  .ite (.and (.inPrefixes refPrefix) (.and (.notNone .kwRoute) (.truthy (.pfxConsume refPrefix))))
    (.ite (.truthy (.dropSeg .kwRoute refPrefix)) (.dropSeg .kwRoute refPrefix) .none)
    .kwRoute

/-! ### `startTestRun` / `stopTestRun` -/
inductive CtlStmt where
  | superCall                         -- super().startTestRun() / super().stopTestRun()
  | forSinksCall (start : Bool)       -- for sink in self._sinks: sink.startTestRun() / sink.stopTestRun()
  | setInRun (b : Bool)               -- self._in_run = b
  | other
deriving DecidableEq, Repr

/-- statements in order; an exception out of a sink ends the method there -/
def ctlInterp (s : State) : List CtlStmt → State × List Item × Option String
  | [] => (s, [], none)
  | .superCall :: r => ctlInterp s r
  | .forSinksCall st :: r =>
    let l := loop (if st then .start else .stop) (fuelOf s) s 0
    match l.2.2 with
    | some x => (l.1, l.2.1, some x)
    | none =>
      let t := ctlInterp l.1 r
      (t.1, l.2.1 ++ t.2.1, t.2.2)
  | .setInRun b :: r => ctlInterp { s with inRun := b } r
  | .other :: _ => (s, [], some "unknown-statement")

def refStart : List CtlStmt := [.superCall, .forSinksCall true, .setInRun true]
def refStop : List CtlStmt := [.superCall, .forSinksCall false, .setInRun false]

/-! ### `add_rule` and the policy methods -/
inductive PStmt where
  | raiseIfSlash       -- if "/" in route_prefix: raise TypeError(…)
  | setPrefix          -- self._route_code_prefixes[route_prefix] = (sink, consume_route)
  | setId              -- self._test_ids[test_id] = sink
  | other
deriving DecidableEq, Repr

inductive AStmt where
  | done
  | other (k : AStmt)
  | lookupPolicy (k : AStmt)            -- policy_method = StreamResultRouter._policies.get(policy, None)
  | raiseUnlessPolicy (k : AStmt)       -- if not policy_method: raise ValueError(…)
  | callPolicy (k : AStmt)              -- policy_method(self, sink, **policy_args)
  | ifFlag (thn : AStmt) (k : AStmt)    -- if do_start_stop_run: thn
  | ifNotRegistered (thn : AStmt) (k : AStmt)   -- if not any(s is sink for s in self._sinks): thn
  | appendSink (k : AStmt)              -- self._sinks.append(sink)
  | ifInRun (thn : AStmt) (k : AStmt)   -- if self._in_run: thn
  | startSink (k : AStmt)               -- sink.startTestRun()
deriving DecidableEq, Repr

/-- what an `add_rule` operation passes: policy name, sink, flag -/
def policyName : Op → String
  | .addPrefix _ _ _ _ => "route_code_prefix"
  | .addId _ _ _ => "test_id"
  | _ => "no-such-policy"
def sinkOf : Op → Nat
  | .addPrefix k _ _ _ => k | .addId k _ _ => k | .addBad k _ => k | _ => 0
def flagOf : Op → Bool
  | .addPrefix _ _ _ f => f | .addId _ _ f => f | .addBad _ f => f | _ => false

/-- a policy method applied to the arguments of the operation; a method given arguments it does not take raises `TypeError` -/
def pInterp (o : Op) : List PStmt → State → State × Option String
  | [], s => (s, none)
  | .raiseIfSlash :: r, s =>
    match o with
    | .addPrefix _ p _ _ => if p.contains '/' then (s, some "TypeError") else pInterp o r s
    | _ => (s, some "TypeError")
  | .setPrefix :: r, s =>
    match o with
    | .addPrefix k p c _ => pInterp o r { s with prefixes := dictSet s.prefixes p (k, c) }
    | _ => (s, some "TypeError")
  | .setId :: r, s =>
    match o with
    | .addId k t _ => pInterp o r { s with ids := dictSet s.ids t k }
    | _ => (s, some "TypeError")
  | .other :: _, s => (s, some "unknown-statement")

structure ASt where
  s : State
  policy : Option (List PStmt) := none
  started : Option Nat := none
  err : Option String := none
deriving Repr

def lookup (tbl : List (String × List PStmt)) (n : String) : Option (List PStmt) :=
  match tbl.find? (·.1 == n) with
  | some p => some p.2
  | none => none

def aInterp (tbl : List (String × List PStmt)) (o : Op) : AStmt → ASt → ASt
  | .done, a => a
  | .other _, a => { a with err := some "unknown-statement" }
  | .lookupPolicy k, a => aInterp tbl o k { a with policy := lookup tbl (policyName o) }
  | .raiseUnlessPolicy k, a =>
    match a.policy with
    | none => { a with err := some "ValueError" }
    | some _ => aInterp tbl o k a
  | .callPolicy k, a =>
    match a.policy with
    | none => { a with err := some "TypeError" }       -- calling None
    | some ps =>
      let r := pInterp o ps a.s
      match r.2 with
      | some x => { a with err := some x }              -- the exception leaves add_rule; nothing was changed
      | none => aInterp tbl o k { a with s := r.1 }
  | .ifFlag thn k, a =>
    let a' := if flagOf o then aInterp tbl o thn a else a
    if a'.err.isSome then a' else aInterp tbl o k a'
  | .ifNotRegistered thn k, a =>
    -- sink numbers are object identities: `any(s is sink …)` is membership of the number
    let a' := if !a.s.sinks.contains (sinkOf o) then aInterp tbl o thn a else a
    if a'.err.isSome then a' else aInterp tbl o k a'
  | .appendSink k, a => aInterp tbl o k { a with s := { a.s with sinks := a.s.sinks ++ [sinkOf o] } }
  | .ifInRun thn k, a =>
    let a' := if a.s.inRun then aInterp tbl o thn a else a
    if a'.err.isSome then a' else aInterp tbl o k a'
  | .startSink k, a => aInterp tbl o k { a with started := some (sinkOf o) }

def refAddRule : AStmt :=
  .lookupPolicy <| .raiseUnlessPolicy <| .callPolicy <|
    .ifFlag (.ifNotRegistered (.appendSink (.ifInRun (.startSink .done) .done)) .done) .done
def refPolicies : List (String × List PStmt) :=
  [("route_code_prefix", [.raiseIfSlash, .setPrefix]), ("test_id", [.setId])]

/-! ### `__init__` -/
inductive IStmt where
  | setFallback                         -- self.fallback = fallback
  | noPrefixes | noIds | noSinks        -- self._route_code_prefixes = {}; self._test_ids = {}; self._sinks = []
  | registerFallbackIfFlagAndPresent    -- if do_start_stop_run and fallback is not None: self._sinks.append(fallback)
  | registerFallbackIfFlagAndTruthy     -- if do_start_stop_run and fallback: … (depends on the sink object's truth value)
  | notInRun                            -- self._in_run = False
  | other
deriving DecidableEq, Repr

/-- the router after `__init__(fallback, do_start_stop_run)`; every attribute must have been assigned; a registration that
asks for the truth value of the sink object is not a function of the configuration: `none` -/
def iInterp (hasFallback flag : Bool) : List IStmt → (Option (Option Nat) × Option (List (Str × (Nat × Bool))) ×
    Option (List (Option Nat × Nat)) × Option (List Nat) × Option Bool) → Option State
  | [], (some fb, some ps, some is, some ss, some r) =>
    some { fallback := fb, prefixes := ps, ids := is, sinks := ss, inRun := r, scripts := [] }
  | [], _ => none
  | .setFallback :: r, (_, ps, is, ss, ir) => iInterp hasFallback flag r (some (if hasFallback then some 0 else none), ps, is, ss, ir)
  | .noPrefixes :: r, (fb, _, is, ss, ir) => iInterp hasFallback flag r (fb, some [], is, ss, ir)
  | .noIds :: r, (fb, ps, _, ss, ir) => iInterp hasFallback flag r (fb, ps, some [], ss, ir)
  | .noSinks :: r, (fb, ps, is, _, ir) => iInterp hasFallback flag r (fb, ps, is, some [], ir)
  | .registerFallbackIfFlagAndPresent :: r, (fb, ps, is, some ss, ir) =>
    iInterp hasFallback flag r (fb, ps, is, some (if flag && hasFallback then ss ++ [0] else ss), ir)
  | .notInRun :: r, (fb, ps, is, ss, _) => iInterp hasFallback flag r (fb, ps, is, ss, some false)
  | _ :: _, _ => none

def refInit : List IStmt :=
  [.setFallback, .noPrefixes, .noIds, .noSinks, .registerFallbackIfFlagAndPresent, .notInRun]

end TTV.RouterSrc
