/-! M-Suite: model of `testtools.testsuite.iterate_tests`, `filter_by_ids`, `sorted_tests`
(and of the `--list` / `--load-list` use made of them in `testtools/run.py`).
Import-free (the driver links against it). -/
namespace TTV.Suite

/-- `plain` = exactly `unittest.TestSuite`; the others are subclasses: without extra methods, with a
`sort_tests` method, with a `filter_by_ids` method. -/
inductive Kind | plain | custom | csort | cfilter
deriving DecidableEq, Repr

/-- test ids are `Nat`s; the harness uses ids whose string order is the numeric order -/
inductive T where
  | case (id : Nat)
  | suite (k : Kind) (cs : List T)
deriving Repr

/-! `iterate_tests`: `iter(x)` fails ⇒ yield x, else recurse into the children in order -/
mutual
def iterate : T → List Nat
  | .case id => [id]
  | .suite _ cs => iterateL cs
def iterateL : List T → List Nat
  | [] => []
  | t :: ts => iterate t ++ iterateL ts
end

/-! `filter_by_ids`: a case not in the set is replaced by an empty plain `TestSuite()`, every suite
(whatever its class) keeps its identity and gets its children filtered; a suite with its own
`filter_by_ids` builds a new suite of its class from the filtered children. -/
mutual
def filterIds (S : Nat → Bool) : T → T
  | .case id => if S id then .case id else .suite .plain []
  | .suite k cs => .suite k (filterL S cs)
def filterL (S : Nat → Bool) : List T → List T
  | [] => []
  | t :: ts => filterIds S t :: filterL S ts
end

/-- sort keys: `None` (custom suite without tests) sorts first -/
def keyLe : Option Nat → Option Nat → Bool
  | none, _ => true
  | some _, none => false
  | some a, some b => a ≤ b

abbrev Item := Option Nat × T

def sortItems (xs : List Item) : List Item := xs.mergeSort (fun a b => keyLe a.1 b.1)

/-! `_flatten_tests(x, unpack_outer)`: plain suites (and the outermost one when asked) are unpacked,
any other suite is kept whole under the id of its first test; if it has `sort_tests` that is called
(the harness's `sort_tests` is the documented idiom `self._tests = sorted_tests(self, True)._tests`). -/
mutual
def flatten (outer : Bool) : T → List Item
  | .case id => [(some id, .case id)]
  | .suite k cs =>
    if k = .plain || outer then flattenL cs
    else [((iterateL cs).head?, if k = .csort then .suite k ((sortItems (flattenL cs)).map (·.2)) else .suite k cs)]
def flattenL : List T → List Item
  | [] => []
  | t :: ts => flatten false t ++ flattenL ts
end

def hasDup : List Nat → Bool
  | [] => false
  | x :: xs => xs.contains x || hasDup xs

/-- `sorted_tests(t)`: `none` = `ValueError` (duplicate ids) -/
def sortedTests (t : T) : Option T :=
  if hasDup (iterate t) then none
  else some (.suite .plain ((sortItems (flatten false t)).map (·.2)))

/-! positions -/
def get? : T → List Nat → Option T
  | t, [] => some t
  | .case _, _ :: _ => none
  | .suite _ cs, i :: p => match cs[i]? with
    | some c => get? c p
    | none => none

structure Input where
  tree : T
  ids  : List Nat          -- the id set passed to filter_by_ids / written to the --load-list file
deriving Repr

/-- what the harness observes -/
structure Trace where
  iter     : List Nat      -- ids yielded by iterate_tests
  filtered : T             -- shape of filter_by_ids(tree, ids)
  filtIter : List Nat      -- ids yielded by iterate_tests on it
  sorted   : Option T      -- shape of sorted_tests(tree); none = ValueError
  listed   : List Nat      -- ids printed by `testtools.run --list`
  loaded   : List Nat      -- ids of the tests run by `testtools.run --load-list`
  sortFilt : Option (List Nat)   -- ids yielded by `filter_by_ids(sorted_tests(tree), ids)` - sorting then filtering, as
                                 -- `testtools.run discover --load-list` composes them; none = ValueError from sorted_tests
deriving Repr

def model (i : Input) : Trace :=
  let S := fun x => i.ids.contains x
  { iter := iterate i.tree
    filtered := filterIds S i.tree
    filtIter := iterate (filterIds S i.tree)
    sorted := sortedTests i.tree
    listed := iterate i.tree
    loaded := iterate (filterIds S i.tree)
    sortFilt := (sortedTests i.tree).map fun r => iterate (filterIds S r) }

end TTV.Suite
