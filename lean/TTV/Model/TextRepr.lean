/-! Model of `testtools.compat.text_repr` together with the two pieces of Python it is built on:
`repr()` of `str`/`bytes` (`pyRepr`) and the evaluation of a string literal (`pyEval`, what
`ast.literal_eval` does with the text).  Text is a list of code points (`Nat`), so that lone surrogates —
legal in Python strings — are representable.  `printable` is Python's `str.isprintable` for code points
≥ 128 (supplied by the harness from CPython); the theorems hold for every such predicate.

Import-free (the driver links against it). -/
namespace TTV.TextRepr

abbrev Q : Nat := 39    -- '
abbrev DQ : Nat := 34   -- "
abbrev BS : Nat := 92   -- \
abbrev NL : Nat := 10

/-! ## hexadecimal -/
def hexDigit (d : Nat) : Nat := if d < 10 then 48 + d else 87 + d        -- 0-9 a-f
def hexVal (c : Nat) : Option Nat :=
  if 48 ≤ c ∧ c ≤ 57 then some (c - 48)
  else if 97 ≤ c ∧ c ≤ 102 then some (c - 87)
  else if 65 ≤ c ∧ c ≤ 70 then some (c - 55)
  else none
/-- `k` hex digits of `n`, most significant first -/
def toHex : Nat → Nat → List Nat
  | 0, _ => []
  | k + 1, n => hexDigit (n / 16 ^ k) :: toHex k (n % 16 ^ k)
/-- read exactly `k` hex digits -/
def fromHex : Nat → Nat → List Nat → Option (Nat × List Nat)
  | 0, acc, l => some (acc, l)
  | _ + 1, _, [] => none
  | k + 1, acc, c :: l => match hexVal c with
      | some d => fromHex k (acc * 16 + d) l
      | none => none

/-! ## `repr` of str / bytes -/
def chooseQuote (s : List Nat) : Nat := if s.contains Q && !s.contains DQ then DQ else Q

/-- one character of the body of `repr(s)` given the chosen quote (unicode_repr / bytes_repr of CPython) -/
def escChar (isBytes : Bool) (printable : Nat → Bool) (q c : Nat) : List Nat :=
  if c = q ∨ c = BS then [BS, c]
  else if c = 9 then [BS, 116]
  else if c = 10 then [BS, 110]
  else if c = 13 then [BS, 114]
  else if c < 32 ∨ c = 127 then BS :: 120 :: toHex 2 c
  else if c < 127 then [c]
  else if isBytes then BS :: 120 :: toHex 2 c
  else if printable c then [c]
  else if c < 256 then BS :: 120 :: toHex 2 c
  else if c < 65536 then BS :: 117 :: toHex 4 c
  else BS :: 85 :: toHex 8 c

def reprBody (isBytes : Bool) (printable : Nat → Bool) (q : Nat) : List Nat → List Nat
  | [] => []
  | c :: cs => escChar isBytes printable q c ++ reprBody isBytes printable q cs

def pre (isBytes : Bool) : List Nat := if isBytes then [98] else []

def pyRepr (isBytes : Bool) (printable : Nat → Bool) (s : List Nat) : List Nat :=
  pre isBytes ++ [chooseQuote s] ++ reprBody isBytes printable (chooseQuote s) s ++ [chooseQuote s]

/-! ## `text_repr` -/
/-- `text.split(nl)` -/
def splitOn (sep : Nat) : List Nat → List (List Nat)
  | [] => [[]]
  | c :: cs =>
    if c = sep then [] :: splitOn sep cs
    else match splitOn sep cs with
      | l :: ls => (c :: l) :: ls
      | [] => [[c]]

/-- `.replace("\\" + q, q)`: left-to-right, non-overlapping; `pending` = the previous character was a
backslash that has not been emitted yet -/
def replaceGo (q : Nat) : Bool → List Nat → List Nat
  | pending, [] => if pending then [BS] else []
  | false, c :: t => if c = BS then replaceGo q true t else c :: replaceGo q false t
  | true, c :: t =>
    if c = q then q :: replaceGo q false t
    else if c = BS then BS :: replaceGo q true t
    else BS :: c :: replaceGo q false t
def replace2 (q : Nat) (l : List Nat) : List Nat := replaceGo q false l

/-- the `while True: p = find("'''", p) … insert a backslash … p += 2` loop -/
def esc3 : List Nat → List Nat
  | [] => []
  | a :: t => if a = Q ∧ t.take 2 = [Q, Q] then BS :: Q :: esc3 t else a :: esc3 t

/-- `r = repr(line); q = r[-1]; r[offset:-1].replace("\\" + q, q)` -/
def lineBody (isBytes : Bool) (printable : Nat → Bool) (line : List Nat) : List Nat :=
  let r := pyRepr isBytes printable line
  let q := r.getLastD Q
  replace2 q ((r.drop ((pre isBytes).length + 1)).dropLast)

def joinNL : List (List Nat) → List Nat
  | [] => []
  | [l] => l
  | l :: ls => l ++ NL :: joinNL ls

/-- `text_repr(text, multiline)`; `ml = none` is the default `multiline=None` -/
def textRepr (isBytes : Bool) (printable : Nat → Bool) (ml : Option Bool) (s : List Nat) : List Nat :=
  let multiline := ml.getD (s.contains NL)
  if !multiline then pyRepr isBytes printable s
  else
    let semi := joinNL ((splitOn NL s).map (lineBody isBytes printable)) ++ [Q, Q]
    pre isBytes ++ [Q, Q, Q, BS, NL] ++ esc3 semi ++ [Q]

/-! ## evaluation of a string literal -/
/-- what follows a backslash: the character it denotes and the rest (`none`: not one of the escapes
`repr` produces) -/
def dec (isBytes : Bool) : List Nat → Option (Nat × List Nat)
  | [] => none
  | c :: r =>
    if c = BS then some (BS, r)
    else if c = Q then some (Q, r)
    else if c = DQ then some (DQ, r)
    else if c = 110 then some (10, r)
    else if c = 114 then some (13, r)
    else if c = 116 then some (9, r)
    else if c = 120 then fromHex 2 0 r
    else if c = 117 then (if isBytes then none else fromHex 4 0 r)
    else if c = 85 then (if isBytes then none else fromHex 8 0 r)
    else none

/-- body of a `'''` literal (opening consumed): stops at the first unescaped `'''`, which must end the text -/
def ev3 (isBytes : Bool) : Nat → List Nat → Option (List Nat)
  | 0, _ => none
  | _, [] => none
  | n + 1, c :: t =>
    if c = Q ∧ t.take 2 = [Q, Q] then (if t.drop 2 = [] then some [] else none)
    else if c = BS then
      match dec isBytes t with
      | some (v, rest) => (ev3 isBytes n rest).map (v :: ·)
      | none => none
    else (ev3 isBytes n t).map (c :: ·)

/-- body of a `'…'` / `"…"` literal: stops at the first unescaped quote, which must end the text; a raw
newline is a syntax error -/
def ev1 (isBytes : Bool) (q : Nat) : Nat → List Nat → Option (List Nat)
  | 0, _ => none
  | _, [] => none
  | n + 1, c :: t =>
    if c = q then (if t = [] then some [] else none)
    else if c = NL then none
    else if c = BS then
      match dec isBytes t with
      | some (v, rest) => (ev1 isBytes q n rest).map (v :: ·)
      | none => none
    else (ev1 isBytes q n t).map (c :: ·)

def stripPre (isBytes : Bool) (l : List Nat) : Option (List Nat) :=
  if isBytes then (match l with | 98 :: r => some r | _ => none) else some l

/-- `ast.literal_eval(text)` for a str (bytes) literal in the forms `repr`/`text_repr` produce -/
def pyEval (isBytes : Bool) (l : List Nat) : Option (List Nat) :=
  match stripPre isBytes l with
  | none => none
  | some r =>
    match r with
    | 39 :: 39 :: 39 :: 92 :: 10 :: t => ev3 isBytes (t.length + 1) t       -- '''\<newline>
    | 39 :: 39 :: 39 :: t => ev3 isBytes (t.length + 1) t
    | q :: t => if q = Q ∨ q = DQ then ev1 isBytes q (t.length + 1) t else none
    | [] => none

end TTV.TextRepr
