import TTV.Model.StreamTypes
import TTV.Model.Stream
import TTV.Model.StreamDeco
/-! M-Stream, converters (C09): transcription of `ExtendedToStreamDecorator` (`startTest`, `stopTest`, `_convert`,
`tags`, `time`, `_now`; testtools/testresult/real.py) driven by a well-formed history of `TestResult` calls; the way
back is `StreamToExtendedDecorator` + `PlaceHolder.run` from `TTV.Model.Stream`.  The `TestResult` side is local to
this family: a test is `[tags] [time] startTest [tags] [time] outcome stopTest`.
Content types are opaque tokens (token 0 = application/octet-stream, 1 = text/plain; charset="utf8" — the type of the
reason file —, 5 = text/x-traceback; charset="utf8"; language="python"); rendering and re-parsing them is C16's.
File names are numbers: 0 = `reason`, 1 = `traceback`. -/
namespace TTV.Stream.Convert
open TTV.Stream

/-- a `Content` object handed to the result: its type and the chunks `iter_bytes()` yields -/
structure DetailIn where
  name : Nat
  mime : Nat
  chunks : List Bytes
deriving DecidableEq, Repr

/-- `addError` / `addFailure` / `addExpectedFailure` take exactly one of `err` and `details` -/
inductive ErrPayload where
  | details (ds : List DetailIn)
  | err                                  -- an exc_info triple: becomes the `traceback` detail
deriving DecidableEq, Repr

/-- `addSkip(test, reason)` or `addSkip(test, details=…)` (alternatives), or neither -/
inductive SkipPayload where
  | none
  | reason (r : List Nat)                -- text as code points
  | details (ds : List DetailIn)
deriving DecidableEq, Repr

inductive Result where
  | success (ds : Option (List DetailIn))
  | uxsuccess (ds : Option (List DetailIn))
  | error (p : ErrPayload)
  | failure (p : ErrPayload)
  | xfail (p : ErrPayload)
  | skip (p : SkipPayload)
deriving DecidableEq, Repr

/-- one test of a history: `[tags(gtags)] [time(t0)] startTest [tags(ltags)] [time(t1)] add… stopTest` -/
structure TestIn where
  id : Nat
  gtags : Option (List Nat × List Nat)   -- (new, gone) of a tags() call before startTest
  t0 : Option Nat
  ltags : Option (List Nat × List Nat)   -- (new, gone) of a tags() call inside the test
  t1 : Option Nat
  result : Result
deriving DecidableEq, Repr

/-- runs `startTestRun … stopTestRun` on the same pair of converter objects -/
structure Input where
  explicitStart : Bool                   -- call startTestRun before the first run (otherwise its first startTest does;
                                         -- every later run is started explicitly: `_started` stays set)
  runs : List (List TestIn)
deriving Repr

/-! ## `ExtendedToStreamDecorator` -/
/-- a Python dict built from (name, value) pairs: a repeated key keeps its first position and takes the later value -/
def asDict : List DetailIn → List DetailIn
  | [] => []
  | d :: ds =>
    match (asDict ds).find? (·.name == d.name) with
    | some d' => d' :: (asDict ds).filter (·.name != d.name)
    | none => d :: asDict ds
-- (the harness only sends distinct names; `asDict` makes the model total)

/-- `TagContext.change_tags`: `update(new); difference_update(gone)` -/
def changeTags (cur : List Nat) : Option (List Nat × List Nat) → List Nat
  | none => cur
  | some (new, gone) => Deco.norm ((cur ++ new).filter fun x => !gone.contains x)

def stamp : Option Nat → Ts
  | some n => .t n
  | none => .now

/-- UTF-8 of one code point (`str.encode('utf8')`; the harness only sends scalar values) -/
def utf8 (c : Nat) : Bytes :=
  if c < 0x80 then [c]
  else if c < 0x800 then [0xC0 + c / 64, 0x80 + c % 64]
  else if c < 0x10000 then [0xE0 + c / 4096, 0x80 + c / 64 % 64, 0x80 + c % 64]
  else [0xF0 + c / 262144, 0x80 + c / 4096 % 64, 0x80 + c / 64 % 64, 0x80 + c % 64]

def encode (s : List Nat) : Bytes := (s.map utf8).flatten

def blank (id : Nat) (ts : Ts) : Event :=
  { testId := some id, status := none, tags := none, runnable := true, fileName := none, fileBytes := none,
    eof := false, mime := none, route := none, timestamp := some ts }

def fileEvent (id : Nat) (ts : Ts) (name mime : Nat) (bs : Bytes) (eof : Bool) : Event :=
  { blank id ts with fileName := some name, fileBytes := some bs, eof := eof, mime := some mime }

/-- the chunk loop of `_convert` with its one-chunk look-ahead: `pending` = `file_bytes` -/
def chunkLoop (mk : Bytes → Bool → Event) : Option Bytes → List Bytes → List Event
  | pending, [] => [mk (pending.getD []) true]
  | pending, c :: cs => (match pending with | some b => [mk b false] | none => []) ++ chunkLoop mk (some c) cs

def detailEvents (id : Nat) (ts : Ts) (ds : List DetailIn) : List Event :=
  ((asDict ds).map fun d => chunkLoop (fileEvent id ts d.name d.mime) none d.chunks).flatten

/-- the traceback content made from the harness's exc_info: one chunk (token bytes "TB") -/
def tracebackDetail : DetailIn := { name := 1, mime := 5, chunks := [[84, 66]] }

def errDetails : ErrPayload → List DetailIn
  | .details ds => ds
  | .err => [tracebackDetail]        -- `details = {}; details["traceback"] = TracebackContent(err, test)`

/-- (status, details or none, reason) as `_convert` gets them -/
def convertArgs : Result → Status × Option (List DetailIn) × Option (List Nat)
  | .success ds => (.success, ds, none)
  | .uxsuccess ds => (.uxsuccess, ds, none)
  | .error p => (.fail, some (errDetails p), none)
  | .failure p => (.fail, some (errDetails p), none)
  | .xfail p => (.xfail, some (errDetails p), none)
  | .skip .none => (.skip, none, none)
  | .skip (.reason r) => (.skip, none, some r)
  | .skip (.details ds) => (.skip, some ds, none)

/-- `if details is not None: for name, content in details.items(): …` -/
def detailPart (id : Nat) (ts : Ts) : Option (List DetailIn) → List Event
  | some ds => detailEvents id ts ds
  | none => []

/-- `if reason is not None:` the reason file, utf8, `text/plain; charset=utf8` -/
def reasonPart (id : Nat) (ts : Ts) : Option (List Nat) → List Event
  | some rs => [fileEvent id ts 0 1 (encode rs) true]
  | none => []

/-- `_convert(test, err, details, status, reason)` at time `ts` with current tags `tags` -/
def convert (id : Nat) (ts : Ts) (tags : List Nat) (r : Result) : List Event :=
  let a := convertArgs r
  detailPart id ts a.2.1 ++ reasonPart id ts a.2.2 ++ [{ blank id ts with status := some a.1, tags := some tags }]

/-- the decorator's state between tests: run-level tags, the last `time()` value -/
structure St where
  gtags : List Nat
  now : Option Nat
deriving DecidableEq, Repr

/-- one test: new state and the status events emitted -/
def convTest (s : St) (t : TestIn) : St × List Event :=
  let g := changeTags s.gtags t.gtags
  let now0 := match t.t0 with | some n => some n | none => s.now
  let now1 := match t.t1 with | some n => some n | none => now0
  ({ gtags := g, now := now1 },
   { blank t.id (stamp now0) with status := some .inprogress } :: convert t.id (stamp now1) (changeTags g t.ltags) t.result)

def convAll : St → List TestIn → List Event
  | _, [] => []
  | s, t :: ts => (convTest s t).2 ++ convAll (convTest s t).1 ts

/-- the status events of one run: `startTestRun` resets the tag context and the clock (`__now = None`) -/
def toStream (tests : List TestIn) : List Event := convAll { gtags := [], now := none } tests

inductive StreamEv where
  | start | stop
  | status (e : Event)
deriving DecidableEq, Repr

structure Trace where
  mid : List StreamEv          -- what a StreamResult next to StreamToExtendedDecorator sees
  ext : List ExtEv             -- what the final extended TestResult sees
deriving DecidableEq, Repr

def midRun (tests : List TestIn) : List StreamEv := [.start] ++ (toStream tests).map .status ++ [.stop]

def model (i : Input) : Trace :=
  { mid := (i.runs.map midRun).flatten
    ext := (i.runs.map fun tests => toExtended (toStream tests)).flatten }

end TTV.Stream.Convert
