/-! M-Stream, base types: the `status` event record (the ten keyword arguments of
`StreamResult.status`), statuses, extended-API outcomes, summary buckets.
Import-free (the driver links against it; `TTV.Generated.Stream` builds its tables from these types). -/
namespace TTV.Stream

/-- `test_status` values (`None` is `Option.none`).  `unknown` is not in `STATES`; it is the status of a
record that only saw file events, and the consumers treat it as a final status when a caller sends it. -/
inductive Status | inprogress | exist | xfail | uxsuccess | success | fail | skip | unknown
deriving DecidableEq, Repr

def Status.all : List Status := [.inprogress, .exist, .xfail, .uxsuccess, .success, .fail, .skip, .unknown]

/-- outcome methods of the extended `TestResult` API -/
inductive Outcome | success | failure | error | skip | xfail | uxsuccess
deriving DecidableEq, Repr

/-- the public lists of `StreamSummary` an outcome may be appended to -/
inductive Bucket | none | errors | failures | skipped | expectedFailures | unexpectedSuccesses
deriving DecidableEq, Repr

/-- timestamps: `t n` = the harness's n-th fixed instant (tz-aware UTC); `now` = the wall clock read by
the code under test (checked by the harness to be tz-aware UTC and inside the run's time window). -/
inductive Ts | t (n : Nat) | now
deriving DecidableEq, Repr

abbrev Str := List Char
abbrev Bytes := List Nat

/-- one `status(...)` call.  `TG` = representation of the `test_tags` argument: a sorted duplicate-free
list of tag numbers (C09, C10, C18), or an object reference into the tag heap (C11). -/
structure EventOf (TG : Type) where
  testId    : Option Nat
  status    : Option Status
  tags      : Option TG
  runnable  : Bool
  fileName  : Option Nat
  fileBytes : Option Bytes
  eof       : Bool
  mime      : Option Nat          -- opaque content-type token; token 0 = application/octet-stream
  route     : Option Str
  timestamp : Option Ts
deriving DecidableEq, Repr

abbrev Event := EventOf (List Nat)

/-- an attachment as held by a test record: name, content type (token), concatenated bytes -/
structure Detail where
  name  : Nat
  mime  : Nat
  bytes : Bytes
deriving DecidableEq, Repr

/-- the "test dict" passed to `StreamToDict`'s callback / the `_TestRecord` -/
structure Report where
  id      : Nat
  tags    : List Nat
  details : List Detail           -- dict insertion order
  status  : Status
  ts0     : Option Ts
  ts1     : Option Ts
deriving DecidableEq, Repr

/-- calls received by an extended `TestResult` (details flavour) -/
inductive ExtEv
  | startTestRun | stopTestRun
  | time (t : Ts)
  | tags (new gone : List Nat)
  | startTest (id : Nat)
  | outcome (o : Outcome) (id : Nat) (details : List Detail)
  | stopTest (id : Nat)
deriving DecidableEq, Repr

end TTV.Stream
