import TTV.Model.Stream
/-! The decision logic of `_StreamToTestRecord`, `StreamToDict` and `StreamToExtendedDecorator`
(testtools/testresult/real.py), as data.

`harness/pystream.py` re-reads the functions from the tree under test on every run (`TTV/Generated/ConsumerSrc.lean`); the
interpreters here give the data its meaning over the consumer model (`TTV.Stream`: table `Tbl`, records `Report`, fault
plans); `C10_src_update_case`, `C10_src_status`, `C10_src_stop`, `C10_src_extended` prove that the hand-written `upd`,
`statusF`, `stopLoop`, `toExtendedF` *are* the interpretation of exactly what was found in the source.

Trusted: the reading of `is not None`, truthiness of `bytes` / `set`, `and`, the conditional, dict get/set/pop/`del` on the
association list; the record primitives `_TestRecord.set / got_timestamp / got_file / create` (= field update, `addFile`,
`create`); `while self._inprogress: … popitem()[1]` = the model's `stopLoop` over the reversed table; `super()` calls of
`StreamResult` are no-ops.  Unrecognised forms are `other` (`undef`), which no reference contains. -/
namespace TTV.ConsumerSrc
open TTV.Stream

/-! ### `_update_case`: the four fields of the record afterwards -/
inductive UArg | testStatus | testTags | fileName | fileBytes | mimeType | timestamp
deriving DecidableEq, Repr
inductive UField | status | ts1 | details | tags
deriving DecidableEq, Repr

inductive UExpr where
  | old (f : UField)                 -- the record's field before the call
  | arg (a : UArg)                   -- a parameter of `_update_case`
  | none | other | undef
  | gotFile (d n b m : UExpr)        -- case.got_file(n, b, m) on attachments d
  | notNone (e : UExpr) | truthy (e : UExpr) | and (a b : UExpr) | not (a : UExpr)
  | ite (c a b : UExpr)
deriving DecidableEq, Repr

inductive UVal where
  | none
  | status (s : Status) | tags (g : List Nat) | name (n : Nat) | bytes (b : Bytes) | mime (m : Nat) | ts (t : Ts)
  | details (d : List Detail)
  | bool (b : Bool)
  | bad
deriving DecidableEq, Repr

def ofOpt {α : Type} (f : α → UVal) : Option α → UVal
  | some a => f a
  | Option.none => .none

def ueval (r : Report) (e : Event) : UExpr → UVal
  | .old .status => .status r.status
  | .old .ts1 => ofOpt .ts r.ts1
  | .old .details => .details r.details
  | .old .tags => .tags r.tags
  | .arg .testStatus => ofOpt .status e.status
  | .arg .testTags => ofOpt .tags e.tags
  | .arg .fileName => ofOpt .name e.fileName
  | .arg .fileBytes => ofOpt .bytes e.fileBytes
  | .arg .mimeType => ofOpt .mime e.mime
  | .arg .timestamp => ofOpt .ts e.timestamp
  | .none => .none
  | .other => .bad
  | .undef => .bad
  | .gotFile d n b m =>
    match ueval r e d, ueval r e n, ueval r e b, ueval r e m with
    | .details ds, .name nm, .bytes bs, .mime mm => .details (addFile ds nm (some mm) bs)
    | .details ds, .name nm, .bytes bs, .none => .details (addFile ds nm Option.none bs)
    | _, _, _, _ => .bad
  | .notNone x => match ueval r e x with | .none => .bool false | .bad => .bad | _ => .bool true
  | .truthy x => match ueval r e x with
    | .bytes b => .bool (!b.isEmpty)
    | .tags g => .bool (!g.isEmpty)
    | .bool b => .bool b
    | .none => .bool false
    | _ => .bad
  | .and a b => match ueval r e a with
    | .bool false => .bool false
    | .bool true => ueval r e b
    | _ => .bad
  | .not a => match ueval r e a with | .bool b => .bool (!b) | _ => .bad
  | .ite c a b => match ueval r e c with
    | .bool true => ueval r e a
    | .bool false => ueval r e b
    | _ => .bad

/-- the record after `_update_case`; `none` = a term does not evaluate to a value of the field's type -/
def updInterp (st ts dt tg : UExpr) (r : Report) (e : Event) : Option Report :=
  match ueval r e st, ueval r e dt, ueval r e tg with
  | .status s, .details d, .tags g =>
    match ueval r e ts with
    | .ts t => some { r with status := s, ts1 := some t, details := d, tags := g }
    | .none => some { r with status := s, ts1 := Option.none, details := d, tags := g }
    | _ => Option.none
  | _, _, _ => Option.none

def refUpdStatus : UExpr := .ite (.notNone (.arg .testStatus)) (.arg .testStatus) (.old .status)
def refUpdTs1 : UExpr := .arg .timestamp
def refUpdDetails : UExpr :=
  .ite (.and (.notNone (.arg .fileName)) (.truthy (.arg .fileBytes)))
    (.gotFile (.old .details) (.arg .fileName) (.arg .fileBytes) (.arg .mimeType)) (.old .details)
def refUpdTags : UExpr := .ite (.notNone (.arg .testTags)) (.arg .testTags) (.old .tags)

/-! ### `_ensure_key`, `status`, `stopTestRun` of `_StreamToTestRecord` -/
inductive EStmt where
  | returnIfNoId          -- if test_id is None: return
  | makeKey               -- key = (test_id, route_code)
  | createIfAbsent        -- if key not in self._inprogress: self._inprogress[key] = _TestRecord.create(test_id, timestamp)
  | returnKey             -- return key
  | other
deriving DecidableEq, Repr

/-- table afterwards and the key returned (`none` = `None`) -/
def eInterp (e : Event) : List EStmt → Tbl → Option Key → Tbl × Option Key
  | [], t, _ => (t, none)
  | .returnIfNoId :: r, t, k => if e.testId.isNone then (t, none) else eInterp e r t k
  | .makeKey :: r, t, _ => eInterp e r t (key e)
  | .createIfAbsent :: r, t, k =>
    match k with
    | some kk => eInterp e r (if (t.get kk).isNone then t.set kk (create kk.1 e) else t) k
    | none => (t, none)
  | .returnKey :: _, t, k => (t, k)
  | .other :: _, t, _ => (t, none)

inductive HStmt where
  | handOverPop           -- self.on_test(self._inprogress.pop(key))
  | handOverKeep          -- self.on_test(self._inprogress[key])
  | delKey                -- del self._inprogress[key]
  | other
deriving DecidableEq, Repr

inductive SStmt where
  | superCall
  | ensureKey             -- key = self._ensure_key(test_id, route_code, timestamp)
  | returnUnlessKey       -- if not key: return
  | updateCase            -- self._inprogress[key] = self._update_case(self._inprogress[key], <the arguments, each to its own parameter>)
  | ifFinal (body : List HStmt)   -- if test_status not in INTERIM_STATES: body
  | other
deriving DecidableEq, Repr

structure SSt where
  tbl : Tbl
  n : Nat                        -- hand-overs made so far
  key : Option Key := none
  handed : List Report := []
  raised : Bool := false         -- the callback raised: the exception leaves status()
  bad : Bool := false            -- an unknown statement, a KeyError, …
deriving Repr

def hInterp (faults : List Nat) : List HStmt → SSt → SSt
  | [], s => s
  | .handOverPop :: r, s =>
    match s.key.bind s.tbl.get, s.key with
    | some rec, some k =>
      let s' := { s with tbl := s.tbl.del k, n := s.n + 1, handed := s.handed ++ [rec] }
      if faults.contains s.n then { s' with raised := true } else hInterp faults r s'
    | _, _ => { s with bad := true }
  | .handOverKeep :: r, s =>
    match s.key.bind s.tbl.get with
    | some rec =>
      let s' := { s with n := s.n + 1, handed := s.handed ++ [rec] }
      if faults.contains s.n then { s' with raised := true } else hInterp faults r s'
    | none => { s with bad := true }
  | .delKey :: r, s =>
    match s.key with
    | some k => hInterp faults r { s with tbl := s.tbl.del k }
    | none => { s with bad := true }
  | .other :: _, s => { s with bad := true }

def sInterp (faults : List Nat) (upd : Report → Event → Option Report) (ek : List EStmt) (e : Event) :
    List SStmt → SSt → SSt
  | [], s => s
  | .superCall :: r, s => sInterp faults upd ek e r s
  | .ensureKey :: r, s =>
    let x := eInterp e ek s.tbl none
    sInterp faults upd ek e r { s with tbl := x.1, key := x.2 }
  | .returnUnlessKey :: r, s => if s.key.isNone then s else sInterp faults upd ek e r s
  | .updateCase :: r, s =>
    match s.key with
    | some k =>
      match (s.tbl.get k).bind (upd · e) with
      | some rec => sInterp faults upd ek e r { s with tbl := s.tbl.set k rec }
      | none => { s with bad := true }
    | none => { s with bad := true }
  | .ifFinal body :: r, s =>
    if isFinal e then
      let s' := hInterp faults body s
      if s'.raised || s'.bad then s' else sInterp faults upd ek e r s'
    else sInterp faults upd ek e r s
  | .other :: _, s => { s with bad := true }

def refRecordStatus : List SStmt := [.superCall, .ensureKey, .returnUnlessKey, .updateCase, .ifFinal [.handOverPop]]
def refEnsureKey : List EStmt := [.returnIfNoId, .makeKey, .createIfAbsent, .returnKey]

inductive DStmt where
  | superCall
  | drainPopitem          -- while self._inprogress: case = self._inprogress.popitem()[1]; self.on_test(case.got_timestamp(None))
  | other
deriving DecidableEq, Repr

/-- one `stopTestRun()` call: hand-overs, what is left in the table (in `popitem()` order), hand-over count, raised -/
def dInterp (faults : List Nat) : List DStmt → List (Key × Report) → Nat → List Report × List (Key × Report) × Nat × Bool
  | [], l, n => ([], l, n, false)
  | .superCall :: r, l, n => dInterp faults r l n
  | .drainPopitem :: r, l, n =>
    let x := stopLoop faults l n
    if x.2.2.2 then x else
      let y := dInterp faults r x.2.1 x.2.2.1
      (x.1 ++ y.1, y.2)
  | .other :: _, l, n => ([], l, n, true)

def refRecordStop : List DStmt := [.superCall, .drainPopitem]

/-! ### the wrappers -/
inductive FStmt where
  | superCall
  | returnIfExists        -- if test_status == "exists": return
  | hookCall              -- self._hook.<method>(<all arguments>)
  | decoratedCall         -- self.decorated.<method>()
  | other
deriving DecidableEq, Repr

inductive GStmt where
  | toTestCase            -- case = test_record.to_test_case()
  | runCase               -- case.run(self.decorated)
  | toTestCaseRun         -- test_record.to_test_case().run(self.decorated)
  | onTestDict            -- self.on_test(test_record.to_dict())
  | other
deriving DecidableEq, Repr

/-- a `status` wrapper: the event as it reaches the `_StreamToTestRecord`, `none` = dropped -/
def fStatus (e : Event) : List FStmt → Option Event
  | [] => none
  | .superCall :: r => fStatus e r
  | .returnIfExists :: r => if e.status == some .exist then none else fStatus e r
  | .hookCall :: _ => some e
  | _ :: _ => none

/-- `startTestRun` / `stopTestRun` of `StreamToExtendedDecorator`: what the wrapped result sees, given what the hook's
call makes it see (nothing at the start, the flushed tests at the stop) -/
def fCtl (own : ExtEv) (hook : List ExtEv) : List FStmt → List ExtEv
  | [] => []
  | .superCall :: r => fCtl own hook r
  | .hookCall :: r => hook ++ fCtl own hook r
  | .decoratedCall :: r => own :: fCtl own hook r
  | _ :: _ => []

/-- `_handle_tests`: the calls made on the wrapped result for one record (`to_test_case` raises for a status without
outcome: no calls); `faulted` = the result's outcome method raises -/
def gExt (faulted : Bool) (r : Report) : List GStmt → List ExtEv
  | [.toTestCase, .runCase] => if faulted then bracketAborted r else bracket r
  | [.toTestCaseRun] => if faulted then bracketAborted r else bracket r
  | _ => []

def refDictStatus : List FStmt := [.superCall, .hookCall]
def refExtStatus : List FStmt := [.returnIfExists, .hookCall]
def refExtStart : List FStmt := [.decoratedCall, .hookCall]
def refExtStop : List FStmt := [.hookCall, .decoratedCall]
def refExtHandle : List GStmt := [.toTestCase, .runCase]

def bracketsG (h : List GStmt) (faults : List Nat) : Nat → List Report → List ExtEv
  | _, [] => []
  | n, r :: rs => gExt (faults.contains n) r h ++ bracketsG h faults (n + 1) rs

/-- everything the wrapped extended result sees in one run: `startTestRun`, the tests completed by status events, and
inside the last `stopTestRun` call (repeated by the driver while it raises) the flushed ones -/
def extInterp (status start stop : List FStmt) (handle : List GStmt) (faults : List Nat) (es : List Event) : List ExtEv :=
  let fed := es.filterMap (fStatus · status)
  let r := runF faults { tbl := [], n := 0 } 0 fed
  let f := stopAll faults (r.1.tbl.length + 1) r.1.tbl.reverse r.1.n
  fCtl .startTestRun [] start
    ++ bracketsG handle faults 0 r.2.1
    ++ fCtl .stopTestRun (bracketsG handle faults r.2.1.length f.1) stop

end TTV.ConsumerSrc
