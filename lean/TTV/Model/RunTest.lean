import TTV.Generated.C01
/-! M-Run: model of `testtools.TestCase.run` / `testtools.RunTest` (sync runner): stage sequencing,
cleanup stack, exception collection and selection, details bookkeeping (`addDetail`,
`addDetailUniqueName`, `_report_traceback`, `gather_details`), `expectThat`/`assertThat` mismatches,
`expectFailure`, `patch`, `useFixture`, `addOnException` handlers, skip / expectedFailure decorators,
and the degradation seen by the different result flavours.  Serves C01, C02, C03, C05.
Import-free apart from the generated tables. -/
namespace TTV.Run
open TTV.Generated.C01 (HandlerRow)

/-! ### exception classes and handlers -/
inductive Cls where
  | base | exc | skip | failure | xfail | uxs | ki | sysexit
  | user (id : Nat) (parent : Cls)
deriving DecidableEq, Repr

def Cls.ancestors : Cls → List Cls
  | .base => [.base]
  | .exc => [.exc, .base]
  | .skip => [.skip, .exc, .base]
  | .failure => [.failure, .exc, .base]
  | .xfail => [.xfail, .exc, .base]
  | .uxs => [.uxs, .exc, .base]
  | .ki => [.ki, .base]
  | .sysexit => [.sysexit, .base]
  | .user i p => .user i p :: p.ancestors

/-- `isinstance(e, d)` -/
def isSub (c d : Cls) : Bool := d ∈ c.ancestors

structure Exc where
  cls : Cls
  tag : Nat
deriving DecidableEq, Repr

inductive Outcome where
  | success | failure | error | skip | xfail | uxs
deriving DecidableEq, Repr

def Outcome.unsuccessful : Outcome → Bool
  | .failure | .error | .uxs => true
  | _ => false

/-- a handler function: one of the TestCase's own `_report_*` methods, or a function supplied by the user -/
inductive Reporter where
  | std (o : Outcome)
  | user (id : Nat) (o : Outcome)
deriving DecidableEq, Repr

def Reporter.outcome : Reporter → Outcome
  | .std o => o
  | .user _ o => o

abbrev Handlers := List (Cls × Reporter)

def clsOfRow : HandlerRow → Cls
  | .skip => .skip | .failure => .failure | .xfail => .xfail | .uxs => .uxs | .exception => .exc
def outcomeOfRow : HandlerRow → Outcome
  | .skip => .skip | .failure => .failure | .xfail => .xfail | .uxs => .uxs | .exception => .error

/-- `TestCase.exception_handlers` as found in the source (order matters) -/
def defaultHandlers : Handlers :=
  TTV.Generated.C01.exceptionHandlers.map fun r => (clsOfRow r, .std (outcomeOfRow r))

/-- `RunTest._handler_for`: first handler whose class the exception is an instance of -/
def handlerFor (hs : Handlers) (e : Exc) : Option Reporter :=
  (hs.find? fun h => isSub e.cls h.1).map (·.2)

def lookup (hs : Handlers) (e : Exc) : Option Outcome := (handlerFor hs e).map Reporter.outcome

def claimed (hs : Handlers) (e : Exc) : Bool := (handlerFor hs e).isSome

/-- handled by the case's own skip / expected-failure reporter -/
def benign (hs : Handlers) (e : Exc) : Bool :=
  match handlerFor hs e with
  | some (.std .skip) => true
  | some (.std .xfail) => true
  | _ => false

/-- `RunTest._select_exception`: first unclaimed, else last non-benign, else last -/
def select (hs : Handlers) (es : List Exc) : Option Exc :=
  match es.find? (fun e => !claimed hs e) with
  | some e => some e
  | none =>
    match es.reverse.find? (fun e => !benign hs e) with
    | some e => some e
    | none => es.getLast?

/-! ### details -/
/-- a detail name `base-s₁-s₂…`: the harness splits trailing `-<decimal>` groups off, so the
representation is injective by construction. base 0 = `traceback`, 1 = `Failed expectation`, 2 = `reason` -/
structure DName where
  base : Nat
  sufs : List Nat
deriving DecidableEq, Repr

def DName.push (n : DName) (k : Nat) : DName := { n with sufs := n.sufs ++ [k] }
def nmTraceback : DName := ⟨0, []⟩
def nmExpectation : DName := ⟨1, []⟩
def nmReason : DName := ⟨2, []⟩

/-- content supplied by user code: an id and whether its bytes are computed when read -/
structure UC where
  id : Nat
  lazy : Bool
deriving DecidableEq, Repr

inductive Content where
  | user (c : UC)                    -- as attached
  | frozen (id : Nat) (val : Nat)    -- bytes of a lazy content as read at logical time `val`
  | tb (e : Exc)                     -- traceback of e
  | expectation (mid : Nat)          -- stack trace of the failed expectation `mid`
  | reason (r : Nat)                 -- skip / expected-failure reason text
deriving DecidableEq, Repr

abbrev Details := List (DName × Content)

def dmem (d : Details) (n : DName) : Bool := d.any (·.1 == n)

/-- `dict[n] = c`: in place when present, else appended -/
def dset : Details → DName → Content → Details
  | [], n, c => [(n, c)]
  | (m, x) :: d, n, c => if m = n then (m, c) :: d else (m, x) :: dset d n c

def dnames (d : Details) : List DName := d.map (·.1)

/-- the loop of `addDetailUniqueName` / `gather_details`: `n`, `n-1`, `n-2`, … first one not taken.
(`taken` shrinks by the candidate just rejected; candidates are pairwise distinct, so this is the
code's `while full_name in existing_details`.) -/
def uniqFrom (n : DName) (k : Nat) (taken : List DName) : DName :=
  let cand := if k = 0 then n else n.push k
  if h : cand ∈ taken then uniqFrom n (k + 1) (taken.erase cand) else cand
termination_by taken.length
decreasing_by
  rw [List.length_erase_of_mem h]
  have : 0 < taken.length := List.length_pos_of_mem h
  omega

def uniq (d : Details) (n : DName) : DName := uniqFrom n 0 (dnames d)

def addUnique (d : Details) (n : DName) (c : Content) : Details := dset d (uniq d n) c

/-- `_report_traceback`: cumulative label `traceback`, `traceback-1`, `traceback-1-2`, … with the counter
persisting within the run -/
def tbLabel (names : List DName) : Nat → Nat → DName → DName × Nat
  | 0, c, l => (l, c)
  | fuel + 1, c, l =>
    let l' := if c = 0 then l else l.push c
    if l' ∈ names then tbLabel names fuel (c + 1) l' else (l', c + 1)

/-- value read from a content at logical time `t` -/
def freeze (t : Nat) : Content → Content
  | .user ⟨i, true⟩ => .frozen i t
  | c => c

/-! ### programs -/
inductive Term where
  | ret
  | raise1 (e : Exc)
  | raiseMulti (es : List Exc) (me : Exc)     -- MultipleExceptions(es); `me` = the exception object itself
  | assertFail (e : Exc) (ds : List (DName × UC))          -- assertThat mismatch (details, then raise)
  | expectFailure (r : Nat) (e : Option Exc) (x : Exc)     -- expectFailure: predicate raises e (x = _ExpectedFailure) or returns (x = _UnexpectedSuccess)
  | fixtureFail (ds : List (DName × UC)) (e : Exc) (ces : List Exc) (se : Exc)  -- useFixture whose setUp raises e; ces = what the
      -- fixture's already-registered cleanups raise while it unwinds; se = SetupError (last constituent)
deriving Repr

mutual
inductive Act where
  | cleanup (s : Stage)
  | addDetail (n : DName) (c : UC)
  | expect (mid : Nat) (ds : List (DName × UC))           -- expectThat mismatch
  | patch (attr : Nat) (v : Nat)
  | useFixture (fid : Nat) (ds : List (DName × UC)) (cleanUp : Stage)
inductive Stage where
  | mk (id : Nat) (acts : List Act) (term : Term)
end

def Stage.id : Stage → Nat | .mk i _ _ => i
def Stage.acts : Stage → List Act | .mk _ a _ => a
def Stage.term : Stage → Term | .mk _ _ t => t

/-- entries of the cleanup stack -/
inductive Cl where
  | stage (s : Stage)
  | gather (fid : Nat) (ds : List (DName × UC))
  | unpatch (attr : Nat) (old : Option Nat)

mutual
def Act.size : Act → Nat
  | .cleanup s => 1 + s.size
  | .useFixture _ _ s => 2 + s.size
  | _ => 1
def Stage.size : Stage → Nat
  | .mk _ acts _ => 1 + Act.sizeList acts
def Act.sizeList : List Act → Nat
  | [] => 0
  | a :: as => a.size + Act.sizeList as
end

def Cl.size : Cl → Nat
  | .stage s => s.size
  | _ => 1

inductive Flavour where
  | ext | tt | none_ | py27 | py26 | twisted | stream
deriving DecidableEq, Repr

structure Program where
  skipDeco : Option Nat          -- @skip(reason) on the method / class
  xfailDeco : Bool               -- @unittest.expectedFailure
  setUp : Stage
  body : Stage
  tearDown : Stage
  userHandlers : Handlers        -- inserted in front of exception_handlers
  nOnExc : Nat                   -- addOnException handlers registered before the run
  attrs0 : List (Nat × Nat)      -- attributes of the scratch object before the run
  flavour : Flavour

/-! ### run-time state -/
inductive Ev where
  | startTestRun | stopTestRun | startTest | stopTest
  | outcome (o : Outcome) (ds : Details)
  | stage (id : Nat)
  | onExc (h : Nat) (e : Exc)
deriving DecidableEq, Repr

/-- ghost record of executed cleanups (not observable as such) -/
inductive Ran where
  | stage (id : Nat) | gather (fid : Nat) | unpatch (attr : Nat)
deriving DecidableEq, Repr

structure RS where
  log     : List Ev
  clock   : Nat               -- number of stages started so far
  stack   : List Cl           -- cleanup stack, top first
  excs    : List Exc          -- `_exceptions`
  ff      : Bool              -- force_failure
  details : Details
  tbCount : Nat               -- next value of `_traceback_id_gens['traceback']`
  attrs   : List (Nat × Nat)
  nOnExc  : Nat
  execd   : List Stage        -- ghost: the stages executed so far, in order
  ran     : List Ran          -- ghost
  regd    : List Ran          -- ghost: every cleanup ever registered
  plain   : List DName        -- ghost: names set by plain `addDetail`
  clobbered : Bool            -- ghost: a plain `addDetail` replaced an entry that was stored under a unique (generated / renamed) name

def stackSize (st : List Cl) : Nat := (st.map Cl.size).sum

def aget (a : List (Nat × Nat)) (k : Nat) : Option Nat := (a.find? (·.1 == k)).map (·.2)
def aset (a : List (Nat × Nat)) (k v : Nat) : List (Nat × Nat) := (k, v) :: a.filter (·.1 != k)
def adel (a : List (Nat × Nat)) (k : Nat) : List (Nat × Nat) := a.filter (·.1 != k)

def addUniqueAll (d : Details) (t : Nat) (frozen : Bool) : List (DName × UC) → Details
  | [] => d
  | (n, c) :: rest => addUniqueAll (addUnique d n (if frozen then freeze t (.user c) else .user c)) t frozen rest

/-- `_report_traceback(exc_info)` -/
def reportTb (s : RS) (e : Exc) : RS :=
  let (l, c) := tbLabel (dnames s.details) (s.details.length + 2) s.tbCount nmTraceback
  { s with details := dset s.details l (.tb e), tbCount := c }

/-- exception classes that get no traceback in `onException` (exact class match) -/
def noTraceback (c : Cls) : Bool :=
  TTV.Generated.C01.noTracebackRows.any fun r => clsOfRow r == c

/-- `_got_user_exception` for one plain exception: `onException` (traceback + handlers), then record -/
def got (s : RS) (e : Exc) : RS :=
  let s1 := if noTraceback e.cls then s else reportTb s e
  { s1 with log := s1.log ++ (List.range s1.nOnExc).map (fun h => Ev.onExc h e), excs := s1.excs ++ [e] }

def gotAll (s : RS) : List Exc → RS
  | [] => s
  | e :: es => gotAll (got s e) es

def runActs : List Act → RS → RS
  | [], s => s
  | .cleanup c :: as, s => runActs as { s with stack := .stage c :: s.stack, regd := s.regd ++ [.stage c.id] }
  | .addDetail n c :: as, s =>
      runActs as { s with details := dset s.details n (.user c), plain := n :: s.plain,
                          clobbered := s.clobbered || (dmem s.details n && !s.plain.contains n) }
  | .expect mid ds :: as, s =>
      let d1 := addUniqueAll s.details s.clock false ds
      runActs as { s with details := addUnique d1 nmExpectation (.expectation mid), ff := true }
  | .patch a v :: as, s =>
      runActs as { s with attrs := aset s.attrs a v, stack := .unpatch a (aget s.attrs a) :: s.stack,
                          regd := s.regd ++ [.unpatch a] }
  | .useFixture fid ds cu :: as, s =>
      runActs as { s with stack := .gather fid ds :: .stage cu :: s.stack,
                          regd := s.regd ++ [.stage cu.id, .gather fid] }

/-- what the stage function raises (after its actions), as the list handed to `_got_user_exception`;
`none` = returned normally.  The Boolean says whether a single exception object propagates (needed by
the expectedFailure decorator, which sees the raised object, not its constituents). -/
def runTerm (t : Term) (s : RS) : RS × Option (List Exc × Exc) :=
  match t with
  | .ret => (s, none)
  | .raise1 e => (s, some ([e], e))
  | .raiseMulti es me => (s, some (if es.isEmpty then [me] else es, me))
  | .assertFail e ds => ({ s with details := addUniqueAll s.details s.clock false ds }, some ([e], e))
  | .expectFailure r eo x =>
      let s1 := { s with details := dset s.details nmReason (.reason r) }
      match eo with
      | some e => (reportTb s1 e, some ([x], x))
      | none => (s1, some ([x], x))
  | .fixtureFail ds e ces se => ({ s with details := addUniqueAll s.details s.clock true ds }, some (e :: ces ++ [se], se))

/-- execute one stage function under `_run_user`: log it, perform its actions, then its terminal behaviour.
`deco` = wrapped by `@expectedFailure` (only ever true for the test method). Returns the new state and
whether the stage completed without exception. -/
def runStage (st : Stage) (deco : Bool) (s : RS) : RS × Bool :=
  let s0 := { s with log := s.log ++ [.stage st.id], clock := s.clock + 1, execd := s.execd ++ [st] }
  let s1 := runActs st.acts s0
  let (s2, r) := runTerm st.term s1
  if deco then
    match r with
    | none => (got s2 ⟨.uxs, 0⟩, false)
    | some (es, obj) =>
      if isSub obj.cls .exc then (got (reportTb s2 obj) ⟨.xfail, 0⟩, false)
      else (gotAll s2 es, false)
  else
    match r with
    | none => (s2, true)
    | some (es, _) => (gotAll s2 es, false)

theorem runActs_stack_le (as : List Act) (s : RS) :
    stackSize (runActs as s).stack ≤ Act.sizeList as + stackSize s.stack := by
  induction as generalizing s with
  | nil => simp [runActs, Act.sizeList]
  | cons a as ih =>
    cases a with
    | cleanup c =>
      simp only [runActs, Act.sizeList, Act.size]
      have := ih { s with stack := .stage c :: s.stack, regd := s.regd ++ [.stage c.id] }
      simp [stackSize, Cl.size] at this ⊢
      omega
    | addDetail n c =>
      simp only [runActs, Act.sizeList, Act.size]
      have := ih { s with details := dset s.details n (.user c), plain := n :: s.plain,
                          clobbered := s.clobbered || (dmem s.details n && !s.plain.contains n) }
      simp at this ⊢; omega
    | expect mid ds =>
      simp only [runActs, Act.sizeList, Act.size]
      have := ih { s with details := addUnique (addUniqueAll s.details s.clock false ds) nmExpectation (.expectation mid), ff := true }
      simp at this; omega
    | patch a v =>
      simp only [runActs, Act.sizeList, Act.size]
      have := ih { s with attrs := aset s.attrs a v, stack := .unpatch a (aget s.attrs a) :: s.stack, regd := s.regd ++ [.unpatch a] }
      simp [stackSize, Cl.size] at this ⊢
      omega
    | useFixture fid ds cu =>
      simp only [runActs, Act.sizeList, Act.size]
      have := ih { s with stack := .gather fid ds :: .stage cu :: s.stack, regd := s.regd ++ [.stage cu.id, .gather fid] }
      simp [stackSize, Cl.size] at this ⊢
      omega

theorem reportTb_stack (s : RS) (e : Exc) : (reportTb s e).stack = s.stack := by
  simp [reportTb]
theorem got_stack (s : RS) (e : Exc) : (got s e).stack = s.stack := by
  simp only [got]; split <;> simp [reportTb_stack]
theorem gotAll_stack (s : RS) (es : List Exc) : (gotAll s es).stack = s.stack := by
  induction es generalizing s with
  | nil => rfl
  | cons e es ih => simp [gotAll, ih, got_stack]
theorem runTerm_stack (t : Term) (s : RS) : (runTerm t s).1.stack = s.stack := by
  cases t <;> simp [runTerm]
  case expectFailure r eo x => cases eo <;> simp [reportTb_stack]

theorem runStage_stack (st : Stage) (deco : Bool) (s : RS) :
    (runStage st deco s).1.stack =
      (runActs st.acts { s with log := s.log ++ [.stage st.id], clock := s.clock + 1, execd := s.execd ++ [st] }).stack := by
  simp only [runStage]
  generalize runActs st.acts _ = s1
  have ht := runTerm_stack st.term s1
  generalize runTerm st.term s1 = p at ht
  obtain ⟨s2, r⟩ := p
  simp only at ht
  cases deco <;> cases r <;> simp [ht, gotAll_stack, got_stack, reportTb_stack]
  all_goals (split <;> simp [ht, gotAll_stack, got_stack, reportTb_stack])

/-- run one popped cleanup entry -/
def runCl (c : Cl) (s : RS) : RS :=
  match c with
  | .stage st => let r := runStage st false s; { r.1 with ran := r.1.ran ++ [.stage st.id] }
  | .gather fid ds =>
      { s with details := addUniqueAll s.details s.clock true ds, ran := s.ran ++ [.gather fid] }
  | .unpatch a old =>
      { s with attrs := (match old with | some v => aset s.attrs a v | none => adel s.attrs a),
               ran := s.ran ++ [.unpatch a] }

theorem runCl_stack_le (c : Cl) (s : RS) : stackSize (runCl c s).stack + 1 ≤ c.size + stackSize s.stack := by
  cases c with
  | stage st =>
    simp only [runCl, runStage_stack]
    have := runActs_stack_le st.acts { s with log := s.log ++ [.stage st.id], clock := s.clock + 1, execd := s.execd ++ [st] }
    cases st with
    | mk i acts t => simp [Cl.size, Stage.size, Stage.acts] at this ⊢; omega
  | gather fid ds => simp [runCl, Cl.size]; omega
  | unpatch a old => simp [runCl, Cl.size]; omega

/-- `_run_cleanups`: pop and run until the stack is empty; a cleanup may push more -/
def runCleanups (s : RS) : RS :=
  match h : s.stack with
  | [] => s
  | c :: rest => runCleanups (runCl c { s with stack := rest })
termination_by stackSize s.stack
decreasing_by
  have := runCl_stack_le c { s with stack := rest }
  simp [h, stackSize] at this ⊢
  omega

def forcedFailure : Exc := ⟨.failure, 0⟩

def initRS (p : Program) (ff0 : Bool) : RS :=
  { log := [], clock := 0, stack := [], excs := [], ff := ff0, details := [], tbCount := 0,
    attrs := p.attrs0, nOnExc := p.nOnExc, execd := [], ran := [], regd := [], plain := [], clobbered := false }

/-- `_run_core` after the skip-decorator test; returns the state and whether `addSuccess` is due -/
def runCore (p : Program) (ff0 : Bool) : RS × Bool :=
  let (s1, ok1) := runStage p.setUp false (initRS p ff0)
  if ok1 then
    let (s2, ok2) := runStage p.body p.xfailDeco s1
    let (s3, ok3) := runStage p.tearDown false s2
    let s4 := runCleanups s3
    let ok4 := s4.excs.length == s3.excs.length      -- `_run_cleanups` returned without any cleanup failing
    if s4.ff then (got s4 forcedFailure, false) else (s4, ok2 && ok3 && ok4)
  else
    let s2 := runCleanups s1
    -- the forced failure is raised here too: an expectation that failed before setUp gave up still fails the test
    if s2.ff then (got s2 forcedFailure, false) else (s2, false)

def handlers (p : Program) : Handlers := p.userHandlers ++ defaultHandlers

/-- how the leaf result of each flavour sees an outcome -/
def degrade : Flavour → Outcome → Outcome
  | .py26, .skip => .success
  | .py26, .xfail => .success
  | .py26, .uxs => .failure
  | .stream, .error => .failure
  | _, o => o

def showsDetails : Flavour → Bool
  | .ext | .tt | .none_ => true
  | _ => false

/-- what a flavour that has no details protocol still shows: the skip reason -/
def visibleDetails (f : Flavour) (o : Outcome) (d : Details) : Details :=
  if showsDetails f then d
  else if o = .skip ∧ f ≠ .py26 ∧ f ≠ .stream then d.filter (fun x => x.1 == nmReason) else []

structure Trace where
  events : List Ev             -- stage starts, onException calls, result calls — in order
  raised : Option Exc          -- what propagated out of run()
  ffAfter : Bool               -- force_failure afterwards
  stackAfter : Nat             -- len(_cleanups) afterwards
  attrsAfter : List (Nat × Nat)   -- sorted by attribute

def sortAttrs (a : List (Nat × Nat)) : List (Nat × Nat) := a.mergeSort (fun x y => x.1 ≤ y.1)

def wrapRun (f : Flavour) (evs : List Ev) : List Ev :=
  if f = .none_ then [.startTestRun] ++ evs ++ [.stopTestRun] else evs

def stopEv (f : Flavour) : List Ev := if f = .stream then [] else [.stopTest]

/-- one `case.run(result)`; `ff0` = `force_failure` left by an earlier run of the same instance -/
def runOnce (p : Program) (ff0 : Bool) : Trace :=
  let f := p.flavour
  match p.skipDeco with
  | some r =>
    let o := degrade f .skip
    { events := wrapRun f ([.startTest, .outcome o (visibleDetails f .skip [(nmReason, .reason r)])] ++ stopEv f)
      raised := none, ffAfter := ff0, stackAfter := 0, attrsAfter := sortAttrs p.attrs0 }
  | none =>
    let (s, succ) := runCore p ff0
    let fin (o : Outcome) (d : Details) (raised : Option Exc) : Trace :=
      { events := wrapRun f ([.startTest] ++ s.log ++ [.outcome (degrade f o) (visibleDetails f o (d.map fun x => (x.1, freeze s.clock x.2)))] ++ stopEv f)
        raised := raised, ffAfter := s.ff, stackAfter := s.stack.length, attrsAfter := sortAttrs s.attrs }
    match select (handlers p) s.excs with
    | none =>
      if succ then fin .success s.details none
      else -- unreachable: a stage that failed recorded an exception (kept total; see `runCore_succ`)
        { events := wrapRun f ([.startTest] ++ s.log ++ stopEv f), raised := none, ffAfter := s.ff,
          stackAfter := s.stack.length, attrsAfter := sortAttrs s.attrs }
    | some e =>
      match handlerFor (handlers p) e with
      | some (.std .skip) => fin .skip (dset s.details nmReason (.reason e.tag)) none
      | some r => fin r.outcome s.details none
      | none => fin .error s.details (some e)

/-- running the same instance `n+1` times: the traces, in order (`force_failure` is the only state that
survives `_reset`) -/
def runMany (p : Program) : Nat → Bool → List Trace
  | 0, _ => []
  | n + 1, ff0 => let t := runOnce p ff0; t :: runMany p n t.ffAfter

structure Input where
  prog : Program
  runs : Nat                   -- how many times the instance is run (≥ 1)

def model (i : Input) : List Trace := runMany i.prog i.runs false

end TTV.Run
