/-! # M-Conc — threads as lists of micro-steps, run under arbitrary schedules  (C12, C13)

Shared model of `ThreadsafeForwardingResult` (testtools/testresult/real.py) and of the machinery the
concurrent suites are built from.

* A *forwarder program* (`Op` list) is what one thread does with its own `ThreadsafeForwardingResult`.
  `stepOp` transcribes the class: `time/tags/startTest/stopTest` only touch forwarder-local state
  (`Loc`); an outcome becomes one *section* `acquire · time(start) · startTest · time(now) ·
  [tags global] · [tags test] · outcome · stopTest · release` (the buffered tags stay buffered: every outcome of a
  test replays them, `stopTest()` forgets the test-local ones) and a control call
  (`startTestRun/stopTestRun/stop/done/shouldStop`) becomes `acquire · call · release`.
* A *fault plan* of a thread is a list of indices into that thread's own sequence of target calls; the
  call with such an index raises.  The calls that follow a raise are those of the code's
  `try/finally` structure (`_add_result_with_semaphore`): nothing after a raise in
  `time/startTest/tags`, `stopTest` after a raising outcome, `release` always.
* Threads are lists of micro-steps (`acq | rel | call | put`, and `tryAcq` which no method of the class performs); the
  global state is the semaphore - a COUNTER as in `threading.Semaphore(1)`: a blocking acquire is enabled while it is not 0
  and decrements it, a non-blocking one never waits, a release increments it whoever calls it and without a bound, so
  that a program that releases what it does not hold drives it to 2 -, the
  completion queue, the event log of the shared objects and the program counters.  A *schedule* is an
  arbitrary list of thread ids; picking a thread that is finished, unknown or blocked is a no-op.

No imports: this file is linked into the native driver. -/
namespace TTV.Conc

/-! ## vocabulary -/

/-- test identity: the `n`-th placeholder of a thread, or the `broken-runner` error holder (C13) -/
inductive TId where
  | t (n : Nat)
  | broken
deriving DecidableEq, Repr, Inhabited

/-- a value handed to `target.time(...)`: `None`, the wall clock, or an explicit timestamp -/
inductive Time where
  | unset
  | wall
  | at (n : Nat)
deriving DecidableEq, Repr, Inhabited

inductive Kind where
  | success | error | failure | skip | xfail | uxsuccess
deriving DecidableEq, Repr, Inhabited

inductive Ctl where
  | startTestRun | stopTestRun | stop | done | shouldStop
deriving DecidableEq, Repr, Inhabited

abbrev Tags := List Nat × List Nat      -- (new, gone), each sorted without duplicates

/-- a call received by the shared target -/
inductive Call where
  | time (t : Time)
  | startTest (id : TId)
  | stopTest (id : TId)
  | tags (new gone : List Nat)
  | outcome (k : Kind) (id : TId)
  | ctl (c : Ctl)
deriving DecidableEq, Repr, Inhabited

/-- `test_status` of a stream event -/
inductive Status where
  | inprogress | success | fail | skip | xfail | uxsuccess | exists
deriving DecidableEq, Repr, Inhabited

/-- what a stream event carries besides its test id: a status, or a chunk of an attached file -/
inductive SKind where
  | st (s : Status)
  | file (eof : Bool)
deriving DecidableEq, Repr, Inhabited

/-- a `status(...)` event as it reaches the caller's StreamResult: route code (= worker), test id, payload,
`test_tags` (`none` = not given), and the instant it carries if the emitter supplied one (`none` = the
time stamp is the wall clock, put on by the suite's `TimestampingStreamResult`) -/
structure SEv where
  w : Nat
  id : TId
  kind : SKind
  tags : Option (List Nat) := none
  ts : Option Nat := none
deriving DecidableEq, Repr, Inhabited

/-- what travels through the completion queue of the concurrent suites (C13) -/
inductive Item where
  | fin (w : Nat)          -- ConcurrentTestSuite: the finished worker's Thread object
  | startRun (w : Nat)     -- StreamToQueue.startTestRun
  | stopRun (w : Nat)      -- StreamToQueue.stopTestRun
  | status (e : SEv)       -- StreamToQueue.status
deriving DecidableEq, Repr, Inhabited

def Item.owner : Item → Nat
  | .fin w => w
  | .startRun w => w
  | .stopRun w => w
  | .status e => e.w

/-- one operation of a thread on its own forwarder -/
inductive Op where
  | time (t : Option Nat)
  | tags (new gone : List Nat)
  | startTest (id : TId)
  | stopTest (id : TId)
  | outcome (k : Kind) (id : TId)
  | ctl (c : Ctl)
deriving DecidableEq, Repr, Inhabited

/-! ## sorted sets of tags (`_merge_tags`) -/

def insertTag (a : Nat) : List Nat → List Nat
  | [] => [a]
  | b :: bs => if a < b then a :: b :: bs else if a = b then b :: bs else b :: insertTag a bs

def normTags (xs : List Nat) : List Nat := xs.foldr insertTag []
def unionTags (a b : List Nat) : List Nat := normTags (a ++ b)
def diffTags (a b : List Nat) : List Nat := a.filter fun x => !b.contains x

/-- `_merge_tags(existing, changed)` -/
def mergeTags (e c : Tags) : Tags :=
  (diffTags (unionTags e.1 c.1) c.2, diffTags (unionTags e.2 c.2) c.1)

def anyTags (t : Tags) : Bool := !(t.1.isEmpty && t.2.isEmpty)

/-! ## the forwarder, sequentially -/

/-- forwarder-local state (`ThreadsafeForwardingResult` attributes that matter) -/
structure Loc where
  now : Option Nat := none            -- TestResult.__now  (none: the wall clock is read)
  start : Time := .unset              -- _test_start
  inTest : Bool := false              -- _in_test
  gtags : Tags := ([], [])            -- _global_tags
  ttags : Tags := ([], [])            -- _test_tags
  n : Nat := 0                        -- target calls made so far by this thread (index for the fault plan)
deriving Repr, Inhabited

def Loc.nowT (l : Loc) : Time :=
  match l.now with
  | none => .wall
  | some n => .at n

/-- a critical section: the calls made on the target while the semaphore is held, each with
"this call raised" -/
abbrev Section := List (Call × Bool)

/-- make the calls in order until one raises (the call whose per-thread index is in the fault plan) -/
def emit (faults : List Nat) : Nat → List Call → Section × Nat × Bool
  | n, [] => ([], n, false)
  | n, c :: cs =>
    if faults.contains n then ([(c, true)], n + 1, true)
    else
      let r := emit faults (n + 1) cs
      ((c, false) :: r.1, r.2.1, r.2.2)

/-- the calls of `_add_result_with_semaphore` that precede the outcome -/
def preCalls (l : Loc) (id : TId) : List Call :=
  [.time l.start, .startTest id, .time l.nowT]
    ++ (if anyTags l.gtags then [.tags l.gtags.1 l.gtags.2] else [])
    ++ (if anyTags l.ttags then [.tags l.ttags.1 l.ttags.2] else [])

/-- result of one operation: the critical section it runs (if any), whether it raised, the new local
state -/
structure OpRes where
  sec : Option Section
  raised : Bool
  loc : Loc

def stepOp (faults : List Nat) (l : Loc) : Op → OpRes
  | .time t => { sec := none, raised := false, loc := { l with now := t } }
  | .tags new gone =>
      let c : Tags := (normTags new, normTags gone)
      { sec := none, raised := false,
        loc := if l.inTest then { l with ttags := mergeTags l.ttags c } else { l with gtags := mergeTags l.gtags c } }
  | .startTest _ => { sec := none, raised := false, loc := { l with start := l.nowT, inTest := true } }
  | .stopTest _ => { sec := none, raised := false, loc := { l with inTest := false, ttags := ([], []) } }
  | .outcome k id =>
      let pre := emit faults l.n (preCalls l id)
      if pre.2.2 then
        -- a raise in time/startTest/tags: outer `finally` releases, nothing else happens
        { sec := some pre.1, raised := true, loc := { l with n := pre.2.1 } }
      else
        let ro := faults.contains pre.2.1
        let rs := faults.contains (pre.2.1 + 1)
        -- the outcome, then `stopTest` in the inner `finally` whatever the outcome did
        { sec := some (pre.1 ++ [(.outcome k id, ro), (.stopTest id, rs)]), raised := ro || rs,
          -- `_test_tags` is NOT consumed: a second outcome of the same test (stdlib unittest: failing body + failing tearDown)
          -- replays the same test-local tags; `stopTest()` / `startTestRun()` reset them
          loc := { l with n := pre.2.1 + 2,
                          start := if ro || rs then l.start else .unset } }
  | .ctl c =>
      let r := faults.contains l.n
      -- startTestRun resets the buffers before it touches the semaphore
      let l' : Loc := match c with
        | .startTestRun => { n := l.n }
        | _ => l
      { sec := some [(.ctl c, r)], raised := r, loc := { l' with n := l.n + 1 } }

/-- the outcomes after which a forwarder consults its own `failfast` (`_stop_if_failfast()`): those that make a run
unsuccessful, as in `TestResult` -/
def Op.unsuccessful : Op → Bool
  | .outcome .error _ => true
  | .outcome .failure _ => true
  | .outcome .uxsuccess _ => true
  | _ => false

def secList : Option Section → List Section
  | some s => [s]
  | none => []

/-- one operation as the caller sees it: `stepOp`, and then - `failfast` set on the forwarder itself, an unsuccessful
outcome, nothing raised so far - `self.stop()`, a second critical section (`if self.failfast: self.stop()` after
`_add_result_with_semaphore` has returned).  Returns the sections, "raised into the caller", the local state. -/
def runOp (faults : List Nat) (ff : Bool) (l : Loc) (o : Op) : List Section × Bool × Loc :=
  let r := stepOp faults l o
  if ff && o.unsuccessful && !r.raised then
    let x := stepOp faults r.loc (.ctl .stop)
    (secList r.sec ++ secList x.sec, x.raised, x.loc)
  else (secList r.sec, r.raised, r.loc)

/-- run a forwarder program (`ff`: failfast is set on the forwarder); every operation is attempted (the caller
catches what an operation raises and carries on).  Returns the critical sections in order and, per operation, "raised". -/
def sections (faults : List Nat) (ff : Bool) : Loc → List Op → List Section × List Bool
  | _, [] => ([], [])
  | l, o :: os =>
    let r := runOp faults ff l o
    let rest := sections faults ff r.2.2 os
    (r.1 ++ rest.1, r.2.1 :: rest.2)

/-- as `sections`, but the first raise abandons the rest of the program (a worker's `run()`);
returns also the final local state and "raised" -/
def sectionsAbort (faults : List Nat) : Loc → List Op → List Section × Loc × Bool
  | l, [] => ([], l, false)
  | l, o :: os =>
    let r := stepOp faults l o
    let pre := match r.sec with | some s => [s] | none => []
    if r.raised then (pre, r.loc, true)
    else
      let rest := sectionsAbort faults r.loc os
      (pre ++ rest.1, rest.2.1, rest.2.2)

/-! ## micro-steps and the scheduler -/

inductive Step where
  | acq
  | rel
  | call (c : Call) (raises : Bool)
  | put (x : Item)
  | tryAcq                 -- `semaphore.acquire(blocking=False)`: never waits.  No method of the class does this; the step
                           -- exists so that such a program (and what it does to the counter) can be written down and judged
deriving DecidableEq, Repr, Inhabited

def secSteps (s : Section) : List Step := .acq :: (s.map (fun p => Step.call p.1 p.2) ++ [.rel])
def progSteps (p : List Section) : List Step := (p.map secSteps).flatten

/-- a thread program between two scheduling-relevant boundaries: a whole critical section, or a `put` -/
inductive Seg where
  | sec (s : Section)
  | put (x : Item)
deriving Repr

def callSteps (s : Section) : List Step := s.map fun p => Step.call p.1 p.2

def segSteps : List Seg → List Step
  | [] => []
  | .sec s :: r => Step.acq :: (callSteps s ++ Step.rel :: segSteps r)
  | .put x :: r => Step.put x :: segSteps r

def segSecs : List Seg → List Section
  | [] => []
  | .sec s :: r => s :: segSecs r
  | .put _ :: r => segSecs r

/-- observable events of the shared objects (semaphore and target), tagged with the acting thread -/
inductive EvK where
  | acq
  | rel
  | call (c : Call) (raised : Bool)
  | tryAcq (ok : Bool)     -- a non-blocking acquire and whether it got the semaphore
deriving DecidableEq, Repr, Inhabited

abbrev Ev := Nat × EvK

/-- what the counter of a semaphore with limit 1 reads after an operation that keeps the discipline (acquire only what is
free, release only what you hold): 0 after an acquire - also after a non-blocking one, whether it got the semaphore or found it
taken -, 1 after a release -/
def EvK.reading? : EvK → Option Nat
  | .acq => some 0
  | .tryAcq _ => some 0
  | .rel => some 1
  | .call _ _ => none

def readings (log : List Ev) : List Nat := log.filterMap fun e => e.2.reading?

structure St where
  sem : Option Nat := none          -- the thread whose acquire succeeded last and that has not been followed by a release
  semv : Nat := 1                   -- the semaphore's COUNTER (`threading.Semaphore(1)`): acquire waits while it is 0 and
                                    -- decrements it, release increments it - whoever calls it, without an upper bound
  semLog : List Nat := []           -- the counter after every semaphore operation, in order
  queue : List Item := []
  pcs : List (List Step) := []      -- remaining micro-steps per thread
  log : List Ev := []
deriving Repr, Inhabited

/-- thread `i` may take its next step -/
def enabled (s : St) (i : Nat) : Bool :=
  match s.pcs[i]? with
  | some (.acq :: _) => s.semv != 0
  | some (_ :: _) => true
  | _ => false

/-- one scheduling decision: thread `i` performs its next micro-step; a no-op if it has none or is
blocked at `acquire` -/
def stepThread (s : St) (i : Nat) : St :=
  match s.pcs[i]? with
  | none => s
  | some [] => s
  | some (.acq :: rest) =>
      if s.semv = 0 then s
      else { s with sem := some i, semv := s.semv - 1, semLog := s.semLog ++ [s.semv - 1], pcs := s.pcs.set i rest,
                    log := s.log ++ [(i, .acq)] }
  | some (.tryAcq :: rest) =>
      if s.semv = 0 then { s with semLog := s.semLog ++ [0], pcs := s.pcs.set i rest, log := s.log ++ [(i, .tryAcq false)] }
      else { s with sem := some i, semv := s.semv - 1, semLog := s.semLog ++ [s.semv - 1], pcs := s.pcs.set i rest,
                    log := s.log ++ [(i, .tryAcq true)] }
  | some (.rel :: rest) =>
      { s with sem := none, semv := s.semv + 1, semLog := s.semLog ++ [s.semv + 1], pcs := s.pcs.set i rest,
               log := s.log ++ [(i, .rel)] }
  | some (.call c r :: rest) => { s with pcs := s.pcs.set i rest, log := s.log ++ [(i, .call c r)] }
  | some (.put x :: rest) => { s with pcs := s.pcs.set i rest, queue := s.queue ++ [x] }

def run (s : St) (sched : List Nat) : St := sched.foldl stepThread s

def remaining (s : St) : Nat := (s.pcs.map List.length).sum

def firstEnabled (s : St) : Option Nat := (List.range s.pcs.length).find? (enabled s)

/-- after the given schedule is used up: keep running the lowest enabled thread (what the harness's
scheduler does); stops early only when no thread is enabled -/
def drain : Nat → St → St
  | 0, s => s
  | fuel + 1, s =>
    match firstEnabled s with
    | none => s
    | some i => drain fuel (stepThread s i)

def finished (s : St) : Bool := s.pcs.all List.isEmpty

/-! ## C12: several forwarders, one target -/

structure Thread where
  ops : List Op
  faults : List Nat
  failfast : Bool := false      -- `failfast` assigned on the forwarder itself
deriving Repr, Inhabited

structure Input where
  threads : List Thread
  sched : List Nat
deriving Repr, Inhabited

structure Trace where
  log : List Ev               -- semaphore and target events in the order they happened
  exc : List (List Bool)      -- per thread, per operation: did it raise into the caller
  finished : Bool             -- every thread ran to its end (no deadlock)
  sems : List Nat := []       -- the semaphore's counter, read after every operation on the semaphore, in order
  sem : Nat := 1              -- … and when everything is over
deriving Repr, Inhabited

def Thread.secs (t : Thread) : List Section := (sections t.faults t.failfast {} t.ops).1

def init (ts : List Thread) : St := { pcs := ts.map fun t => progSteps t.secs }

def final (i : Input) : St :=
  let s0 := init i.threads
  drain (remaining s0) (run s0 i.sched)

def model (i : Input) : Trace :=
  let s := final i
  { log := s.log, exc := i.threads.map (fun t => (sections t.faults t.failfast {} t.ops).2), finished := finished s,
    sems := s.semLog, sem := s.semv }

end TTV.Conc
