import TTV.Model.StreamTypes
import TTV.Generated.Stream
/-! M-Stream, decorators (C11): transcription of `CopyStreamResult`, `StreamTagger`,
`TimestampingStreamResult`, `StreamFailFast` and `StreamToQueue` (testtools/testresult/real.py) as trees over
recording sinks.  The `test_tags` argument is an *object*: events carry a reference into a small heap of tag
sets, so that aliasing (the same set object handed to several targets) and mutation are expressible; the code
as it is (after the `StreamTagger` fix) only ever allocates.  `None` ("this event says nothing about tags") and the
empty set ("no tags now") are different values everywhere in this model; the one place that merges them is
`StreamTagger.status`, which hands on `test_tags or None`: an EMPTY resulting set travels on as `None` (behaviour pinned by
the suite, `TestStreamTagger.test_discarding`; see `taggerOut`).  Import-free apart from the family's modules. -/
namespace TTV.Stream.Deco
open TTV.Stream

/-- a `set` / `frozenset` object of the caller -/
structure TagObj where
  frozen : Bool
  elems : List Nat
deriving DecidableEq, Repr

/-- object references: the caller's objects (by index), and the sets built by decorators during the run -/
inductive Ref | caller (k : Nat) | fresh (k : Nat)
deriving DecidableEq, Repr

structure Heap where
  caller : List TagObj
  fresh : List (List Nat)
deriving DecidableEq, Repr

/-- decorator trees; the leaves are recording sinks and `StreamFailFast` objects (which forward nothing) -/
inductive Dec where
  | sink
  | failfast
  | copy (ts : List Dec)                              -- CopyStreamResult(targets)
  | tagger (add discard : List Nat) (ts : List Dec)   -- StreamTagger(targets, add, discard)
  | stamp (t : Dec)                                   -- TimestampingStreamResult(target)
  | toQueue (code : Str) (t : Dec)                    -- StreamToQueue(queue, code), the queue drained into `t`
deriving Repr

/-- calls as made by the caller: the `test_tags` argument is one of the caller's objects (by index) -/
inductive Call where
  | start | stop
  | status (e : EventOf Nat)
deriving DecidableEq, Repr

/-- calls as they travel through the tree -/
inductive Msg where
  | start | stop
  | status (e : EventOf Ref)
deriving DecidableEq, Repr

def liftEvent (e : EventOf Nat) : EventOf Ref :=
  { testId := e.testId, status := e.status, tags := e.tags.map .caller, runnable := e.runnable, fileName := e.fileName,
    fileBytes := e.fileBytes, eof := e.eof, mime := e.mime, route := e.route, timestamp := e.timestamp }

def Call.msg : Call → Msg
  | .start => .start
  | .stop => .stop
  | .status e => .status (liftEvent e)

/-- canonical form of a set of tags: sorted, duplicate-free -/
def insertU (x : Nat) : List Nat → List Nat
  | [] => [x]
  | y :: ys => if x < y then x :: y :: ys else if x = y then y :: ys else y :: insertU x ys
def norm (xs : List Nat) : List Nat := xs.foldr insertU []

/-- the value of a tags argument -/
def deref (h : Heap) : Option Ref → Option (List Nat)
  | none => none
  | some (.caller k) => some ((h.caller[k]?.map (·.elems)).getD [])
  | some (.fresh k) => some (h.fresh[k]?.getD [])

/-- what a leaf has at the moment of a call -/
inductive Got where
  | start | stop
  | status (e : EventOf Ref) (snap : Option (List Nat))     -- the event and the value of its tags object then
  | fired (call : Nat)                                       -- `on_error()` of a StreamFailFast, during call number `call`
deriving DecidableEq, Repr

/-- `StreamToQueue.route_code` -/
def prefixRoute (code : Str) : Option Str → Option Str
  | none => some code
  | some r => some (code ++ '/' :: r)

/-- `TimestampingStreamResult.status`: a missing timestamp becomes the current time -/
def fillNow : Option Ts → Option Ts
  | none => some .now
  | some s => some s

/-- `StreamTagger.status`: `set(test_tags or ()) | add - discard` -/
def tagged (h : Heap) (e : EventOf Ref) (add discard : List Nat) : List Nat :=
  norm ((((deref h e.tags).getD []) ++ add).filter fun x => !discard.contains x)

/-- `StreamTagger.status`: what is handed on as `test_tags` - `test_tags or None`: `None` whenever the resulting set is
empty, whether the event supplied `None`, an empty set, or tags that were all discarded -/
def taggerOut (h : Heap) (e : EventOf Ref) (add discard : List Nat) : Option (List Nat) :=
  if (tagged h e add discard).isEmpty then none else some (tagged h e add discard)

/-- `StreamFailFast.status`: `test_status in (...)` -/
def fires : Option Status → Bool
  | some s => Generated.Stream.failFast.contains s
  | none => false

/- number of leaves -/
mutual
def nLeaves : Dec → Nat
  | .sink => 1
  | .failfast => 1
  | .copy ts => nLeavesL ts
  | .tagger _ _ ts => nLeavesL ts
  | .stamp t => nLeaves t
  | .toQueue _ t => nLeaves t
def nLeavesL : List Dec → Nat
  | [] => 0
  | t :: ts => nLeaves t + nLeavesL ts
end

/- `deliver n d h c` = the heap after, and for every leaf of `d` (left to right) what it got during call number `n` -/
mutual
def deliver (n : Nat) : Dec → Heap → Msg → Heap × List (List Got)
  | .sink, h, .start => (h, [[.start]])
  | .sink, h, .stop => (h, [[.stop]])
  | .sink, h, .status e => (h, [[.status e (deref h e.tags)]])
  | .failfast, h, .status e =>
      (h, [if fires e.status then [.fired n] else []])
  | .failfast, h, _ => (h, [[]])
  | .copy ts, h, c => deliverL n ts h c
  | .tagger add discard ts, h, .status e =>
      -- a new set object is built; `test_tags or None` hands it on only when it is non-empty
      match taggerOut h e add discard with
      | none => deliverL n ts h (.status { e with tags := none })
      | some s => deliverL n ts { h with fresh := h.fresh ++ [s] } (.status { e with tags := some (.fresh h.fresh.length) })
  | .tagger _ _ ts, h, c => deliverL n ts h c
  | .stamp t, h, .status e =>
      deliver n t h (.status { e with timestamp := fillNow e.timestamp })
  | .stamp t, h, c => deliver n t h c
  | .toQueue code t, h, .status e => deliver n t h (.status { e with route := prefixRoute code e.route })
  | .toQueue _ t, h, c => deliver n t h c
def deliverL (n : Nat) : List Dec → Heap → Msg → Heap × List (List Got)
  | [], h, _ => (h, [])
  | t :: ts, h, c =>
    let r1 := deliver n t h c
    let r2 := deliverL n ts r1.1 c
    (r2.1, r1.2 ++ r2.2)
end

/-- all calls in order; `n` = number of the next call -/
def runCalls (d : Dec) : Nat → Heap → List Call → Heap × List (List Got)
  | _, h, [] => (h, List.replicate (nLeaves d) [])
  | n, h, c :: cs =>
    let r1 := deliver n d h c.msg
    let r2 := runCalls d (n + 1) r1.1 cs
    (r2.1, List.zipWith (· ++ ·) r1.2 r2.2)

/-! ## observation -/
inductive Ident | caller (k : Nat) | fresh
deriving DecidableEq, Repr

inductive LeafEv where
  | start | stop
  | status (e : Event) (ident : Option Ident) (endTags : Option (List Nat))
      -- `e.tags` = value of the received tags object at receipt; which object it is; its value when the run is over
  | fired (call : Nat)
deriving DecidableEq, Repr

def snapEvent {TG : Type} (e : EventOf TG) (snap : Option (List Nat)) : Event :=
  { testId := e.testId, status := e.status, tags := snap, runnable := e.runnable, fileName := e.fileName,
    fileBytes := e.fileBytes, eof := e.eof, mime := e.mime, route := e.route, timestamp := e.timestamp }

def ident : Ref → Ident
  | .caller k => .caller k
  | .fresh _ => .fresh

def observe (final : Heap) : Got → LeafEv
  | .start => .start
  | .stop => .stop
  | .fired n => .fired n
  | .status e snap => .status (snapEvent e snap) (e.tags.map ident) (deref final e.tags)

structure Input where
  tree : Dec
  objs : List TagObj          -- the caller's tag-set objects; events refer to them by index
  calls : List Call
deriving Repr

structure Trace where
  leaves : List (List LeafEv)                                  -- per leaf, left to right
  caller : List (Option (List Nat) × Option (List Nat))        -- per status call: value of the argument object before / after
  callerEnd : List (List Nat)                                  -- the caller's objects when the run is over
deriving DecidableEq, Repr

def statusEvents : List Call → List (EventOf Nat)
  | [] => []
  | .status e :: cs => e :: statusEvents cs
  | _ :: cs => statusEvents cs

/-- heaps after each status call (for the caller-side snapshots) -/
def callerSnaps (d : Dec) : Nat → Heap → List Call → List (Option (List Nat) × Option (List Nat))
  | _, _, [] => []
  | n, h, c :: cs =>
    let h' := (deliver n d h c.msg).1
    (match c with
     | .status e => [(deref h (e.tags.map .caller), deref h' (e.tags.map .caller))]
     | _ => []) ++ callerSnaps d (n + 1) h' cs

def model (i : Input) : Trace :=
  let h0 : Heap := { caller := i.objs, fresh := [] }
  let r := runCalls i.tree 0 h0 i.calls
  { leaves := r.2.map fun l => l.map (observe r.1)
    caller := callerSnaps i.tree 0 h0 i.calls
    callerEnd := r.1.caller.map (·.elems) }

end TTV.Stream.Deco
