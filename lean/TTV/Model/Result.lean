/-! M-Res: result objects of `testtools/testresult/real.py` as a tree (`Shape`) with a small-step semantics
`step : (s : Shape) → St s → Call → St s` (shared by C04, C08, C17).

* `Shape` is the static object graph (which adapter wraps which result); `St s` is the mutable state of
  all objects of that graph (a type computed from the shape, so shape and state cannot mismatch).
* Leaves: `sink f` = a recording result of flavour 2.6 / 2.7 / Twisted / extended (the harness's own
  classes), `tt` = `testtools.TestResult`, `text` = `TextTestResult`, `tbt` = `TestByTestResult` (its
  callback log).  Inner nodes: `etod` = `ExtendedToOriginalDecorator`, `deco` = `TestResultDecorator`,
  `tagger`, `tfr` = `ThreadsafeForwardingResult`, `multi` = `MultiTestResult`, `e2s` =
  `ExtendedToStreamDecorator(StreamToExtendedDecorator(·))`.
* The `ExtendedToOriginalDecorator`s that `MultiTestResult`, `ThreadsafeForwardingResult`,
  `StreamToExtendedDecorator` create around their targets are explicit `etod` nodes of the shape
  (`Shape.wf`); the harness strips them when it builds the Python objects.
Import-free (the driver links against it). -/
namespace TTV.Result

abbrev Text := List Char

/-! ## tag sets: bit `i` of the number is set iff tag `i` is in the set (canonical, so `=` is set equality) -/
abbrev TagSet := Nat
namespace TagSet
def mem (s : TagSet) (i : Nat) : Bool := s.testBit i
def union (a b : TagSet) : TagSet := a ||| b
/-- `a \ b` -/
def diff (a b : TagSet) : TagSet := a ^^^ (a &&& b)
def ofList (xs : List Nat) : TagSet := xs.foldl (fun s i => s ||| (1 <<< i)) 0
/-- tags are below 64 in everything the driver prints -/
def toList (s : TagSet) : List Nat := (List.range 64).filter (fun i => s.testBit i)
/-- `change_tags`: add `new`, then remove `gone` -/
def change (s new gone : TagSet) : TagSet := diff (union s new) gone
end TagSet

/-- `testtools.tags.TagContext`: the current set and the sets of the enclosing contexts -/
structure TagCtx where
  cur : TagSet := 0
  parents : List TagSet := []
deriving Repr, DecidableEq, Inhabited

namespace TagCtx
def fresh : TagCtx := {}
/-- `TagContext(parent)` at `startTest` -/
def push (c : TagCtx) : TagCtx := { cur := c.cur, parents := c.cur :: c.parents }
/-- `stopTest`: leave a test's context, never the run-level one -/
def pop (c : TagCtx) : TagCtx :=
  match c.parents with
  | [] => c
  | p :: ps => { cur := p, parents := ps }
def change (c : TagCtx) (new gone : TagSet) : TagCtx := { c with cur := TagSet.change c.cur new gone }
end TagCtx

/-! ## calls -/
inductive Kind | success | error | failure | skip | xfail | uxsuccess
deriving DecidableEq, Repr, Inhabited

/-- a passing outcome: success, skip, expected failure -/
def Kind.passing : Kind → Bool
  | .success | .skip | .xfail => true
  | _ => false

/-- `testtools.content.Content` as far as results look at it: text (the decoded text), anything else (the
rendered content type), or the traceback content built from an `exc_info` -/
inductive Content | text (t : Text) | binary (ct : Text) | tb
deriving DecidableEq, Repr, Inhabited

abbrev Details := List (Text × Content)

/-- an `exc_info` triple: the caller's real exception, a `_StringException` made from details, or the
failure synthesised for an unexpected success -/
inductive Exc | real | str (msg : Text) | synth
deriving DecidableEq, Repr, Inhabited

/-- second argument of an outcome method -/
inductive Arg | none | exc (e : Exc) | reason (r : Text) | details (d : Details)
deriving DecidableEq, Repr, Inhabited

/-- a timestamp: `None`, the wall clock (whatever it was), or the `n`-th datetime of the harness -/
inductive TimeV | none | wall | at (n : Nat)
deriving DecidableEq, Repr, Inhabited

inductive Call
  | startTestRun | stopTestRun
  | startTest (t : Nat) | stopTest (t : Nat)
  | add (k : Kind) (t : Nat) (a : Arg)
  | tags (new gone : TagSet)
  | time (d : TimeV)
  | stop | done | progress
  | setFailfast (b : Bool)
deriving DecidableEq, Repr, Inhabited

def hasDupNames : List Text → Bool
  | [] => false
  | x :: xs => xs.contains x || hasDupNames xs

/-- a details dict: names are unique (an attachment called `reason` need not be text) -/
def detailsOk (d : List (Text × Content)) : Bool :=
  !hasDupNames (d.map (·.1))

/-- the argument forms a caller may use: `exc_info` or details for error/failure/expected failure, a reason
or details for skip, nothing or details for success/unexpected success -/
def argOk : Kind → Arg → Bool
  | _, .details d => detailsOk d
  | .success, .none | .uxsuccess, .none => true
  | .error, .exc .real | .failure, .exc .real | .xfail, .exc .real => true
  | .skip, .reason _ => true
  | _, _ => false

/-- a call a caller may make: argument form fits the outcome; times are `None` or a harness datetime -/
def Call.ok : Call → Bool
  | .add k _ a => argOk k a
  | .time .wall => false
  | _ => true

/-- a recorded call together with the tags current at the recorder (outcomes only, else 0) -/
structure Ev where
  call : Call
  ctags : TagSet := 0
deriving DecidableEq, Repr, Inhabited

/-! ## `_details_to_str` (exact, over code points) -/
def isSpace (c : Char) : Bool :=
  let n := c.toNat
  (9 ≤ n && n ≤ 13) || (28 ≤ n && n ≤ 32) || n == 0x85 || n == 0xa0 || n == 0x1680
  || (0x2000 ≤ n && n ≤ 0x200a) || n == 0x2028 || n == 0x2029 || n == 0x202f || n == 0x205f || n == 0x3000

def stripL (t : Text) : Text := t.dropWhile isSpace
def strip (t : Text) : Text := (stripL (stripL t).reverse).reverse

def lexLe : Text → Text → Bool
  | [], _ => true
  | _ :: _, [] => false
  | a :: as, b :: bs => a.toNat < b.toNat || (a == b && lexLe as bs)

def sortDetails (d : Details) : Details := d.mergeSort (fun a b => lexLe a.1 b.1)

def nl : Char := '\n'
def formatText (name text : Text) : Text :=
  if text.contains nl then name ++ ": {{{\n".toList ++ text ++ "\n}}}\n".toList
  else name ++ ": {{{".toList ++ text ++ "}}}".toList

def endsNl (t : Text) : Bool := t.getLast? == some nl

def joinNl : List Text → Text
  | [] => []
  | [x] => x
  | x :: xs => x ++ nl :: joinNl xs

def binaryLines (d : Details) : List Text :=
  d.filterMap fun p => match p.2 with
    | .binary ct => some ("  ".toList ++ p.1 ++ " (".toList ++ ct ++ ")\n".toList)
    | _ => none
def textOf : Content → Option Text
  | .text t => some (strip t)
  | .tb => some []
  | .binary _ => none
def emptyLines (d : Details) : List Text :=
  d.filterMap fun p => match textOf p.2 with
    | some [] => some ("  ".toList ++ p.1 ++ [nl])
    | _ => none
/-- a non-empty text attachment other than the special one, formatted -/
def textAtt (special : Option Text) (p : Text × Content) : Option Text :=
  match textOf p.2 with
  | some [] => none
  | some t => if some p.1 = special then none else some (formatText p.1 t)
  | none => none
def textAtts (special : Option Text) (d : Details) : List Text := d.filterMap (textAtt special)
def specialLine (special : Option Text) (p : Text × Content) : Option Text :=
  match textOf p.2 with
  | some [] => none
  | some t => if some p.1 = special then some (t ++ [nl]) else none
  | none => none
/-- the special attachment (the last one of that name wins; names are unique in a dict) -/
def specialContent (special : Option Text) (d : Details) : Option Text :=
  (d.filterMap (specialLine special)).getLast?

def detailsToStr (details : Details) (special : Option Text) : Text :=
  let d := sortDetails details
  let ta := textAtts special d
  let ta := if !ta.isEmpty && !(endsNl (ta.getLast?.getD [])) then ta ++ [[]] else ta
  let ta := match specialContent special d with
    | some s => ta ++ [s]
    | none => ta
  let bin := binaryLines d
  let emp := emptyLines d
  (if bin.isEmpty then [] else "Binary content:\n".toList ++ bin.flatten)
  ++ (if emp.isEmpty then [] else "Empty attachments:\n".toList ++ emp.flatten)
  ++ (if (!bin.isEmpty || !emp.isEmpty) && !ta.isEmpty then [nl] else [])
  ++ joinNl ta

def tracebackKey : Text := "traceback".toList
def reasonKey : Text := "reason".toList

def lookup (d : Details) (k : Text) : Option Content :=
  (d.reverse.find? (fun p => p.1 == k)).map (·.2)


/-! ## shapes -/
/-- flavours of recording results (the harness's own classes, after `testtools.testresult.doubles`) -/
inductive Flavour | py26 | py27 | twisted | ext
deriving DecidableEq, Repr, Inhabited

inductive Shape where
  | sink (f : Flavour)
  | tt (failfast : Bool)
  | text (failfast : Bool)
  | tbt
  | etod (c : Shape)
  | deco (c : Shape)
  | tagger (new gone : TagSet) (c : Shape)
  /-- a recording result of an old flavour that has no `failfast` (2.6, Twisted) on which somebody assigned the plain
  instance attribute `failfast = b`, before (`late = false`) or after (`late = true`) the objects above it were
  built; the result itself does not act on it, the `ExtendedToOriginalDecorator` above it reads it
  (`getattr` / `hasattr` on every use) -/
  | fsink (late b : Bool) (f : Flavour)
  /-- `ExtendedToStreamDecorator(StreamFailFast(callback))`: a stream decorator whose stream target is itself a
  `StreamFailFast` with a callback of its own (recorded) — which has nothing to do with the decorator's `failfast` -/
  | sff
  | tfr (c : Shape)
  | multi (cs : List Shape)
  | e2s (c : Shape)
deriving Repr, Inhabited

/-- what `getattr`/`hasattr`/`try … except TypeError` probes of an `ExtendedToOriginalDecorator` find -/
structure Caps where
  skip : Bool := true
  xfail : Bool := true
  uxs : Bool := true
  details : Bool := true
  tags : Bool := true
  time : Bool := true
  progress : Bool := true
  done : Bool := true
  stop : Bool := true
  startRun : Bool := true
  failfast : Bool := true
  shouldStop : Bool := true
  currentTags : Bool := true
deriving Repr, DecidableEq

def Flavour.caps : Flavour → Caps
  | .py26 => { skip := false, xfail := false, uxs := false, details := false, tags := false, time := false,
               progress := false, done := false, startRun := false, failfast := false, currentTags := false }
  | .py27 => { details := false, tags := false, time := false, progress := false, done := false, currentTags := false }
  | .twisted => { details := false, tags := false, time := false, progress := false, stop := false,
                  startRun := false, failfast := false, shouldStop := false, currentTags := false }
  | .ext => { done := false }

def caps : Shape → Caps
  | .sink f => f.caps
  | .tt _ | .text _ | .tbt => { progress := false }
  | .etod _ => {}
  | .deco _ | .tagger _ _ _ => { done := false }     -- `failfast`: a property forwarding to the decorated result
  | .fsink _ _ f => { f.caps with failfast := true }
  | .sff => { progress := false, done := false }
  | .tfr _ => {}
  | .multi _ => { progress := false }
  | .e2s _ => { progress := false, done := false }

/-! ## local states -/
/-- a recording result -/
structure Sink where
  log : List Ev := []
  ok : Bool := true
  shouldStop : Bool := false
  failfast : Bool := false
  tags : TagCtx := {}
deriving Repr, DecidableEq, Inhabited

/-- calls a recording result writes to its log (when it has the method at all) -/
def Call.logged : Call → Bool
  | .stop | .done | .setFailfast _ => false
  | _ => true

/-- own state of a `testtools.TestResult` (lists hold test ids) -/
structure TT where
  failfast : Bool := false
  shouldStop : Bool := false
  testsRun : Nat := 0
  errors : List Nat := []
  failures : List Nat := []
  xfails : List Nat := []
  uxs : List Nat := []
  skipped : List Nat := []
  now : TimeV := .none
  tags : TagCtx := {}
  log : List Ev := []          -- the harness's recording subclass logs every call before the upcall
deriving Repr, DecidableEq, Inhabited

def TT.wasSuccessful (s : TT) : Bool := s.errors.isEmpty && s.failures.isEmpty && s.uxs.isEmpty
/-- `_now()` -/
def TT.clock (s : TT) : TimeV := if s.now = .none then .wall else s.now

def sinkStep (f : Flavour) (s : Sink) (c : Call) : Sink :=
  let s := if c.logged then
      { s with log := s.log ++ [{ call := c, ctags := match c with | .add .. => (if f = .ext then s.tags.cur else 0) | _ => 0 }] }
    else s
  match c with
  | .startTest _ => if f = .ext then { s with tags := s.tags.push } else s
  | .stopTest _ => if f = .ext then { s with tags := s.tags.pop } else s
  | .add k _ _ =>
      let bad := k = .error || k = .failure || (k = .uxsuccess && f = .ext)
      let s := if bad then { s with ok := false } else s
      if f = .py27 && s.failfast && (k = .error || k = .failure || k = .uxsuccess) then { s with shouldStop := true } else s
  | .startTestRun => if f = .ext then { s with ok := true, tags := {} } else s
  | .tags n g => if f = .ext then { s with tags := s.tags.change n g } else s
  | .stop => { s with shouldStop := true }
  | .setFailfast b => { s with failfast := b }
  | _ => s

/-- `TestResult.startTestRun`: everything but `failfast` (and the log of the recording subclass) is reset -/
def TT.reset (s : TT) : TT := { failfast := s.failfast, log := s.log }

def ttStep (s : TT) (c : Call) : TT :=
  let s := if c.logged then
      { s with log := s.log ++ [{ call := c, ctags := match c with | .add .. => s.tags.cur | _ => 0 }] }
    else s
  match c with
  | .startTestRun => s.reset
  | .startTest _ => { s with testsRun := s.testsRun + 1, tags := s.tags.push }
  | .stopTest _ => { s with tags := s.tags.pop }
  | .add k t _ =>
      match k with
      | .error => { s with errors := s.errors ++ [t], shouldStop := s.shouldStop || s.failfast }
      | .failure => { s with failures := s.failures ++ [t], shouldStop := s.shouldStop || s.failfast }
      | .uxsuccess => { s with uxs := s.uxs ++ [t], shouldStop := s.shouldStop || s.failfast }
      | .xfail => { s with xfails := s.xfails ++ [t] }
      | .skip => { s with skipped := s.skipped ++ [t] }
      | .success => s
  | .tags n g => { s with tags := s.tags.change n g }
  | .time d => { s with now := d }
  | .stop => { s with shouldStop := true }
  | .setFailfast b => { s with failfast := b }
  | .stopTestRun | .done | .progress => s

/-- what `TextTestResult` writes, parsed: the banner, one section per problem, the count, the verdict -/
inductive Out
  | running
  | sect (label : Nat) (test : Nat)     -- 0 = ERROR, 1 = FAIL, 2 = UNEXPECTED SUCCESS
  | ran (n : Nat)
  | ok
  | failed (k : Nat)
deriving DecidableEq, Repr, Inhabited

structure TextSt where
  tt : TT := {}
  started : Bool := false
  out : List Out := []
deriving Repr, DecidableEq, Inhabited

def textSummary (s : TT) : List Out :=
  s.errors.map (Out.sect 0) ++ s.failures.map (Out.sect 1) ++ s.uxs.map (Out.sect 2)
  ++ [.ran s.testsRun] ++ [if s.wasSuccessful then .ok else .failed (s.failures.length + s.errors.length + s.uxs.length)]

def textStep (s : TextSt) (c : Call) : TextSt :=
  match c with
  | .startTestRun => { tt := ttStep s.tt c, started := true, out := s.out ++ [.running] }
  | .stopTestRun => { s with tt := ttStep s.tt c, out := if s.started then s.out ++ textSummary s.tt else s.out }
  | _ => { s with tt := ttStep s.tt c }

/-- the status word `TestByTestResult` reports for an outcome (`Generated.C08` is checked against it) -/
def tbtStatus : Kind → Kind
  | .uxsuccess => .success
  | k => k

/-- one `on_test` callback -/
structure TbtCall where
  test : Nat
  status : Option Kind
  start : TimeV
  stop : TimeV
  tags : TagSet
  details : Option Details
deriving DecidableEq, Repr, Inhabited

structure TbtSt where
  tt : TT := {}
  status : Option Kind := none
  details : Option Details := none
  start : TimeV := .none
  calls : List TbtCall := []
deriving Repr, DecidableEq, Inhabited

/-- `_err_to_details`: details (even an empty dict) are kept, otherwise the traceback of `err` -/
def errToDetails : Arg → Details
  | .details d => d
  | _ => [(tracebackKey, .tb)]

/-- the details `TestByTestResult` keeps for an outcome -/
def tbtDet (k : Kind) (a : Arg) : Option Details :=
  match k, a with
  | .success, .details d | .uxsuccess, .details d => some d
  | .success, _ | .uxsuccess, _ => none
  | .skip, .details d => some d
  | .skip, .reason r => some [(reasonKey, .text r)]
  | .skip, _ => none
  | _, a => some (errToDetails a)

def tbtStep (s : TbtSt) (c : Call) : TbtSt :=
  match c with
  | .startTest _ =>
      let tt := ttStep s.tt c
      { s with tt := tt, start := tt.clock, status := none, details := none }
  | .stopTest t =>
      let cb : TbtCall := { test := t, status := s.status, start := s.start, stop := s.tt.clock,
                            tags := s.tt.tags.cur, details := s.details }
      { s with tt := ttStep s.tt c, calls := s.calls ++ [cb] }
  | .add k _ a => { s with tt := ttStep s.tt c, status := some (tbtStatus k), details := tbtDet k a }
  | _ => { s with tt := ttStep s.tt c }

/-- own state of an `ExtendedToOriginalDecorator` -/
structure EtodOwn where
  tags : TagCtx := {}
  failfast : Bool := false
  shouldStop : Bool := false
deriving Repr, DecidableEq, Inhabited

/-- own state of a `ThreadsafeForwardingResult` -/
structure TfrOwn where
  tt : TT := {}
  testStart : TimeV := .none
  inTest : Bool := false
  globalTags : TagSet × TagSet := (0, 0)
  testTags : TagSet × TagSet := (0, 0)
deriving Repr, DecidableEq, Inhabited

/-- `_merge_tags` -/
def mergeTags (existing changed : TagSet × TagSet) : TagSet × TagSet :=
  (TagSet.diff (TagSet.union existing.1 changed.1) changed.2,
   TagSet.diff (TagSet.union existing.2 changed.2) changed.1)

/-- own state of an `ExtendedToStreamDecorator` + the `StreamToExtendedDecorator` behind it -/
structure E2S where
  started : Bool := false
  tags : TagCtx := {}
  shouldStop : Bool := false
  now : TimeV := .none
  failfast : Bool := false              -- a `StreamFailFast` target is installed
  testsRun : Nat := 0
  errors : List Nat := []               -- `StreamSummary.errors` (fail + incomplete)
  xfails : List Nat := []
  uxs : List Nat := []
  skipped : List Nat := []
  inprog : List (Nat × TimeV) := []     -- tests in progress with their first timestamp (both hooks see the same events)
  sent : List (Nat × TagSet) := []      -- `test_tags` of the final status events sent downstream (observed by a recorder)
deriving Repr, DecidableEq, Inhabited


/-! ## the state of an object graph -/
mutual
@[reducible] def St : Shape → Type
  | .sink _ => Sink
  | .tt _ => TT
  | .text _ => TextSt
  | .tbt => TbtSt
  | .etod c => EtodOwn × St c
  | .deco c => St c
  | .tagger _ _ c => St c
  | .fsink _ _ _ => Sink
  | .sff => E2S × Nat      -- the decorator, and how often the inner `StreamFailFast` called its callback
  | .tfr c => TfrOwn × St c
  | .multi cs => TT × StL cs
  | .e2s c => E2S × St c
@[reducible] def StL : List Shape → Type
  | [] => Unit
  | c :: cs => St c × StL cs
end

/-! ## attribute reads (`failfast`, `shouldStop`, `wasSuccessful()`, `current_tags`) -/
mutual
def failfastOf : (s : Shape) → St s → Bool
  | .sink _, st => st.failfast
  | .tt _, st => st.failfast
  | .text _, st => st.tt.failfast
  | .tbt, st => st.tt.failfast
  | .etod c, (own, inner) => if (caps c).failfast then failfastOf c inner else own.failfast
  | .deco c, st => failfastOf c st
  | .tagger _ _ c, st => failfastOf c st
  | .fsink _ _ _, st => st.failfast
  | .sff, (own, _) => own.failfast
  | .tfr _, (own, _) => own.tt.failfast
  | .multi cs, (_, inner) => (failfastL cs inner).headD false
  | .e2s _, (own, _) => own.failfast
def failfastL : (cs : List Shape) → StL cs → List Bool
  | [], _ => []
  | c :: cs, (x, xs) => failfastOf c x :: failfastL cs xs
end

mutual
def shouldStopOf : (s : Shape) → St s → Bool
  | .sink _, st => st.shouldStop
  | .tt _, st => st.shouldStop
  | .text _, st => st.tt.shouldStop
  | .tbt, st => st.tt.shouldStop
  | .etod c, (own, inner) => if (caps c).shouldStop then shouldStopOf c inner else own.shouldStop
  | .deco c, st => shouldStopOf c st
  | .tagger _ _ c, st => shouldStopOf c st
  | .fsink _ _ _, st => st.shouldStop
  | .sff, (own, _) => own.shouldStop
  | .tfr c, (_, inner) => shouldStopOf c inner
  -- `any(result.shouldStop for result in self._results)`: each target adapter's `shouldStop` property, i.e. its own
  -- `_shouldStop` for a target without the attribute
  | .multi cs, (_, inner) => (shouldStopL cs inner).any id
  | .e2s _, (own, _) => own.shouldStop
def shouldStopL : (cs : List Shape) → StL cs → List Bool
  | [], _ => []
  | c :: cs, (x, xs) => shouldStopOf c x :: shouldStopL cs xs
end

mutual
def wasSuccessfulOf : (s : Shape) → St s → Bool
  | .sink _, st => st.ok
  | .tt _, st => st.wasSuccessful
  | .text _, st => st.tt.wasSuccessful
  | .tbt, st => st.tt.wasSuccessful
  | .etod c, (_, inner) => wasSuccessfulOf c inner
  | .deco c, st => wasSuccessfulOf c st
  | .tagger _ _ c, st => wasSuccessfulOf c st
  | .fsink _ _ _, st => st.ok
  | .sff, (own, _) => own.errors.isEmpty
  | .tfr c, (_, inner) => wasSuccessfulOf c inner
  | .multi cs, (_, inner) => (wasSuccessfulL cs inner).all id
  | .e2s _, (own, _) => own.errors.isEmpty
def wasSuccessfulL : (cs : List Shape) → StL cs → List Bool
  | [], _ => []
  | c :: cs, (x, xs) => wasSuccessfulOf c x :: wasSuccessfulL cs xs
end

def currentTagsOf : (s : Shape) → St s → TagSet
  | .sink _, st => st.tags.cur
  | .tt _, st => st.tags.cur
  | .text _, st => st.tt.tags.cur
  | .tbt, st => st.tt.tags.cur
  | .etod c, (own, inner) => if (caps c).currentTags then currentTagsOf c inner else own.tags.cur
  | .deco c, st => currentTagsOf c st
  | .tagger _ _ c, st => currentTagsOf c st
  | .fsink _ _ _, st => st.tags.cur
  | .sff, (own, _) => own.tags.cur
  | .tfr _, (own, _) => own.tt.tags.cur
  | .multi _, (own, _) => own.tags.cur
  | .e2s _, (own, _) => own.tags.cur

/-! ## the adapters, written against the interface of the decorated object -/
structure Iface (σ : Type) where
  caps : Caps
  step : σ → Call → σ
  failfast : σ → Bool

section adapters
variable {σ : Type}

/-- `ExtendedToOriginalDecorator.stop` -/
def etodStop (I : Iface σ) (own : EtodOwn) (inner : σ) : EtodOwn × σ :=
  if I.caps.stop then (own, I.step inner .stop) else ({ own with shouldStop := true }, inner)

def etodFailfast (I : Iface σ) (own : EtodOwn) (inner : σ) : Bool :=
  if I.caps.failfast then I.failfast inner else own.failfast

/-- `finally: if self.failfast: self.stop()` -/
def etodFinally (I : Iface σ) (p : EtodOwn × σ) : EtodOwn × σ :=
  if etodFailfast I p.1 p.2 then etodStop I p.1 p.2 else p

/-- `_details_to_exc_info` -/
def detailsToExc (d : Details) : Arg := .exc (.str (detailsToStr d (some tracebackKey)))

/-- the reason a skip with details degrades to -/
def detailsToReason (d : Details) : Text :=
  match lookup d reasonKey with
  | some (.text r) => r
  | _ => detailsToStr d none     -- no `reason`, or one that is not text (`as_text` raises `ValueError`, caught)

def etodStep (I : Iface σ) (own : EtodOwn) (inner : σ) (c : Call) : EtodOwn × σ :=
  let fwdIf (b : Bool) : EtodOwn × σ := (own, if b then I.step inner c else inner)
  match c with
  | .add k t a =>
      let conv : Arg := match a with
        | .details d => if I.caps.details then a else detailsToExc d
        | a => a
      match k with
      | .error | .failure => etodFinally I (own, I.step inner (.add k t conv))
      | .xfail =>
          if !I.caps.xfail then (own, I.step inner (.add .success t .none))
          else (own, I.step inner (.add .xfail t conv))
      | .skip =>
          if !I.caps.skip then (own, I.step inner (.add .success t .none))
          else match a with
            | .details d => (own, I.step inner (.add .skip t (if I.caps.details then a else .reason (detailsToReason d))))
            | a => (own, I.step inner (.add .skip t a))
      | .uxsuccess =>
          if !I.caps.uxs then
            etodFinally I (etodFinally I (own, I.step inner (.add .failure t (.exc .synth))))
          else
            let a' : Arg := match a with
              | .details _ => if I.caps.details then a else .none
              | _ => .none
            etodFinally I (own, I.step inner (.add .uxsuccess t a'))
      | .success =>
          let a' : Arg := match a with
            | .details _ => if I.caps.details then a else .none
            | _ => .none
          (own, I.step inner (.add .success t a'))
  | .startTest _ => ({ own with tags := own.tags.push }, I.step inner c)
  | .stopTest _ => ({ own with tags := own.tags.pop }, I.step inner c)
  -- a new run: the adapter's own `_shouldStop` (used for targets without `shouldStop`) is cleared like `TestResult`'s
  | .startTestRun => ({ own with tags := {}, shouldStop := false }, if I.caps.startRun then I.step inner c else inner)
  | .stopTestRun => fwdIf I.caps.startRun
  | .tags n g => if I.caps.tags then (own, I.step inner c) else ({ own with tags := own.tags.change n g }, inner)
  | .time _ => fwdIf I.caps.time
  | .progress => fwdIf I.caps.progress
  | .done => fwdIf I.caps.done
  | .stop => etodStop I own inner
  | .setFailfast b => if I.caps.failfast then (own, I.step inner c) else ({ own with failfast := b }, inner)

def anyTags (p : TagSet × TagSet) : Bool := p.1 != 0 || p.2 != 0

/-- what a `ThreadsafeForwardingResult` sends to its target for one outcome -/
def tfrBlock (own : TfrOwn) (k : Kind) (t : Nat) (a : Arg) : List Call :=
  [.time own.testStart, .startTest t, .time own.tt.clock]
  ++ (if anyTags own.globalTags then [.tags own.globalTags.1 own.globalTags.2] else [])
  ++ (if anyTags own.testTags then [.tags own.testTags.1 own.testTags.2] else [])
  ++ [.add k t a, .stopTest t]

/-- failfast set on the forwarder itself: the target is told to stop after a bad outcome -/
def tfrStops (own : TfrOwn) (k : Kind) : List Call :=
  if own.tt.failfast && !k.passing then [.stop] else []

def tfrStep (I : Iface σ) (own : TfrOwn) (inner : σ) (c : Call) : TfrOwn × σ :=
  match c with
  | .add k t a =>
      -- `_stop_if_failfast()` after the block of an error / failure / unexpected success
      -- (the test's tag changes stay buffered until `stopTest`: a second outcome of the same test carries them too)
      ({ own with testStart := .none }, (tfrBlock own k t a ++ tfrStops own k).foldl I.step inner)
  | .startTestRun =>
      ({ tt := ttStep own.tt c, testStart := .none, inTest := false, globalTags := (0, 0), testTags := (0, 0) },
       I.step inner c)
  | .startTest _ => ({ own with testStart := own.tt.clock, inTest := true, tt := ttStep own.tt c }, inner)
  | .stopTest _ => ({ own with inTest := false, testTags := (0, 0), tt := ttStep own.tt c }, inner)
  | .tags n g =>
      let own := { own with tt := ttStep own.tt c }
      (if own.inTest then { own with testTags := mergeTags own.testTags (n, g) }
       else { own with globalTags := mergeTags own.globalTags (n, g) }, inner)
  | .time _ | .setFailfast _ => ({ own with tt := ttStep own.tt c }, inner)
  | .stop | .done | .stopTestRun => (own, I.step inner c)
  | .progress => (own, inner)

/-- `PlaceHolder.run(result)`: through a transient `ExtendedToOriginalDecorator` -/
def placeholderCalls (t : Nat) (k : Kind) (d : Details) (tags : TagSet) (t0 t1 : TimeV) : List Call :=
  (if t0 = .none then [] else [.time t0]) ++ [.tags tags 0, .startTest t]
  ++ (if t1 = .none then [] else [.time t1]) ++ [.add k t (.details d), .stopTest t, .tags 0 tags]

def placeholderRun (I : Iface σ) (inner : σ) (cs : List Call) : σ :=
  (cs.foldl (fun (p : EtodOwn × σ) c => etodStep I p.1 p.2 c) ({}, inner)).2

/-- a file event with no bytes leaves no attachment behind -/
def Content.nonEmpty : Content → Bool
  | .text [] => false
  | _ => true

def e2sStart (I : Iface σ) (own : E2S) (inner : σ) : E2S × σ :=
  ({ started := true, failfast := own.failfast, sent := own.sent }, I.step inner .startTestRun)

def e2sAuto (I : Iface σ) (own : E2S) (inner : σ) : E2S × σ :=
  if own.started then (own, inner) else e2sStart I own inner

def E2S.clock (s : E2S) : TimeV := if s.now = .none then .wall else s.now

/-- status → outcome method (`_status_map`): errors arrive as failures -/
def streamKind : Kind → Kind
  | .error => .failure
  | k => k

def e2sStep (I : Iface σ) (own : E2S) (inner : σ) (c : Call) : E2S × σ :=
  match c with
  | .startTestRun => e2sStart I own inner
  | .startTest t =>
      let (own, inner) := e2sAuto I own inner
      let inprog := if own.inprog.any (·.1 == t) then own.inprog else own.inprog ++ [(t, own.clock)]
      ({ own with inprog := inprog, tags := own.tags.push }, inner)
  | .stopTest _ => ({ own with tags := own.tags.pop }, inner)
  | .add k t a =>
      let (own, inner) := e2sAuto I own inner
      let ts := own.clock
      let det : Details := match a with
        | .exc _ => [(tracebackKey, .tb)]
        | .details d => d
        | .reason r => [(reasonKey, .text r)]
        | .none => []
      let det := det.filter (·.2.nonEmpty)
      let k' := streamKind k
      let first := match own.inprog.find? (·.1 == t) with
        | some p => p.2
        | none => ts
      let own := { own with inprog := own.inprog.filter (·.1 != t), testsRun := own.testsRun + 1,
                            sent := own.sent ++ [(t, own.tags.cur)] }
      let own := match k' with
        | .failure => { own with errors := own.errors ++ [t] }
        | .xfail => { own with xfails := own.xfails ++ [t] }
        | .uxsuccess => { own with uxs := own.uxs ++ [t] }
        | .skip => { own with skipped := own.skipped ++ [t] }
        | _ => own
      let inner := placeholderRun I inner (placeholderCalls t k' det own.tags.cur first ts)
      let own := if own.failfast && (k' = .failure || k' = .uxsuccess) then { own with shouldStop := true } else own
      (own, inner)
  | .stopTestRun =>
      if !own.started then (own, inner) else
      let pend := own.inprog.reverse
      let inner := pend.foldl (fun st p => placeholderRun I st (placeholderCalls p.1 .failure [] 0 p.2 .none)) inner
      ({ own with inprog := [], testsRun := own.testsRun + pend.length, errors := own.errors ++ pend.map (·.1) },
       I.step inner .stopTestRun)
  | .tags n g => (if own.started then { own with tags := own.tags.change n g } else own, inner)
  | .time d => ({ own with now := d }, inner)
  | .stop => ({ own with shouldStop := true }, inner)
  | .setFailfast b => ({ own with failfast := b }, inner)
  | .done | .progress => (own, inner)
end adapters

/-- a stream target that is no result (nothing to replay the events to) -/
def nullTarget : Iface Unit := ⟨{}, fun _ _ => (), fun _ => false⟩

/-- `TestResult.startTestRun` / `startTest` / `stopTest` / `tags` on the `MultiTestResult` object itself -/
def multiOwn (own : TT) (c : Call) : TT :=
  match c with
  | .startTestRun | .startTest _ | .stopTest _ | .tags _ _ => ttStep own c
  | _ => own

/-! ## the step function -/
mutual
def step : (s : Shape) → St s → Call → St s
  | .sink f, st, c => sinkStep f st c
  | .tt _, st, c => ttStep st c
  | .text _, st, c => textStep st c
  | .tbt, st, c => tbtStep st c
  | .etod ch, (own, inner), c => etodStep ⟨caps ch, step ch, failfastOf ch⟩ own inner c
  | .deco ch, st, c =>
      match c with
      | .done => st
      | c => step ch st c        -- (an assignment of `failfast` goes to the decorated result)
  | .tagger n g ch, st, c =>
      match c with
      | .done => st
      | .startTest t => step ch (step ch st (.startTest t)) (.tags n g)
      | c => step ch st c
  | .fsink _ _ f, st, c => sinkStep f st c     -- (an assignment through the adapter above lands in the attribute)
  | .sff, (own, n), c =>
      -- the decorator as over any stream target; the inner `StreamFailFast` sees the final status events only:
      -- `fail` (an error or a failure) and `uxsuccess` call its callback
      ((e2sStep nullTarget own () c).1, match c with | .add k _ _ => if k.passing then n else n + 1 | _ => n)
  | .tfr ch, (own, inner), c => tfrStep ⟨caps ch, step ch, failfastOf ch⟩ own inner c
  | .multi cs, (own, inner), c =>
      -- (`_keeping_failfast`: the base class's assignments to `failfast` during `startTestRun` are ignored)
      match c with
      | .progress => (own, inner)
      | c => (multiOwn own c, stepL cs inner c)
  | .e2s ch, (own, inner), c => e2sStep ⟨caps ch, step ch, failfastOf ch⟩ own inner c
def stepL : (cs : List Shape) → StL cs → Call → StL cs
  | [], _, _ => ()
  | c :: cs, (x, xs), call => (step c x call, stepL cs xs call)
end

/-! ## construction -/
mutual
def init : (s : Shape) → St s
  | .sink _ => ({} : Sink)
  | .tt ff => ({ failfast := ff } : TT)
  | .text ff => ({ tt := { failfast := ff } } : TextSt)
  | .tbt => ({} : TbtSt)
  | .etod c => (({} : EtodOwn), init c)
  | .deco c => init c
  | .tagger _ _ c => init c
  | .fsink _ b _ => ({ failfast := b } : Sink)
  | .sff => (({} : E2S), 0)
  | .tfr c => (({} : TfrOwn), init c)
  | .multi cs =>
      -- `_keeping_failfast(super().__init__)`: constructing the wrapper assigns nothing to the wrapped results
      (({} : TT), initL cs)
  | .e2s c => (({} : E2S), init c)
def initL : (cs : List Shape) → StL cs
  | [] => ()
  | c :: cs => (init c, initL cs)
end

def run (s : Shape) (st : St s) (h : List Call) : St s := h.foldl (step s) st


/-! ## observation: the leaves of the graph, left to right -/
inductive LeafSt
  | sink (f : Flavour) (s : Sink)
  | tt (s : TT)
  | text (s : TextSt)
  | tbt (s : TbtSt)
deriving Repr

def LeafSt.log : LeafSt → List Ev
  | .sink _ s => s.log
  | .tt s => s.log
  | .text s => s.tt.log
  | .tbt s => s.tt.log

def LeafSt.calls : LeafSt → List TbtCall
  | .tbt s => s.calls
  | _ => []

mutual
def leaves : (s : Shape) → St s → List LeafSt
  | .sink f, st => [.sink f st]
  | .tt _, st => [.tt st]
  | .text _, st => [.text st]
  | .tbt, st => [.tbt st]
  | .etod c, (_, inner) => leaves c inner
  | .deco c, st => leaves c st
  | .tagger _ _ c, st => leaves c st
  | .fsink _ _ f, st => [.sink f st]
  | .sff, _ => []
  | .tfr c, (_, inner) => leaves c inner
  | .multi cs, (_, inner) => leavesL cs inner
  | .e2s c, (_, inner) => leaves c inner
def leavesL : (cs : List Shape) → StL cs → List LeafSt
  | [], _ => []
  | c :: cs, (x, xs) => leaves c x ++ leavesL cs xs
end

/-! ## static predicates on shapes -/
mutual
/-- a bare recording result of an old flavour only occurs directly under an `ExtendedToOriginalDecorator`;
`MultiTestResult`, `ThreadsafeForwardingResult`, `StreamToExtendedDecorator` hold their targets through one;
a `MultiTestResult` has at least one target; a `failfast` instance attribute is assigned only on a flavour that has
none of its own -/
def Shape.wf : Shape → Bool
  | .sink f => f == .ext
  | .tt _ | .text _ | .tbt => true
  | .etod (.sink _) => true
  | .etod (.fsink _ _ f) => !f.caps.failfast
  | .etod c => c.wf
  | .fsink _ _ _ => false
  | .sff => true
  | .deco c | .tagger _ _ c => c.wf
  | .tfr (.etod c) | .e2s (.etod c) => (Shape.etod c).wf
  | .tfr _ | .e2s _ => false
  | .multi [] => false
  | .multi cs => Shape.wfL cs
def Shape.wfL : List Shape → Bool
  | [] => true
  | .etod c :: cs => (Shape.etod c).wf && Shape.wfL cs
  | _ :: _ => false
end

mutual
def Shape.noStream : Shape → Bool
  | .e2s _ | .sff => false
  | .etod c | .deco c | .tagger _ _ c | .tfr c => c.noStream
  | .multi cs => Shape.noStreamL cs
  | _ => true
def Shape.noStreamL : List Shape → Bool
  | [] => true
  | c :: cs => c.noStream && Shape.noStreamL cs
end

mutual
def Shape.hasTfr : Shape → Bool
  | .tfr _ => true
  | .etod c | .deco c | .tagger _ _ c | .e2s c => c.hasTfr
  | .multi cs => Shape.hasTfrL cs
  | _ => false
def Shape.hasTfrL : List Shape → Bool
  | [] => false
  | c :: cs => c.hasTfr || Shape.hasTfrL cs
end

mutual
def Shape.hasTbt : Shape → Bool
  | .tbt => true
  | .etod c | .deco c | .tagger _ _ c | .e2s c | .tfr c => c.hasTbt
  | .multi cs => Shape.hasTbtL cs
  | _ => false
def Shape.hasTbtL : List Shape → Bool
  | [] => false
  | c :: cs => c.hasTbt || Shape.hasTbtL cs
end

/-- `startTest` / outcome / `stopTest` -/
def Call.isTestEv : Call → Bool
  | .startTest _ | .stopTest _ | .add .. => true
  | _ => false

def testEvs (h : List Call) : List Call := h.filter Call.isTestEv

end TTV.Result
