/-! M-Match: model of the stock matchers of `testtools/matchers/*.py` (C06, C07).

* `V`      : the value universe the harness draws matchees / constructor arguments from
* `Leaf`/`M` : the matcher AST (leaves = matchers without sub-matchers; `M` = combinators)
* `matchImpl : Bool → M → V → Verdict` follows the *algorithms of the code* (what `match()` does,
  including which exception propagates for values outside a matcher's domain).  The `Bool` selects
  which of the two builds of the expression is evaluated (they differ in the hash-set order of the
  matchers of every `MatchesSetwise` node, which the verdict used to depend on; it no longer does)
  (`set(self.matchers)` iterates in an order that depends on object addresses; the harness forces the
  order given in the input, see `harness/props/c06.py`).

Import-free (the driver links against it).

Modelling conventions (validated by the correspondence check, see `assumptions` in c06.py):
* dict keys / attribute names are `Nat`s (`k` ↦ the one-letter string `chr(97+k)`); dicts and objects
  are built with ascending keys, so that Python's `==` is structural equality on `V`;
* exception instances, exc_info tuples, objects and callables are interned by the harness, so
  identity (`is`, tuple/`Exception` equality) is structural equality too. -/
namespace TTV.Matchers

/-! ## exceptions -/
inductive ExcCls
  | baseException | exception | typeError | attributeError | valueError | lookupError | keyError
  | assertionError | keyboardInterrupt | systemExit | notImplementedError
  /- user-defined classes of the harness (round g): `MetaError(Exception, metaclass=abc.ABCMeta)`, `MetaSub(MetaError)`,
  `MetaValueError(ValueError, metaclass=<a subclass of type>)`, `OddError(LookupError)` (`__slots__`, an `__eq__` of its own:
  same class and args), `StrRaisesError(Exception)` (its `__str__` raises ValueError), `UserInterrupt(KeyboardInterrupt)`,
  `UserExit(SystemExit)`.  To the matchers they are classes like any other: only `issubclass` counts. -/
  | metaError | metaSub | metaValueError | oddError | strRaisesError | userInterrupt | userExit
  | unstable     -- pseudo class: two calls of describe() / str() on the same object gave different text
  | oracleMiss   -- pseudo class: an opaque leaf was asked about a value its table does not list
  | anyCls       -- pseudo class: canonical form of a propagated class that depends on dict/set order
deriving DecidableEq, Repr

/-- the class itself followed by its base classes -/
def ExcCls.ancestors : ExcCls → List ExcCls
  | .baseException => [.baseException]
  | .exception => [.exception, .baseException]
  | .typeError => [.typeError, .exception, .baseException]
  | .attributeError => [.attributeError, .exception, .baseException]
  | .valueError => [.valueError, .exception, .baseException]
  | .lookupError => [.lookupError, .exception, .baseException]
  | .keyError => [.keyError, .lookupError, .exception, .baseException]
  | .assertionError => [.assertionError, .exception, .baseException]
  | .keyboardInterrupt => [.keyboardInterrupt, .baseException]
  | .systemExit => [.systemExit, .baseException]
  | .notImplementedError => [.notImplementedError, .exception, .baseException]
  | .metaError => [.metaError, .exception, .baseException]
  | .metaSub => [.metaSub, .metaError, .exception, .baseException]
  | .metaValueError => [.metaValueError, .valueError, .exception, .baseException]
  | .oddError => [.oddError, .lookupError, .exception, .baseException]
  | .strRaisesError => [.strRaisesError, .exception, .baseException]
  | .userInterrupt => [.userInterrupt, .keyboardInterrupt, .baseException]
  | .userExit => [.userExit, .systemExit, .baseException]
  | .unstable => [.unstable]
  | .oracleMiss => [.oracleMiss]
  | .anyCls => [.anyCls]

/-- `issubclass(a, b)` -/
def isSub (a b : ExcCls) : Bool := a.ancestors.contains b
/-- `isinstance(e, Exception)` (`_is_user_exception`) -/
def isUser (c : ExcCls) : Bool := isSub c .exception

/-- an exception instance: its class and its single integer argument (`args == (arg,)`) -/
structure Exc where
  cls : ExcCls
  arg : Int
deriving DecidableEq, Repr

/-! ## values -/
/-- a field of a tuple key: an int or the one-letter string `chr(97+c)` -/
inductive KField | int (n : Int) | str (c : Nat)
deriving DecidableEq, Repr

/-- dict keys: the one-letter string `chr(97+c)`, an int, a bytes object, `None`, a tuple of ints and
one-letter strings — key sets may mix them freely: keys of different types cannot be ordered with each
other, and neither can two tuples such as `(1, 'a')` and `('a', 1)` -/
inductive Key
  | str (c : Nat) | int (n : Int) | bytes (b : List Nat) | none | tup (xs : List KField)
deriving DecidableEq, Repr

inductive V
  | int (n : Int)
  | str (s : List Nat)                                -- code points
  | bytes (b : List Nat)
  | none
  | list (xs : List V)
  | tuple (xs : List V)                               -- a plain tuple (exc_info tuples: `exc _ true`)
  | dict (ks : List Key) (vs : List V)                -- parallel lists, insertion order
  | obj (tag : Nat) (attrs : List Nat) (vs : List V)  -- instance of harness class `Obj<tag>`
  | exc (e : Exc) (info : Bool)                       -- info: the exc_info tuple `(type, e, tb)`; else `e` itself
  | fnRet (v : V)                                     -- callable returning `v`
  | fnRaise (e : Exc)                                 -- callable raising `e`
deriving Repr, Inhabited

/- structural equality (= Python `==` under the conventions above) -/
mutual
def veq : V → V → Bool
  | .int a, .int b => a == b
  | .str a, .str b => a == b
  | .bytes a, .bytes b => a == b
  | .none, .none => true
  | .list a, .list b => veqL a b
  | .tuple a, .tuple b => veqL a b
  | .dict ka va, .dict kb vb => ka == kb && veqL va vb
  | .obj t ka va, .obj t' kb vb => t == t' && ka == kb && veqL va vb
  | .exc e i, .exc e' i' => e == e' && i == i'
  | .fnRet a, .fnRet b => veq a b
  | .fnRaise e, .fnRaise e' => e == e'
  | _, _ => false
def veqL : List V → List V → Bool
  | [], [] => true
  | a :: as, b :: bs => veq a b && veqL as bs
  | _, _ => false
end

inductive Verdict
  | «match»                -- `match()` returned `None`
  | mismatch               -- `match()` returned a `Mismatch`
  | raised (c : ExcCls)    -- `match()` let an exception of class `c` propagate
deriving DecidableEq, Repr, Inhabited

def Verdict.ofBool (b : Bool) : Verdict := if b then .match else .mismatch
def Verdict.isMatch : Verdict → Bool
  | .match => true
  | _ => false

/-! ## Python primitives on `V` -/
def keyV : Key → V
  | .str c => .str [97 + c]
  | .int n => .int n
  | .bytes b => .bytes b
  | .none => .none
  | .tup xs => .tuple (xs.map fun f => match f with | .int n => V.int n | .str c => V.str [97 + c])

def fieldsOf : List V → Option (List KField)
  | [] => some []
  | .int n :: r => (fieldsOf r).map (.int n :: ·)
  | .str [c] :: r => if 97 ≤ c then (fieldsOf r).map (.str (c - 97) :: ·) else Option.none
  | _ :: _ => Option.none

/-- the dict key a value is, if it is one of the universe (other hashable values are never keys of the
dicts the harness builds; unhashable ones make `in` raise a `TypeError`, which `Contains` catches) -/
def toKey : V → Option Key
  | .str [c] => if 97 ≤ c then some (.str (c - 97)) else Option.none
  | .int n => some (.int n)
  | .bytes b => some (.bytes b)
  | .none => some .none
  | .tuple xs => (fieldsOf xs).map .tup
  | _ => Option.none

/-- `iter(v)`; `none` = `TypeError` (exc_info tuples are iterable in Python but their members are not in
`V`: the harness never lets one be iterated) -/
def pyIter : V → Option (List V)
  | .list xs => some xs
  | .tuple xs => some xs
  | .dict ks _ => some (ks.map keyV)
  | .str s => some (s.map fun c => .str [c])
  | .bytes b => some (b.map fun c => .int (Int.ofNat c))
  | _ => none

/-- `len(v)`; `none` = `TypeError` -/
def pyLen : V → Option Nat
  | .list xs => some xs.length
  | .tuple xs => some xs.length
  | .dict ks _ => some ks.length
  | .str s => some s.length
  | .bytes b => some b.length
  | .exc _ true => some 3
  | _ => none

def lexLt : List Nat → List Nat → Bool
  | [], [] => false
  | [], _ :: _ => true
  | _ :: _, [] => false
  | a :: as, b :: bs => a < b || (a == b && lexLt as bs)

/- `a < b`; `none` = `TypeError`.  Lists: first position where the elements are unequal decides. -/
mutual
def pyLt : V → V → Option Bool
  | .int a, .int b => some (a < b)
  | .str a, .str b => some (lexLt a b)
  | .bytes a, .bytes b => some (lexLt a b)
  | .list a, .list b => pyLtL a b
  | .tuple a, .tuple b => pyLtL a b
  | _, _ => Option.none
def pyLtL : List V → List V → Option Bool
  | [], [] => some false
  | [], _ :: _ => some true
  | _ :: _, [] => some false
  | a :: as, b :: bs => if veq a b then pyLtL as bs else pyLt a b
end

def infixB : List Nat → List Nat → Bool
  | needle, [] => needle.isEmpty
  | needle, c :: cs => needle.isPrefixOf (c :: cs) || infixB needle cs

def lookupKey (k : Nat) : List Nat → List V → Option V
  | k' :: ks, v :: vs => if k == k' then some v else lookupKey k ks vs
  | _, _ => Option.none

/-- `d[k]` -/
def lookupK (k : Key) : List Key → List V → Option V
  | k' :: ks, v :: vs => if k == k' then some v else lookupK k ks vs
  | _, _ => Option.none

/-- `needle in matchee` as `Contains.match` sees it: `TypeError` and `ValueError` (`300 in b'..'`) are
caught there and mean "not contained". -/
def pyContains (needle : V) : V → Verdict
  | .list xs => .ofBool (xs.any (veq needle))
  | .tuple xs => .ofBool (xs.any (veq needle))
  | .dict ks _ => match toKey needle with
      | some k => .ofBool (ks.contains k)
      | none => .mismatch                   -- no key of the universe; unhashable needles: TypeError, caught
  | .str s => match needle with
      | .str n => .ofBool (infixB n s)
      | _ => .mismatch
  | .bytes b => match needle with
      | .bytes n => .ofBool (infixB n b)
      | .int n => if 0 ≤ n ∧ n < 256 then .ofBool (b.contains n.toNat) else .mismatch   -- ValueError, caught too
      | _ => .mismatch
  | _ => .mismatch

/-- `matchee.startswith(e)` / `endswith` -/
def pyAffix (suffix : Bool) (e : V) : V → Verdict
  | .str s => match e with
      | .str p => .ofBool (if suffix then p.isSuffixOf s else p.isPrefixOf s)
      | _ => .raised .typeError
  | .bytes s => match e with
      | .bytes p => .ofBool (if suffix then p.isSuffixOf s else p.isPrefixOf s)
      | _ => .raised .typeError
  | _ => .raised .attributeError

inductive TypeTag
  | int | str | bytes | list | dict | tuple | noneType | obj (k : Nat) | exc (c : ExcCls) | object
deriving DecidableEq, Repr

def isInstance (v : V) : TypeTag → Bool
  | .object => true
  | .int => match v with | .int _ => true | _ => false
  | .str => match v with | .str _ => true | _ => false
  | .bytes => match v with | .bytes _ => true | _ => false
  | .list => match v with | .list _ => true | _ => false
  | .dict => match v with | .dict _ _ => true | _ => false
  | .tuple => match v with | .exc _ true => true | .tuple _ => true | _ => false
  | .noneType => match v with | .none => true | _ => false
  | .obj k => match v with | .obj t _ _ => t == k | _ => false
  | .exc c => match v with | .exc e false => isSub e.cls c | _ => false

/-- `list_subtract(a, b)` (testtools/helpers.py): `a` without one occurrence of every element of `b` -/
def eraseV (x : V) : List V → List V
  | [] => []
  | a :: as => if veq a x then as else a :: eraseV x as
def listSubtract (a b : List V) : List V := b.foldl (fun acc x => eraseV x acc) a

/-- the same keys with the same multiplicities (how the keys happen to be ordered plays no role) -/
def sameKeys (a b : List Key) : Bool := (a ++ b).all fun k => a.count k == b.count k

/-- what calling a value does: `Sum.inl r` returned, `Sum.inr e` raised -/
def callV : V → Sum V Exc
  | .fnRet r => .inl r
  | .fnRaise e => .inr e
  | _ => .inr ⟨.typeError, -1⟩            -- "object is not callable", raised inside Raises' `try`

/-! ## matcher AST -/
/-- shape of the message of a `MatchesPredicate`: exactly one conversion (`'%s is not even'`, what the
docstring asks for), none (`'odd'`), the empty string, two (`'%s %s'`) -/
inductive MsgKind | one | zero | empty | two
deriving DecidableEq, Repr

inductive Leaf
  | equals (e : V) | notEquals (e : V) | is_ (e : V) | lessThan (e : V) | greaterThan (e : V)
  | sameMembers (e : List V) | startsWith (e : V) | endsWith (e : V) | contains (e : V)
  | isInstance (ts : List TypeTag) | hasLength (n : Int) | always | never | keysEqual (ks : List Key)
  | excType (cs : List ExcCls)       -- MatchesException(<type or tuple of types>)
  | excInst (e : Exc)                -- MatchesException(<instance>)
  | raisesAny                        -- Raises()
  /-- a matcher whose meaning lives in another library (`MatchesRegex`, `DocTestMatches`, filesystem
  matchers, `Warnings`, `MatchesPredicate` over a foreign predicate): verdict table from the harness's
  independent oracle. -/
  | opaque (id : Nat) (dom : List V) (res : List Verdict)
  /-- `MatchesPredicate(predicate, message)` over a harness predicate (oracle table as for `opaque`); the
  mismatch is built with `message % (matchee,)`, `msg` says how many `%` conversions the message has -/
  | predicate (id : Nat) (msg : MsgKind) (dom : List V) (res : List Verdict)
deriving Repr

inductive DictKind | exact | contains | containedBy
deriving DecidableEq, Repr

/-- the preprocessing functions the harness uses with `AfterPreprocessing` -/
inductive PreFn | ident | wrap | len | strOf
deriving DecidableEq, Repr

inductive M
  | leaf (l : Leaf)
  | excTypeV (cs : List ExcCls) (vm : M)      -- MatchesException(<type>, <value matcher>)
  | raises (em : M)                           -- Raises(<exception matcher>)
  | not (m : M)
  | all (firstOnly : Bool) (ms : List M)
  | any (ms : List M)
  | allMatch (m : M)
  | anyMatch (m : M)
  | listwise (firstOnly : Bool) (ms : List M)
  /-- `ka`/`kb`: slot of each matcher in a hash set of the matchers, for the two builds of the expression
  (the pinned tree iterated `set(self.matchers)`; the verdict no longer depends on it, the harness still
  builds the expression twice with these orders forced) -/
  | setwise (ka kb : List Nat) (ms : List M)
  | structure (attrs : List Nat) (ms : List M)
  | dict (kind : DictKind) (ks : List Key) (ms : List M)
  | annotate (m : M)
  | after (f : PreFn) (annot : Bool) (m : M)
deriving Repr

/-! ## leaves -/
def lookupTbl (v : V) : List V → List Verdict → Verdict
  | d :: ds, r :: rs => if veq d v then r else lookupTbl v ds rs
  | _, _ => .raised .oracleMiss

def excTypeMatches (cs : List ExcCls) (e : Exc) : Bool := cs.any (isSub e.cls)

/-- `MatchesException.match` on a tuple that is no exc_info: `issubclass(other[0], …)` raises `IndexError`
(empty tuple) or `TypeError` (`other[0]` is no class) -/
def plainTupleExc : List V → Verdict
  | [] => .raised .lookupError
  | _ :: _ => .raised .typeError

/-- does `message % (matchee,)` raise `TypeError`?  The matchee is always passed as ONE argument (a
tuple matchee too), so exactly the messages with one conversion format. -/
def fmtErr (msg : MsgKind) : Bool := msg != .one

/-- is the value an exception instance whose `__str__` raises (ValueError)?  `'%s' % (x,)` calls it. -/
def strRaises : V → Bool
  | .exc e false => e.cls == .strRaisesError
  | _ => false
/-- does the message ask for `str()` of its (first) argument before anything else can go wrong? -/
def fmtStr (msg : MsgKind) : Bool := msg == .one || msg == .two

def leafImpl : Leaf → V → Verdict
  | .equals e, v => .ofBool (veq v e)
  | .notEquals e, v => .ofBool (!veq v e)
  | .is_ e, v => .ofBool (veq v e)
  | .lessThan e, v => match pyLt v e with
      | some b => .ofBool b
      | none => .raised .typeError
  | .greaterThan e, v => match pyLt e v with
      | some b => .ofBool b
      | none => .raised .typeError
  | .sameMembers e, v => match pyIter v with
      | some xs => .ofBool ((listSubtract e xs).isEmpty && (listSubtract xs e).isEmpty)
      | none => .raised .typeError
  | .startsWith e, v => pyAffix false e v
  | .endsWith e, v => pyAffix true e v
  | .contains e, v => pyContains e v
  | .isInstance ts, v => .ofBool (ts.any (isInstance v))
  | .hasLength n, v => match pyLen v with
      | some k => .ofBool (Int.ofNat k == n)
      | none => .raised .typeError
  | .always, _ => .match
  | .never, _ => .mismatch
  | .keysEqual ks, v => match v with
      | .dict ks' _ => .ofBool (sameKeys ks ks')
      | _ => .raised .attributeError
  | .excType cs, v => match v with
      | .exc e true => .ofBool (excTypeMatches cs e)
      | .tuple xs => plainTupleExc xs
      | _ => .mismatch                                   -- "is not an exc_info tuple"
  | .excInst x, v => match v with
      | .exc e true => .ofBool (isSub e.cls x.cls && e.arg == x.arg)
      | .tuple xs => plainTupleExc xs
      | _ => .mismatch
  | .raisesAny, v => match callV v with
      | .inl _ => .mismatch                              -- "returned"
      | .inr e => if isUser e.cls then .match else .raised e.cls
  | .opaque _ dom res, v => lookupTbl v dom res
  | .predicate _ msg dom res, v => match lookupTbl v dom res with
      | .mismatch =>                                                         -- Mismatch(self.message % (x,))
          if strRaises v && fmtStr msg then .raised .valueError               -- the first `%s` calls a `__str__` that raises
          else if fmtErr msg then .raised .typeError else .mismatch
      | r => r

/-! ## sequencing of already computed verdicts
The model is pure, so `match()` of every part can be computed up front; the loops of the code (which
stop at the first exception, and sometimes at the first (mis)match) are replayed over the results. -/

/-- a loop that visits the results in order, remembers whether a mismatch was seen (`bad`), returns at
once on an exception — and on a mismatch when `firstOnly`. -/
def seqAllAux (firstOnly : Bool) : Bool → List Verdict → Verdict
  | bad, [] => if bad then .mismatch else .match
  | bad, .match :: rs => seqAllAux firstOnly bad rs
  | _, .mismatch :: rs => if firstOnly then .mismatch else seqAllAux firstOnly true rs
  | _, .raised c :: _ => .raised c
def seqAll (firstOnly : Bool) (rs : List Verdict) : Verdict := seqAllAux firstOnly false rs

/-- a loop that returns at the first match -/
def seqAny : List Verdict → Verdict
  | [] => .mismatch
  | .match :: _ => .match
  | .mismatch :: rs => seqAny rs
  | .raised c :: _ => .raised c

def applyPre : PreFn → V → Except ExcCls V
  | .ident, v => .ok v
  | .wrap, v => .ok (.list [v])
  | .len, v => match pyLen v with
      | some n => .ok (.int (Int.ofNat n))
      | none => .error .typeError
  | .strOf, v => match v with           -- harness function: `str()` of an int / an exception instance
      | .int n => .ok (.str ((toString n).toList.map Char.toNat))
      | .exc e false =>
          if e.cls == .strRaisesError then .error .valueError        -- its `__str__` raises
          else .ok (.str ((toString e.arg).toList.map Char.toNat))
      | _ => .error .typeError

/-! ### MatchesSetwise: pairing of the values with the matchers -/

/- stable insertion sort of keyed items (structural, so that closed terms evaluate by `decide`) -/
def insertKey {α : Type} (x : Nat × α) : List (Nat × α) → List (Nat × α)
  | [] => [x]
  | y :: ys => if x.1 < y.1 then x :: y :: ys else y :: insertKey x ys
def sortKey {α : Type} : List (Nat × α) → List (Nat × α)
  | [] => []
  | x :: xs => insertKey x (sortKey xs)

/-- is there a one-to-one pairing of the values (rows of `matrix`: which matchers accept the value) with
the matcher indices `rem` that uses every index?  Tries every choice. -/
def assignB : List (List Bool) → List Nat → Bool
  | [], rem => rem.isEmpty
  | row :: rows, rem => rem.any fun i => row.getD i false && assignB rows (rem.erase i)

def firstRaise : List Verdict → Option ExcCls
  | [] => none
  | .raised c :: _ => some c
  | _ :: rs => firstRaise rs

/-- `MatchesSetwise.match`: every matcher is asked about every value exactly once (value by value, the
matchers in the order given): the first exception propagates.  Then as many values as possible are
paired with matchers (augmenting paths); the verdict is a match iff nothing is left over on either side,
i.e. iff a one-to-one pairing of all values with all matcher *occurrences* exists (a matcher object given
twice counts twice) — the pairing algorithm itself is
not transcribed, its outcome is computed by exhaustive search (`assignB`).  All the left-over branches
return a Mismatch (the last one re-matches left-over matchers against left-over values listwise: in a
maximum pairing no left-over matcher accepts a left-over value). -/
def setwiseImpl (rowOf : V → List Verdict) (n : Nat) (v : V) : Verdict :=
  match pyIter v with
  | none => .raised .typeError
  | some xs =>
    let rows := xs.map rowOf
    match firstRaise rows.flatten with
    | some c => .raised c
    | none => .ofBool (assignB (rows.map fun r => r.map Verdict.isMatch) (List.range n))

/-! ### dict matchers and MatchesStructure -/
def somes : List (Option Verdict) → List Verdict
  | [] => []
  | none :: rs => somes rs
  | some r :: rs => r :: somes rs

/-- `_CombinedMatcher.match`: the labelled parts in the order of `matcher_factories` ("Extra", "Missing",
"Differences"); only "Differences" can raise; the verdict is a mismatch iff some part is. -/
def dictImpl (kind : DictKind) (ks : List Key) (diffs : List (Option Verdict)) : V → Verdict
  | .dict oks _ =>
    let extra := oks.any (fun k => !ks.contains k)
    let missing := ks.any (fun k => !oks.contains k)
    let own := match kind with
      | .exact => extra || missing
      | .contains => missing
      | .containedBy => extra
    seqAllAux false own (somes diffs)
  | _ => .raised .typeError

def getAttr (v : V) (a : Nat) : Option V :=
  match v with
  | .obj _ attrs vs => lookupKey a attrs vs
  | _ => none

/-- `MatchesStructure.match`: `getattr` of every attribute first (`AttributeError` if one is missing),
then `MatchesListwise` over the attributes in sorted order (`sorted(self.kws.items())`) -/
def structImpl (attrs : List Nat) (rs : List (Option Verdict)) : Verdict :=
  if rs.any Option.isNone || rs.length != attrs.length then .raised .attributeError
  else seqAll false (somes ((sortKey (attrs.zip rs)).map (·.2)))

/-- `MatchesListwise.match` given the per-position results -/
def listwiseImpl (firstOnly : Bool) (n : Nat) (rs : List Verdict) (v : V) : Verdict :=
  match pyLen v with
  | none => .raised .typeError
  | some len => seqAllAux firstOnly (len != n) rs

/-! ## the matcher semantics of the code -/
mutual
def matchImpl (sel : Bool) : M → V → Verdict
  | .leaf l, v => leafImpl l v
  | .excTypeV cs vm, v => match v with
      | .exc e true => if excTypeMatches cs e then matchImpl sel vm (.exc e false) else .mismatch
      | .tuple xs => plainTupleExc xs
      | _ => .mismatch
  | .raises em, v => match callV v with
      | .inl _ => .mismatch
      | .inr e => match matchImpl sel em (.exc e true) with
          | .match => .match
          | .raised c => .raised c
          | .mismatch => if isUser e.cls then .mismatch else .raised e.cls
  | .not m, v => match matchImpl sel m v with
      | .match => .mismatch
      | .mismatch => .match
      | .raised c => .raised c
  | .all fo ms, v => seqAll fo (matchRow sel ms v)
  | .any ms, v => seqAny (matchRow sel ms v)
  | .allMatch m, v => match pyIter v with
      | none => .raised .typeError
      | some xs => seqAll false (xs.map (matchImpl sel m))
  | .anyMatch m, v => match pyIter v with
      | none => .raised .typeError
      | some xs => seqAny (xs.map (matchImpl sel m))
  | .listwise fo ms, v => match pyIter v with
      | none => .raised .typeError
      | some xs => listwiseImpl fo ms.length (somes (matchZip sel ms (xs.map some))) v
  | .setwise _ _ ms, v => setwiseImpl (fun x => matchRow sel ms x) ms.length v
  | .structure attrs ms, v => structImpl attrs (matchZip sel ms (attrs.map (getAttr v)))
  | .dict kind ks ms, v => match v with
      | .dict oks ovs => dictImpl kind ks (matchZip sel ms (ks.map fun k => lookupK k oks ovs)) v
      | _ => .raised .typeError
  | .annotate m, v => matchImpl sel m v
  | .after f _ m, v => match applyPre f v with
      | .ok w => matchImpl sel m w
      | .error c => .raised c
/-- every matcher of the list on the same value -/
def matchRow (sel : Bool) : List M → V → List Verdict
  | [], _ => []
  | m :: ms, v => matchImpl sel m v :: matchRow sel ms v
/-- matcher `i` on value `i` where there is one -/
def matchZip (sel : Bool) : List M → List (Option V) → List (Option Verdict)
  | m :: ms, some v :: vs => some (matchImpl sel m v) :: matchZip sel ms vs
  | _ :: ms, none :: vs => none :: matchZip sel ms vs
  | _, _ => []
end

/-! ## canonical form of a propagated exception class
`_MatchCommonKeys` visits the common keys in the iteration order of a `set` of strings (randomised per
process): which of two raising entries propagates is not determined; and on a matchee that is not a
dict the three parts of a dict matcher raise `TypeError`/`IndexError`/`AttributeError` depending on the
content.  Expressions containing a dict matcher therefore compare propagated classes as `anyCls` on
both sides (that an exception propagates is still compared). -/
mutual
def coarse : M → Bool
  | .leaf _ => false
  | .excTypeV _ vm => coarse vm
  | .raises em => coarse em
  | .not m => coarse m
  | .all _ ms => coarseL ms
  | .any ms => coarseL ms
  | .allMatch m => coarse m
  | .anyMatch m => coarse m
  | .listwise _ ms => coarseL ms
  | .setwise _ _ ms => coarseL ms
  | .structure _ ms => coarseL ms
  | .dict _ _ _ => true
  | .annotate m => coarse m
  | .after _ _ m => coarse m
def coarseL : List M → Bool
  | [] => false
  | m :: ms => coarse m || coarseL ms
end

def canon (m : M) : Verdict → Verdict
  | .raised c => if coarse m then .raised .anyCls else .raised c
  | r => r

/-! ## C06 input / trace -/
structure Input where
  m : M
  v : V
deriving Repr

/-- what the harness observes -/
structure Trace where
  first   : Verdict      -- build A (set order `ka`), first call of match()
  again   : Verdict      -- the same matcher object, second call
  other   : Verdict      -- build B (set order `kb`)
  pureM   : Bool         -- deep snapshot of the matcher unchanged by the calls
  pureV   : Bool         -- deep snapshot of the matchee unchanged by the calls
deriving Repr

def model (i : Input) : Trace :=
  { first := canon i.m (matchImpl true i.m i.v)
    again := canon i.m (matchImpl true i.m i.v)
    other := canon i.m (matchImpl false i.m i.v)
    pureM := true
    pureV := true }

end TTV.Matchers
