import TTV.Model.Reactor
import TTV.Generated.C15
/-! Model of `Spinner.run` histories (C15): one reactor, one `Spinner` object, a list of steps
`run scenario | clear_junk() | the process installs a signal handler | swap (use the other of two Spinner objects on the reactor)`.
Deferreds may outlive their run (they fire after the timeout or after an interrupt): action `late` fires the Deferred of an earlier
run during a later one; since the callbacks of a run are disarmed when it is over, that does nothing.

A scenario is what the harness does around one `spinner.run(timeout, f)`:
* `pre`: delayed calls scheduled *before* `run` is called (so they precede the spinner's timeout call in
  the reactor's order for equal times);
* `f` performs `body` in order (`later d a` = `reactor.callLater(d, a)`, `now a` = do it at once) and then
  returns a value, raises, or returns the scenario's Deferred;
* actions: fire / fail that Deferred, `reactor.stop()`, nothing, register a selectable, install a signal
  handler, try to call `Spinner.run` re-entrantly.

Import-free apart from `TTV.Model.Reactor` and the generated table. -/
namespace TTV.Spinner
open TTV.Reactor

/-- what a delayed call scheduled by a delayed call does (a chain of calls): nothing, register a selectable, or schedule the next -/
inductive Child
  | noop
  | addSel
  | spawn (d : Nat) (c : Child)
deriving DecidableEq, Repr

inductive Act
  | fire (v : Nat)              -- d.callback(v)        (a second firing raises AlreadyCalledError: no effect)
  | fail (e : Nat)              -- d.errback(KeyError(e))
  | stop                        -- reactor.stop()
  | noop
  | addSel                      -- reactor.selectables.append(Sel(label))
  | setSig (s h : Nat)          -- signal.signal(SIGNALS[s], handler h)
  | reenter (fresh : Bool)      -- call Spinner.run from inside (same spinner / a fresh one on the same reactor)
  | spawn (d : Nat) (c : Child)  -- `reactor.callLater(d, <c>)`: a delayed call that schedules another one when it runs.  DOMAIN: only in
                                -- runs whose `f` returns or raises synchronously - the loop of `reactor.run()` then does not iterate,
                                -- the call is a leftover and can only be run by `_clean`'s obligatory iterations (`execI`)
  | late (failed : Bool) (back v : Nat)
                                -- fire (fail) the Deferred of the run `back` runs earlier - of this or the other Spinner - with v:
                                -- the callbacks that run hung on it belong to a run that is over and do nothing
deriving DecidableEq, Repr

inductive Op | later (delay : Nat) (a : Act) | now (a : Act)
deriving DecidableEq, Repr

inductive Term | ret (v : Nat) | raise (e : Nat) | deferred
deriving DecidableEq, Repr

def Child.toAct : Child → Act
  | .noop => .noop
  | .addSel => .addSel
  | .spawn d c => .spawn d c

structure Scen where
  timeout : Nat
  oblig : Nat := 0              -- `Spinner._OBLIGATORY_REACTOR_ITERATIONS` (0 by default; 2 for the broken-Twisted runner)
  bad : Bool := false           -- the timeout is one the reactor rejects (negative): `reactor.callLater` raises; `timeout` is unused
  pre : List (Nat × Act)
  body : List Op
  term : Term
deriving Repr

inductive Step
  | run (sc : Scen)
  | clearJunk
  | setSig (s h : Nat)          -- between two calls the process does `signal.signal(SIGNALS[s], handler h)`
  | swap                        -- from now on the calls go to the other of two Spinner objects on the same reactor
deriving Repr

structure Input where
  debug : Bool            -- `Spinner(reactor, debug=...)`: no observable difference
  steps : List Step
deriving Repr

/-- per-run state of the scenario's Deferred and of the re-entry attempts -/
structure UState where
  dres : Option Res := none      -- the result the scenario's Deferred has been fired with
  attached : Bool := false       -- `run_function` has added the spinner's callbacks to it
  reentries : List Res := []     -- what the re-entrant calls raised
deriving Repr

abbrev W := World Act UState

/-- signals the harness watches; the first three are `Spinner._PRESERVED_SIGNALS` in the pinned tree -/
def sigNames : List String := ["SIGINT", "SIGTERM", "SIGCHLD", "SIGUSR1"]

def preserved (s : Nat) : Bool :=
  match sigNames[s]? with
  | some n => TTV.Generated.C15.preservedSignals.contains n
  | none => false

/-- `_restore_signals`: every saved (= preserved) signal gets its saved handler back -/
def restoreFrom : Nat → List Nat → List Nat → List Nat
  | _, _, [] => []
  | s, saved, c :: cs => (if preserved s then saved.headD c else c) :: restoreFrom (s + 1) saved.tail cs

def fireD (r : Res) (w : W) : W :=
  match w.u.dres with
  | some _ => w                                     -- AlreadyCalledError
  | none =>
    let w := { w with u := { w.u with dres := some r } }
    if w.u.attached then deliver r w else w

/-- run one user action (the event has already been logged) -/
def exec (lbl : Nat) (a : Act) (w : W) : W :=
  match a with
  | .fire v => fireD (.value v) w
  | .fail e => fireD (.raised e) w
  | .stop => { w with crashed := true }             -- `reactor.stop` is `_fake_stop` = `reactor.crash`
  | .noop => w
  | .addSel => { w with sels := w.sels ++ [lbl] }
  | .setSig s h => { w with sigs := w.sigs.set s h }
  | .reenter _ => { w with u := { w.u with reentries := w.u.reentries ++ [.reentry] } }   -- not_reentrant
  | .late _ _ _ => w                                -- `during_this_run`: the run that installed the callbacks is over
  | .spawn _ _ => w                                 -- (never reached while the loop runs, see `Act.spawn`; `execI` is its meaning)

def schedPre : Nat → List (Nat × Act) → W → W
  | _, [], w => w
  | i, (d, a) :: rest, w => schedPre (i + 1) rest (schedule (w.now + d) (.user i a) w)

def runBody : Nat → List Op → W → W
  | _, [], w => w
  | i, .later d a :: rest, w => runBody (i + 1) rest (schedule (w.now + d) (.user i a) w)
  | i, .now a :: rest, w => runBody (i + 1) rest (exec i a (logEvent (.user i) w))

/-- what the harness observes of one `spinner.run` -/
structure RunObs where
  result : Res
  events : List (Nat × Lbl)     -- executed delayed calls / synchronous actions, (time since start, label)
  reentries : List Res
  junk : List Junk              -- `spinner.get_junk()` afterwards
  pending : Nat                 -- `len(reactor.getDelayedCalls())` afterwards
  sels : Nat                    -- `len(reactor.selectables)` afterwards
  running : Bool
  stopRestored : Bool           -- `reactor.stop` is what it was before the call
  sigBefore : List Nat
  sigAfter : List Nat
  elapsed : Nat                 -- virtual time consumed
deriving Repr

inductive Obs | run (o : RunObs) | cleared (junk : List Junk) | sigs (now : List Nat) | swapped
deriving Repr

abbrev Trace := List Obs

/-- `run_function`'s part after `f` returned / raised -/
def finishF (t : Term) (w : W) : W :=
  match t with
  | .ret v => deliver (.value v) w
  | .raise e => deliver (.raised e) w
  | .deferred =>
    let w := { w with u := { w.u with attached := true } }
    match w.u.dres with
    | some r => deliver r w          -- already fired: the callbacks run at once
    | none => w

/-- the beginning of `Spinner.run` once the junk check has passed: the result of the previous run is forgotten,
`_save_signals()` *assigns* the handlers found now to `_saved_signals` (whatever was there is dropped) -/
def saveSignals (w : W) : W :=
  { w with sp := { w.sp with success := none, failure := none, saved := w.sigs } }

/-- `Spinner.run` from there to the end of `reactor.run()` -/
def spinPhase (sc : Scen) (w : W) : W :=
  let w := saveSignals w
  let w := schedule (w.now + sc.timeout) .timeout w
  let w := { w with stopPatched := true, running := true, crashed := false,
                    sp := { w.sp with tcall := .pending, spinning := true } }
  let w := finishF sc.term (runBody sc.pre.length sc.body w)
  spin exec (fun w => w.calls.length) (w.calls.length + 1) w

/-- the labels of the scenario's own calls are below `labels sc`; the call scheduled by the call with label `l` gets `l + labels sc` -/
def labels (sc : Scen) : Nat := sc.pre.length + sc.body.length

/-- `_clean`'s obligatory iterations run a due call: like the loop does, and a `spawn` schedules its child -/
def execI (sc : Scen) (c : DCall (QAct Act)) (w : W) : W :=
  match c.act with
  | .timeout => execTimeout w
  | .user l a =>
    let w := logEvent (.user l) w
    match a with
    | .spawn d ch => schedule (w.now + d) (.user (l + labels sc) ch.toAct) w
    | .fire _ => w          -- the run is over: the callbacks on its Deferred are dead (`during_this_run`)
    | .fail _ => w
    | a => exec l a w

/-- one `reactor.iterate(0)`: the calls that are due when it starts run, in the reactor's order; what they schedule - even with
delay 0 - waits for the next iteration; the clock stands still -/
def iterOnce (sc : Scen) (w : W) : W :=
  (w.calls.filter (fun c => decide (c.time ≤ w.now))).foldl (fun w c => execI sc c w)
    { w with calls := w.calls.filter (fun c => !decide (c.time ≤ w.now)) }

def iterations (sc : Scen) : Nat → W → W
  | 0, w => w
  | n + 1, w => iterations sc n (iterOnce sc w)

def runStep (sc : Scen) (w0 : W) : W × RunObs :=
  let w : W := schedPre 0 sc.pre { w0 with t0 := w0.now, events := [], u := {} }
  if !w.sp.junk.isEmpty then
    -- StaleJunkError before anything is touched; afterwards the harness cancels what it had scheduled
    ({ w with calls := [] },
     { result := .stalejunk, events := w.events, reentries := w.u.reentries, junk := w.sp.junk,
       pending := w.calls.length, sels := w.sels.length, running := w.running, stopRestored := !w.stopPatched,
       sigBefore := w0.sigs, sigAfter := w.sigs, elapsed := w.now - w0.now })
  else if sc.bad then
    -- `reactor.callLater(timeout, …)` raises: `run` raises out of the statements before its `try … finally`.  By then the
    -- previous result has been forgotten and `_save_signals()` has run: the handlers it found stay in `_saved_signals`
    -- (no handler was changed, `reactor.stop` is not yet patched, `f` is never called).  Afterwards the harness cancels
    -- what it had scheduled.
    let w := saveSignals w
    ({ w with calls := [] },
     { result := .rejected, events := w.events, reentries := w.u.reentries, junk := w.sp.junk,
       pending := w.calls.length, sels := w.sels.length, running := w.running, stopRestored := !w.stopPatched,
       sigBefore := w0.sigs, sigAfter := w.sigs, elapsed := w.now - w0.now })
  else
    let w := spinPhase sc w
    -- finally: reactor.stop = real_stop; _restore_signals(): the handlers in `_saved_signals` are installed, the list is emptied
    -- (and, since an interrupted run ends without `_stop_reactor`, `_spinning` is cleared)
    let w := { w with running := false, stopPatched := false, sigs := restoreFrom 0 w.sp.saved w.sigs,
                      sp := { w.sp with saved := [], spinning := false } }
    let result := getResult w.sp
    -- finally: _clean(): the obligatory iterations, then whatever is left is cancelled / removed and recorded as junk
    let w := iterations sc sc.oblig w
    let w := { w with calls := [], sels := [], sp := { w.sp with junk := w.sp.junk ++ leftovers w } }
    (w, { result := result, events := w.events, reentries := w.u.reentries, junk := w.sp.junk,
          pending := w.calls.length, sels := w.sels.length, running := w.running, stopRestored := !w.stopPatched,
          sigBefore := w0.sigs, sigAfter := w.sigs, elapsed := w.now - w0.now })

def step (s : Step) (w : W) : W × Obs :=
  match s with
  | .run sc => let (w, o) := runStep sc w; (w, .run o)
  | .clearJunk => ({ w with sp := { w.sp with junk := [] } }, .cleared w.sp.junk)
  | .setSig s h => let w := { w with sigs := w.sigs.set s h }; (w, .sigs w.sigs)
  | .swap => (w, .swapped)      -- (the exchange of the two Spinner objects is done by `runSteps`)

/-- `other`: the state of the Spinner object that is not in use; the reactor and the process are shared -/
def runSteps : List Step → W → Spinner → List Obs
  | [], _, _ => []
  | .swap :: rest, w, other => .swapped :: runSteps rest { w with sp := other } w.sp
  | s :: rest, w, other => let (w', o) := step s w; o :: runSteps rest w' other

def init : W := { u := {} }

def model (i : Input) : Trace := runSteps i.steps init {}

end TTV.Spinner
