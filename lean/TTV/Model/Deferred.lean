/-! M-Deferred: model of `twisted.internet.defer.Deferred` as far as testtools' Deferred helpers use it
(reference semantics: DESIGN.md Appendix A.5), and of `testtools.twistedsupport._deferred`
(`on_deferred_result`, `extract_result`), `_matchers` (`_NoResult`, `_Succeeded`, `_Failed`) and
`_runtest.SynchronousDeferredRunTest._run_user`.  Import-free (the driver links against it). -/
namespace TTV.Deferred

/-- results: `None`, integers, tuples (nested results), and objects with unusual `==` / truth value -/
inductive Val
  | none
  | num (n : Nat)
  | pair (a b : Val)
  /-- an opaque object the code must treat like any other value: 0 = an object equal to everything (`mock.ANY` style),
  1 = an object whose `==` has no truth value (array style), 2 = `""`, 3 = `[]`, 4 = `False`, 5 = `()`.  The Deferred helpers
  decide by the Deferred's STATE, never by the value's `==` or truth value. -/
  | sym (k : Nat)
deriving DecidableEq, Repr

/-- a Deferred's result: a value or a `Failure` wrapping an exception (identified by a number) -/
inductive Res
  | ok (v : Val)
  | fail (e : Nat)
deriving DecidableEq, Repr

/-- what a callback function does with the result it is called with -/
inductive Act
  | keep                              -- returns its argument (an errback: returns the failure)
  | ret (r : Res) (viaDeferred : Bool) -- returns `v` / raises `E(e)`; or returns an already-fired Deferred with that result
  | inc                               -- returns `(v or 0) + 1` for numbers and `None`, else its argument
  | wait                              -- returns a Deferred that has not fired yet: the outer Deferred pauses
deriving DecidableEq, Repr

inductive Tag
  | plain
  | probe (k : Nat)     -- records what it is called with (a callback "added later" by the test)
  | capture             -- the pass-through pair of `on_deferred_result`
  | extractor           -- the `successes.append` / `failures.append` pair of `extract_result`
deriving DecidableEq, Repr

/-- a pair added with `addCallbacks(callback, errback)` -/
structure Cb where
  onOk : Act
  onFail : Act
  tag : Tag
deriving DecidableEq, Repr

inductive St
  | unfired            -- `callback`/`errback` not called yet
  | paused             -- called, waiting for a Deferred returned by a callback (chained): no current result
  | fired (r : Res)    -- current result
deriving DecidableEq, Repr

structure D where
  st : St
  cbs : List Cb                  -- callbacks not yet run (`[]` when fired)
  seen : List (Nat × Res)        -- what the probes have been called with, in order
deriving DecidableEq, Repr

def D.new : D := ⟨.unfired, [], []⟩

def incVal : Val → Val
  | .none => .num 1
  | .num n => .num (n + 1)
  | v => v

/-- result of calling the function; `none` = it returned an unfired Deferred -/
def applyAct : Act → Res → Option Res
  | .keep, r => some r
  | .ret r' _, _ => some r'
  | .inc, .ok v => some (.ok (incVal v))
  | .inc, r => some r
  | .wait, _ => none

def Cb.act (cb : Cb) : Res → Act
  | .ok _ => cb.onOk
  | .fail _ => cb.onFail

def note (cb : Cb) (r : Res) (seen : List (Nat × Res)) : List (Nat × Res) :=
  match cb.tag with
  | .probe k => seen ++ [(k, r)]
  | _ => seen

/-- `Deferred._runCallbacks`: run the pending pairs in order on the current result -/
def runCbs : List Cb → Res → List (Nat × Res) → D
  | [], r, seen => ⟨.fired r, [], seen⟩
  | cb :: rest, r, seen =>
    match applyAct (cb.act r) r with
    | some r' => runCbs rest r' (note cb r seen)
    | none => ⟨.paused, rest, note cb r seen⟩

/-- `addCallbacks`: on a fired Deferred the pair runs at once and its outcome replaces the result;
also reports the result the pair was called with, if it ran -/
def add (d : D) (cb : Cb) : D × Option Res :=
  match d.st with
  | .fired r => (runCbs [cb] r d.seen, some r)
  | _ => ({ d with cbs := d.cbs ++ [cb] }, none)

/-- `callback(v)` / `errback(E(e))`; the flag = `AlreadyCalledError` -/
def fire (d : D) (r : Res) : D × Bool :=
  match d.st with
  | .unfired => (runCbs d.cbs r d.seen, false)
  | _ => (d, true)

/-- the Deferred this one waits for fires with `r` -/
def resume (d : D) (r : Res) : D × Bool :=
  match d.st with
  | .paused => (runCbs d.cbs r d.seen, true)
  | _ => (d, false)

def D.called (d : D) : Bool :=
  match d.st with
  | .unfired => false
  | _ => true

/-! ## testtools -/

def captureCb : Cb := ⟨.keep, .keep, .capture⟩
/-- `deferred.addErrback(lambda _: None)` -/
def handleCb : Cb := ⟨.keep, .ret (.ok .none) false, .plain⟩
/-- `deferred.addCallbacks(successes.append, failures.append)`: both return `None` -/
def extractCb : Cb := ⟨.ret (.ok .none) false, .ret (.ok .none) false, .extractor⟩

/-- inner matcher applied to a value -/
inductive VM | always | never | equals (v : Val)
deriving DecidableEq, Repr
/-- inner matcher applied to a Failure: any, none, or "wraps exception `e`" -/
inductive FM | always | never | isExc (e : Nat)
deriving DecidableEq, Repr

def VM.eval : VM → Val → Bool
  | .always, _ => true
  | .never, _ => false
  | .equals v, w => v == w
def FM.eval : FM → Nat → Bool
  | .always, _ => true
  | .never, _ => false
  | .isExc e, e' => e == e'

inductive Matcher
  | noResult                 -- `has_no_result()`
  | succeeded (m : VM)       -- `succeeded(m)`
  | failed (m : FM)          -- `failed(m)`
deriving DecidableEq, Repr

/-- `matcher.match(deferred)`: `on_deferred_result` adds the capturing pair and dispatches on what it caught;
`_Succeeded._got_failure` and `_Failed._got_failure` add an errback that swallows the failure.
Returns the Deferred afterwards and whether the matcher matched (`match()` returned `None`). -/
def matchOp (m : Matcher) (d : D) : D × Bool :=
  let (d1, got) := add d captureCb
  match m, got with
  | .noResult, none => (d1, true)
  | .noResult, some _ => (d1, false)
  | .succeeded _, none => (d1, false)
  | .succeeded vm, some (.ok v) => (d1, vm.eval v)
  | .succeeded _, some (.fail _) => ((add d1 handleCb).1, false)
  | .failed _, none => (d1, false)
  | .failed _, some (.ok _) => (d1, false)
  | .failed fm, some (.fail e) => ((add d1 handleCb).1, fm.eval e)

inductive Extracted
  | value (v : Val)
  | raised (e : Nat)
  | notFired            -- `DeferredNotFired`
deriving DecidableEq, Repr

/-- `extract_result(deferred)` -/
def extractOp (d : D) : D × Extracted :=
  let (d1, got) := add d extractCb
  (d1, match got with
    | some (.ok v) => .value v
    | some (.fail e) => .raised e
    | none => .notFired)

/-! ## histories -/

inductive Op
  | fire (r : Res)
  | add (cb : Cb)
  | resume (r : Res)
  | matchD (m : Matcher)
  /-- the three classifying matchers, each applied to its own replica of the Deferred in its present state -/
  | classify
  | extract
deriving DecidableEq, Repr

inductive Obs
  | fired (alreadyCalled : Bool)
  | added
  | resumed (wasPaused : Bool)
  /-- verdict, and `deferred.called` before and after matching -/
  | verdict (matched : Bool) (calledBefore calledAfter : Bool)
  | classes (noResult succeeded failed : Bool)
  | extracted (x : Extracted)
deriving DecidableEq, Repr

def step (d : D) : Op → D × Obs
  | .fire r => let x := fire d r; (x.1, .fired x.2)
  | .add cb => ((add d cb).1, .added)
  | .resume r => let x := resume d r; (x.1, .resumed x.2)
  | .matchD m => let x := matchOp m d; (x.1, .verdict x.2 d.called x.1.called)
  | .classify => (d, .classes (matchOp .noResult d).2 (matchOp (.succeeded .always) d).2 (matchOp (.failed .always) d).2)
  | .extract => let x := extractOp d; (x.1, .extracted x.2)

def run (d : D) : List Op → D × List Obs
  | [] => (d, [])
  | op :: ops => let x := step d op; let y := run x.1 ops; (y.1, x.2 :: y.2)

/-! ## `SynchronousDeferredRunTest._run_user` -/

/-- exceptions a test can raise, by the outcome `TestCase` reports for them -/
inductive ExcKind | failure | error | skip
deriving DecidableEq, Repr

/-- what the test method does -/
inductive Beh
  | returns (v : Val)
  | raises (k : ExcKind)
  | returnsFired (r : Option ExcKind) (v : Val)   -- a Deferred already fired with `v` / failed with an exception of kind `k`
  | returnsUnfired
deriving DecidableEq, Repr

inductive Outcome
  | success
  | reported (k : ExcKind)
  | notFired          -- `DeferredNotFired` escapes from the runner (reported as an error by `run`)
deriving DecidableEq, Repr

def excNum : ExcKind → Nat | .failure => 0 | .error => 1 | .skip => 2
def numExc : Nat → ExcKind | 0 => .failure | 2 => .skip | _ => .error

/-- `defer.maybeDeferred(function)` -/
def maybeDeferred : Beh → D
  | .returns v => ⟨.fired (.ok v), [], []⟩
  | .raises k => ⟨.fired (.fail (excNum k)), [], []⟩
  | .returnsFired none v => ⟨.fired (.ok v), [], []⟩
  | .returnsFired (some k) _ => ⟨.fired (.fail (excNum k)), [], []⟩
  | .returnsUnfired => D.new

/-- `d.addErrback(self._got_user_failure)` (a probe: it records the failure it handles and returns the
`exception_caught` marker), then `extract_result(d)` -/
def runUser (b : Beh) : Outcome :=
  let d1 := (add (maybeDeferred b) ⟨.keep, .ret (.ok .none) false, .probe 0⟩).1
  let x := extractOp d1
  match x.2 with
  | .notFired => .notFired
  | .raised e => .reported (numExc e)      -- cannot happen: the errback has handled every failure
  | .value _ =>
    match x.1.seen with
    | (_, .fail e) :: _ => .reported (numExc e)
    | _ => .success

/-! ## scenarios -/

inductive Input
  | history (ops : List Op)
  | runUser (b : Beh)
deriving DecidableEq, Repr

inductive Trace
  /-- per-operation observations; what the probes saw; `called` at the end; was "Unhandled error in Deferred"
  logged when the Deferred was collected -/
  | history (obs : List Obs) (seen : List (Nat × Res)) (called : Bool) (logged : Bool)
  | runUser (o : Outcome)
deriving DecidableEq, Repr

def isFailed (d : D) : Bool :=
  match d.st with
  | .fired (.fail _) => true
  | _ => false

def model : Input → Trace
  | .history ops =>
    let x := run D.new ops
    .history x.2 x.1.seen x.1.called (isFailed x.1)
  | .runUser b => .runUser (runUser b)

end TTV.Deferred
