import TTV.Model.Result
/-! C04 on M-Res: input, observed trace and the model's trace. -/
namespace TTV.ResC04
open TTV.Result

/-- a test of the module given to `testtools.run`: one that ends with an outcome, or one whose code calls
`sys.exit(code)` (`none` = `sys.exit()` / `sys.exit(None)`) -/
inductive PKind where
  | out (k : Kind)
  | exit (code : Option Nat)
deriving Repr, DecidableEq

/-- what is reported for the test: a `SystemExit` is recorded as an error (`last_resort`) before it propagates -/
def PKind.kind : PKind → Kind
  | .out k => k
  | .exit _ => .error

structure Input where
  shape : Shape
  hist : List Call
  /-- `testtools.run` on a module of real test cases with these outcomes (`-f` = the flag) -/
  prog : Option (Bool × List PKind)
deriving Repr

/-- what is read off the graph after a call -/
structure Obs where
  ws : Bool                 -- `wasSuccessful()` of the object reported to
  ss : Bool                 -- its `shouldStop`
  ff : Option Bool          -- its `failfast` attribute (none: it has none)
  leafStop : List Bool      -- `shouldStop` of every leaf
  leafFF : List Bool        -- `failfast` of every leaf
  cb : List Nat := []       -- calls of the callback of every `StreamFailFast` that is a stream target, so far
deriving Repr, DecidableEq

structure Trace where
  ff0 : Option Bool               -- `failfast` of the root right after construction
  leafFF : List Bool              -- `failfast` of every leaf right after construction
  obs : List Obs                  -- after each call of the history
  texts : List (List Out)         -- what every `TextTestResult` leaf wrote (parsed)
  exit : Option (Nat × List Out)  -- exit status and output of `testtools.run`
deriving Repr, DecidableEq

def LeafSt.shouldStop : LeafSt → Bool
  | .sink _ s => s.shouldStop
  | .tt s => s.shouldStop
  | .text s => s.tt.shouldStop
  | .tbt s => s.tt.shouldStop

def LeafSt.failfast : LeafSt → Bool
  | .sink _ s => s.failfast
  | .tt s => s.failfast
  | .text s => s.tt.failfast
  | .tbt s => s.tt.failfast

def LeafSt.textOut : LeafSt → Option (List Out)
  | .text s => some s.out
  | _ => none

def readFF (s : Shape) (st : St s) : Option Bool :=
  if (caps s).failfast then some (failfastOf s st) else none

mutual
/-- how often each `StreamFailFast` used as stream target called its callback (pre-order) -/
def cbsOf : (s : Shape) → St s → List Nat
  | .sff, (_, n) => [n]
  | .sink _, _ | .fsink _ _ _, _ | .tt _, _ | .text _, _ | .tbt, _ => []
  | .etod c, (_, inner) => cbsOf c inner
  | .deco c, st => cbsOf c st
  | .tagger _ _ c, st => cbsOf c st
  | .tfr c, (_, inner) => cbsOf c inner
  | .e2s c, (_, inner) => cbsOf c inner
  | .multi cs, (_, inner) => cbsOfL cs inner
def cbsOfL : (cs : List Shape) → StL cs → List Nat
  | [], _ => []
  | c :: cs, (x, xs) => cbsOf c x ++ cbsOfL cs xs
end

def observe (s : Shape) (st : St s) : Obs :=
  { ws := wasSuccessfulOf s st, ss := shouldStopOf s st, ff := readFF s st,
    leafStop := (leaves s st).map LeafSt.shouldStop, leafFF := (leaves s st).map LeafSt.failfast,
    cb := cbsOf s st }

def states (s : Shape) : St s → List Call → List (St s)
  | _, [] => []
  | st, c :: h => step s st c :: states s (step s st c) h

/-- the calls a suite of test cases with these outcomes makes on the result of `testtools.run`; with fail-fast
the suite stops dispatching after the first error / failure / unexpected success -/
def progCalls (ff : Bool) : Nat → List Kind → List Call
  | _, [] => []
  | i, k :: ks =>
    [.startTest i, .add k i (if k = .success || k = .uxsuccess then .none else .details []), .stopTest i]
    ++ (if ff && !(k.passing) then [] else progCalls ff (i + 1) ks)

def runProgK (ff : Bool) (ks : List Kind) : Nat × List Out :=
  let st : TextSt := run (.text ff) (init (.text ff)) ([.startTestRun] ++ progCalls ff 0 ks ++ [.stopTestRun])
  (if st.tt.wasSuccessful then 0 else 1, st.out)

/-- the tests up to and including the first one that calls `sys.exit`: `SystemExit` propagates out of `TestCase.run`
and out of the suite (by design), nothing after it is dispatched -/
def cutAtExit : List PKind → List PKind
  | [] => []
  | .exit c :: _ => [.exit c]
  | p :: ps => p :: cutAtExit ps

/-- what is reported for the tests of the module, as far as they can be dispatched at all -/
def progKinds (ps : List PKind) : List Kind := (cutAtExit ps).map PKind.kind

/-- the `sys.exit` test that is reached (with `-f` an earlier bad outcome stops the suite first), with its code -/
def progExit (ff : Bool) : List PKind → Option (Option Nat)
  | [] => none
  | .exit c :: _ => some c
  | .out k :: ps => if ff && !k.passing then none else progExit ff ps

/-- `testtools.run`: `TestToolsTestRunner.run` prints the summary in its `finally` block; then either
`sys.exit(not result.wasSuccessful())`, or — the test's `SystemExit` is still propagating and that line is never
reached — the process ends with the code the *test* gave (`None` counts as 0) -/
def runProg (ff : Bool) (ps : List PKind) : Nat × List Out :=
  let r := runProgK ff (progKinds ps)
  (match progExit ff ps with | some c => c.getD 0 | none => r.1, r.2)

def model (i : Input) : Trace :=
  let st0 := init i.shape
  { ff0 := readFF i.shape st0
    leafFF := (leaves i.shape st0).map LeafSt.failfast
    obs := (states i.shape st0 i.hist).map (observe i.shape)
    texts := (leaves i.shape (run i.shape st0 i.hist)).filterMap LeafSt.textOut
    exit := i.prog.map fun p => runProg p.1 p.2 }

end TTV.ResC04
