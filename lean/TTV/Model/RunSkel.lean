import TTV.Model.RunTest
/-! Control skeletons of `testtools/runtest.py`, as data.

`harness/pyskel.py` re-reads `RunTest._run_core` and `RunTest._select_exception` from the tree under test on
every run and emits their control skeleton as terms of the types below (`TTV/Generated/RunSkel.lean`).  The
interpreters give the skeletons their meaning over the M-Run state; theorems (`C01_src_run_core`,
`C03_src_select`) prove that the hand-written model functions `runCore` / `select` *are* the interpretation of
the skeleton found in the source.  An edit of the control flow of the source (a reordered stage, a missing
`finally`, a condition around the forced failure, a changed selection rule …) changes the generated term and breaks
the proof; the correspondence check then looks for a test program on which the property fails.

What is trusted here: that `interp` gives Python's meaning to the statement forms the translator recognises
(`if`, `try … finally`, `return`, assignment to the local flag), with `_run_user` never raising (it catches
`BaseException`).  Statement forms the translator does not recognise become `unknown`, which no reference skeleton
contains. -/
namespace TTV.RunSkel
open TTV.Run

/-- what `_run_user` is given -/
inductive Callee where
  | setUp | testMethod | tearDown | cleanups | forceFail
deriving DecidableEq, Repr

/-- statements in continuation style (`k` = the rest of the block), so that the type is not nested and
equality is decidable by `deriving` -/
inductive Skel where
  | done                                                  -- end of a block
  | ret                                                   -- `return`
  | unknown (k : Skel)                                    -- a statement the translator does not know
  | setFailed (b : Bool) (k : Skel)                       -- `failed = b`
  | ifSkipDeco (thn : Skel) (k : Skel)                    -- `if skip_case or getattr(test_method, '__unittest_skip__', False):`
  | addSkip (k : Skel)                                    -- `self.result.addSkip(self.case, reason=…)`
  | ifCaught (c : Callee) (thn els : Skel) (k : Skel)     -- `if self.exception_caught == self._run_user(c, …): thn else: els`
  | runUser (c : Callee) (k : Skel)                       -- `self._run_user(c)` with the result dropped
  | callCleanups (k : Skel)                               -- `self._run_cleanups(self.result)` (not through `_run_user`)
  | tryFinally (body fin : Skel) (k : Skel)               -- `try: body finally: fin`
  | ifForce (thn : Skel) (k : Skel)                       -- `if getattr(self.case, 'force_failure', None):`
  | ifFailed (neg : Bool) (thn : Skel) (k : Skel)         -- `if failed:` / `if not failed:` (neg)
  | addSuccess (k : Skel)                                 -- `self.result.addSuccess(self.case, details=self.case.getDetails())`
deriving DecidableEq, Repr

structure St where
  rs : RS
  failed : Bool := false
  returned : Bool := false
  succ : Bool := false        -- addSuccess was called
  skipped : Bool := false     -- addSkip was called (decorator skip)
  bad : Bool := false         -- an `unknown` statement was executed

/-- run what `_run_user` is given; the flag says that it returned normally (no `exception_caught`) -/
def runCallee (p : Program) (c : Callee) (s : RS) : RS × Bool :=
  match c with
  | .setUp => runStage p.setUp false s
  | .testMethod => runStage p.body p.xfailDeco s
  | .tearDown => runStage p.tearDown false s
  | .cleanups => let s' := runCleanups s; (s', s'.excs.length == s.excs.length)
  | .forceFail => (got s forcedFailure, false)

def interp (p : Program) : Skel → St → St
  | .done, s => s
  | .ret, s => { s with returned := true }
  | .unknown k, s => interp p k { s with bad := true }
  | .setFailed b k, s => interp p k { s with failed := b }
  | .ifSkipDeco thn k, s =>
    let s' := if p.skipDeco.isSome then interp p thn s else s
    if s'.returned then s' else interp p k s'
  | .addSkip k, s => interp p k { s with skipped := true }
  | .ifCaught c thn els k, s =>
    let r := runCallee p c s.rs
    let s1 := { s with rs := r.1 }
    let s' := if r.2 then interp p els s1 else interp p thn s1
    if s'.returned then s' else interp p k s'
  | .runUser c k, s => interp p k { s with rs := (runCallee p c s.rs).1 }
  | .callCleanups k, s => interp p k { s with rs := runCleanups s.rs }
  | .tryFinally body fin k, s =>
    let s1 := interp p body s
    let s2 := interp p fin { s1 with returned := false }
    let s3 := { s2 with returned := s1.returned || s2.returned }
    if s3.returned then s3 else interp p k s3
  | .ifForce thn k, s =>
    let s' := if s.rs.ff then interp p thn s else s
    if s'.returned then s' else interp p k s'
  | .ifFailed neg thn k, s =>
    let s' := if s.failed != neg then interp p thn s else s
    if s'.returned then s' else interp p k s'
  | .addSuccess k, s => interp p k { s with succ := true }

/-- the skeleton the model `runCore` was written from (kept here so that a diff of the generated term against it
is readable in a failing build) -/
def refRunCore : Skel :=
  .ifSkipDeco (.addSkip .ret) <|
  .ifCaught .setUp (.callCleanups (.ifForce (.runUser .forceFail .done) .ret)) .done <|
  .setFailed false <|
  .tryFinally
    (.ifCaught .testMethod (.setFailed true .done) .done .done)
    (.tryFinally
      (.ifCaught .tearDown (.setFailed true .done) .done .done)
      (.tryFinally
        (.ifCaught .cleanups (.setFailed true .done) .done .done)
        (.ifForce (.runUser .forceFail (.setFailed true .done)) <|
         .ifFailed true (.addSuccess .done) .done)
        .done)
      .done)
    .done

/-! ### `_select_exception` -/
inductive Cond where
  | unclaimed          -- `self._handler_for(e) is None`
  | notBenign          -- `self._handler_for(e) not in (case._report_skip, case._report_expected_failure)`
  | other
deriving DecidableEq, Repr

inductive SelRule where
  | firstWhere (reversed : Bool) (c : Cond)    -- `for e in [reversed](self._exceptions): if c: return e`
  | last                                       -- `return self._exceptions[-1]`
  | other
deriving DecidableEq, Repr

def Cond.eval (hs : Handlers) : Cond → Exc → Bool
  | .unclaimed, e => !claimed hs e
  | .notBenign, e => !benign hs e
  | .other, _ => false

def selInterp (hs : Handlers) (es : List Exc) : List SelRule → Option Exc
  | [] => none
  | .firstWhere rev c :: rest =>
    match (if rev then es.reverse else es).find? (c.eval hs) with
    | some e => some e
    | none => selInterp hs es rest
  | .last :: _ => es.getLast?
  | .other :: _ => none

def refSelect : List SelRule := [.firstWhere false .unclaimed, .firstWhere true .notBenign, .last]

/-! ### `_run_cleanups` (shape recognition, not translation)
The model's `runCleanups` pops the *live* cleanup stack until it is empty - so cleanups registered while cleanups run are
run too, last in first out -, runs each one through `_run_user` and remembers whether any of them was caught.  The
translator recognises exactly that loop (up to local names and operand order) and reports anything else as `other`. -/
inductive CleanupsShape where
  | liveStackLifo
  | other
deriving DecidableEq, Repr

end TTV.RunSkel
