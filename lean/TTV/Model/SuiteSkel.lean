import TTV.Model.ConcSuite
/-! Control skeleton of the worker side of the concurrent suites - `ConcurrentTestSuite._run_test` and
`ConcurrentStreamTestSuite._run_test` (testtools/testsuite.py) - as data.

`harness/suiteskel.py` re-reads the two methods from the tree under test on every run and emits their
`try / except / finally` structure as terms of `WSkel` (`TTV/Generated/SuiteSkel.lean`).  `interp` gives a skeleton
its meaning in the vocabulary of the C13 model: the segments (critical sections of the worker's forwarder, `put`s
into the queue) the worker thread performs and whether its thread ends with an exception.  `C13_src_run_test`
(TTV/Props/C13.lean) proves that the worker programs `suiteProg` / `streamProg` the interleaving theorems are about
*are* the interpretation of the skeletons found in the source.

What is trusted: the interpreter's reading of sequencing, `try … except <class>: …` and `try … finally`; that
`test.run(process_result)` / `case.run(process_result)` / `queue.put(test)` / `process_result.stopTestRun()` are what `WAct`
says (the sub-suite's tests reported through the worker's result; the `broken-runner` error holder reported through
it; one item put); that every exception of the model's domain is an `Exception` (so `except Exception` catches it -
the handler class is part of the compared term all the same).  `run()` itself (the `for` / `while` loops of the calling
thread) is not translated: its tie to the model is the correspondence check only. -/
namespace TTV.SuiteSkel
open TTV.Conc

inductive WAct where
  | runTest          -- `test.run(process_result)`
  | runBroken        -- `case = testtools.ErrorHolder("broken-runner…", error=sys.exc_info()); case.run(process_result)`
  | putFin           -- `queue.put(test)`
  | stopTestRun      -- `process_result.stopTestRun()`
  | startTestRun     -- `process_result.startTestRun()` (not in the worker any more: `run()` does it before `start()`)
deriving DecidableEq, Repr

/-- the class an `except` clause names -/
inductive ExcClass where
  | exception        -- `except Exception:`
  | all              -- `except:` / `except BaseException:`
  | other
deriving DecidableEq, Repr

inductive WSkel where
  | done
  | unknown (k : WSkel)
  | act (a : WAct) (k : WSkel)
  | tryFinally (body fin : WSkel) (k : WSkel)
  | tryExcept (cls : ExcClass) (body handler : WSkel) (k : WSkel)
deriving DecidableEq, Repr

structure WSt where
  segs : List Seg := []
  loc : Loc := {}
  raised : Bool := false
  bad : Bool := false

def doAct (fl : Flavour) (wi tb : Nat) (w : Worker) : WAct → WSt → WSt
  | .runTest, s =>
    match fl with
    | .suite =>
      let r := sectionsAbort w.faults s.loc (workerOps w)
      { s with segs := s.segs ++ r.1.map Seg.sec, loc := r.2.1, raised := r.2.2 || w.boom }
    | .stream => { s with segs := s.segs ++ (testsEvents wi 0 w.tests).map (fun e => Seg.put (.status e)), raised := w.boom }
  | .runBroken, s =>
    match fl with
    | .suite =>
      let b := sectionsAbort w.faults s.loc brokenOps
      { s with segs := s.segs ++ b.1.map Seg.sec, loc := b.2.1, raised := b.2.2 }
    | .stream => { s with segs := s.segs ++ (brokenEvents wi tb).map (fun e => Seg.put (.status e)) }
  | .putFin, s =>
    match fl with
    | .suite => { s with segs := s.segs ++ [.put (.fin wi)] }
    | .stream => { s with bad := true }
  | .stopTestRun, s =>
    match fl with
    | .suite => { s with bad := true }
    | .stream => { s with segs := s.segs ++ [.put (.stopRun wi)] }
  | .startTestRun, s => { s with bad := true }

/-- once an exception propagates the rest of a block is skipped; `except` catches it (every exception of the
model's domain is an `Exception`) unless the class is not recognised; `finally` runs in any case -/
def interp (fl : Flavour) (wi tb : Nat) (w : Worker) : WSkel → WSt → WSt
  | .done, s => s
  | .unknown k, s => if s.raised then s else interp fl wi tb w k { s with bad := true }
  | .act a k, s => if s.raised then s else interp fl wi tb w k (doAct fl wi tb w a s)
  | .tryFinally body fin k, s =>
    if s.raised then s else
      let s1 := interp fl wi tb w body s
      let s2 := interp fl wi tb w fin { s1 with raised := false }
      interp fl wi tb w k { s2 with raised := s1.raised || s2.raised }
  | .tryExcept cls body handler k, s =>
    if s.raised then s else
      let s1 := interp fl wi tb w body s
      let s2 := if s1.raised && cls != .other then interp fl wi tb w handler { s1 with raised := false } else s1
      interp fl wi tb w k s2

def refSuiteRunTest : WSkel :=
  .tryFinally (.tryExcept .exception (.act .runTest .done) (.act .runBroken .done) .done) (.act .putFin .done) .done

def refStreamRunTest : WSkel :=
  .tryFinally (.tryExcept .exception (.act .runTest .done) (.act .runBroken .done) .done) (.act .stopTestRun .done) .done

end TTV.SuiteSkel
