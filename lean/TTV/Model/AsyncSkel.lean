import TTV.Model.AsyncRun
/-! The source of `AsynchronousDeferredRunTest` (`testtools/twistedsupport/_runtest.py`) as DATA, and what the data means over the
model `TTV.AsyncRun`.

`harness/pyasync2lean.py` re-reads `_run_deferred` (the callback chain and its nested functions), `_run_cleanups`, `_run_user`,
`_blocking_run_deferred`, `_run_core`, `_log_user_exception`, the obligatory iterations of the broken-Twisted variant,
`flush_logged_errors` and `assert_fails_with` from the tree under test on every run and emits terms of the types below into
`TTV/Generated/AsyncSkel.lean`.  `flatten` resolves the references between the nested functions (what Twisted does when a callback
returns a Deferred: the outer chain goes on when the inner one is done) into a decision tree `Flat`; `exec` runs that tree over the
model's primitives.  `C14_src_*` (Props/C14.lean) prove that the model's chain (`startSetUp`, `resume`, `Chain.finish`) and accounting
(`account`) ARE the interpretation of what was found.  Unrecognised statements become `.unknown`, which no reference term contains.

Not expressed by the interpretation (but part of the data, so any change still breaks the `decide` against the reference): the
difference between `addCallback` and `addBoth` - the Deferreds of `_run_user` never fail (`_got_user_failure` turns every failure
into the `exception_caught` marker), so it only matters when a callback of the runner itself raises. -/
namespace TTV.AsyncSkel
open TTV.Reactor TTV.AsyncRun

/-! ## the callback chain of `_run_deferred` -/

inductive StageRef | setUp | test | tearDown | forceFail
deriving DecidableEq, Repr

inductive FnRef
  | failIfCaught | setUpDone | tearDown | cleanUp | cleanUpDone | forceFailure   -- the nested functions, by role
  | appendToFails      -- `fails.append` used as a callback
  | successGuard       -- `lambda ignored: len(fails) == 0`
  | unknown
deriving DecidableEq, Repr

inductive Link | cb (f : FnRef) | both (f : FnRef)      -- `d.addCallback(f)` / `d.addBoth(f)`
deriving DecidableEq, Repr

inductive Start
  | runUser (s : StageRef)   -- `self._run_user(self.case._run_setup, self.result)` …
  | runCleanups              -- `self._run_cleanups()`
  | unknown
deriving DecidableEq, Repr

/-- the body of a nested function, applied to the value the chain carries -/
inductive Body
  | ifCaught (byIdentity : Bool) (t e : Body)   -- `if self.exception_caught is <arg>:` (`==`: byIdentity = false)
  | appendFail (k : Body)                        -- `fails.append(None)`
  | recordException (k : Body)                   -- `self._exceptions.append(<arg>)`
  | ifNotNone (t : Body)                         -- `if <arg> is not None: …` (else falls off: None)
  | ifForce (t : Body)                           -- `if getattr(self.case, "force_failure", None): …`
  | chain (start : Start) (links : List Link)    -- `d = <start>; d.add…(…); …; return d`
  | call (f : FnRef)                             -- `return f()`
  | retNone
  | unknown
deriving DecidableEq, Repr

structure Src where
  failIfCaught : Body
  setUpDone : Body
  tearDown : Body
  cleanUp : Body
  cleanUpDone : Body
  forceFailure : Body
  main : Body
deriving DecidableEq, Repr

def Src.body (s : Src) : FnRef → Body
  | .failIfCaught => s.failIfCaught
  | .setUpDone => s.setUpDone
  | .tearDown => s.tearDown
  | .cleanUp => s.cleanUp
  | .cleanUpDone => s.cleanUpDone
  | .forceFailure => s.forceFailure
  | _ => .unknown

def refSrc : Src where
  failIfCaught := .ifCaught true (.appendFail .retNone) .retNone
  setUpDone := .ifCaught true (.appendFail (.call .cleanUp)) (.chain (.runUser .test) [.cb .failIfCaught, .both .tearDown])
  tearDown := .chain (.runUser .tearDown) [.cb .failIfCaught, .both .cleanUp]
  cleanUp := .chain .runCleanups [.cb .cleanUpDone]
  cleanUpDone := .ifNotNone (.recordException (.appendFail .retNone))
  forceFailure := .ifForce (.chain (.runUser .forceFail) [.cb .appendToFails])
  main := .chain (.runUser .setUp) [.cb .setUpDone, .both .forceFailure, .both .successGuard]

/-- what the chain does, as a decision tree: the references between the callbacks are resolved -/
inductive Flat
  | run (s : StageRef) (k : Flat)            -- run the stage, wait for its Deferred, go on with its result
  | ifCaught (byIdentity : Bool) (t e : Flat)  -- was the stage's result the `exception_caught` marker?
  | markFail (k : Flat)                      -- `fails` gets an entry
  | cleanups (k : Flat)                      -- `_run_cleanups()`, go on with ITS result (the last exception or None)
  | ifLastExc (t e : Flat)
  | recordExc (k : Flat)
  | ifForce (t e : Flat)
  | guard                                    -- the final Deferred fires with `len(fails) == 0`
  | unknown
deriving DecidableEq, Repr

/-- what kind of value the chain carries at a point -/
inductive Val | stage | cleanupsResult | other
deriving DecidableEq

mutual
def flatBody : Nat → Src → Body → Val → Flat → Flat
  | 0, _, _, _, _ => .unknown
  | n + 1, src, .ifCaught id t e, .stage, k => .ifCaught id (flatBody n src t .other k) (flatBody n src e .other k)
  | _ + 1, _, .ifCaught _ _ _, _, _ => .unknown
  | n + 1, src, .appendFail b, v, k => .markFail (flatBody n src b v k)
  | n + 1, src, .recordException b, .cleanupsResult, k => .recordExc (flatBody n src b .cleanupsResult k)
  | _ + 1, _, .recordException _, _, _ => .unknown
  | n + 1, src, .ifNotNone t, .cleanupsResult, k => .ifLastExc (flatBody n src t .cleanupsResult k) k
  | _ + 1, _, .ifNotNone _, _, _ => .unknown
  | n + 1, src, .ifForce t, _, k => .ifForce (flatBody n src t .other k) k
  | n + 1, src, .chain (.runUser s) ls, _, k => .run s (flatLinks n src ls .stage k)
  | n + 1, src, .chain .runCleanups ls, _, k => .cleanups (flatLinks n src ls .cleanupsResult k)
  | _ + 1, _, .chain .unknown _, _, _ => .unknown
  | n + 1, src, .call f, _, k => flatBody n src (src.body f) .other k
  | _ + 1, _, .retNone, _, k => k
  | _ + 1, _, .unknown, _, _ => .unknown
def flatLinks : Nat → Src → List Link → Val → Flat → Flat
  | 0, _, _, _, _ => .unknown
  | _ + 1, _, [], _, k => k
  | n + 1, src, l :: ls, v, k =>
    let f := match l with
      | .cb f => f
      | .both f => f
    match f with
    | .successGuard => if ls.isEmpty then .guard else .unknown
    | .appendToFails => .markFail (flatLinks n src ls .other k)
    | .unknown => .unknown
    | f => flatBody n src (src.body f) v (flatLinks n src ls .other k)
end

def flatten (src : Src) : Flat := flatBody 64 src src.main .other .unknown

/-- the tail of every path: `clean_up_done`, `force_failure`, the success guard -/
def refTail : Flat :=
  .ifLastExc (.recordExc (.markFail (.ifForce (.run .forceFail (.markFail .guard)) .guard))) (.ifForce (.run .forceFail (.markFail .guard)) .guard)

def refFlat : Flat :=
  .run .setUp (.ifCaught true (.markFail (.cleanups refTail))
    (.run .test (.ifCaught true
      (.markFail (.run .tearDown (.ifCaught true (.markFail (.cleanups refTail)) (.cleanups refTail))))
      (.run .tearDown (.ifCaught true (.markFail (.cleanups refTail)) (.cleanups refTail))))))

/-- the tail over the runner's state: `_raise_force_fail_error` raises, `_got_user_failure` records a failure and the
`exception_caught` marker is appended to `fails` -/
def tailC : Flat → Chain → Option Chain
  | .ifLastExc t e, c => if c.lastExc.isSome then tailC t c else tailC e c
  | .recordExc k, c =>
    match c.lastExc with
    | some x => tailC k { c with excs := c.excs ++ [x] }
    | none => none
  | .markFail k, c => tailC k { c with fails := true }
  | .ifForce t e, c => if c.forced then tailC t c else tailC e c
  | .run .forceFail k, c => tailC k { c with excs := c.excs ++ [.fail] }
  | .guard, c => some { c with pos := .done }
  | _, _ => none

def stageOf (p : Prog) : StageRef → Stage
  | .setUp => p.setUp
  | .test => p.body
  | .tearDown => p.tearDown
  | .forceFail => .mk [] [] (.raise .fail)
def nameOf : StageRef → SName
  | .setUp => .setUp
  | .test => .body
  | .tearDown => .tearDown
  | .forceFail => .body
def posOf : StageRef → Pos
  | .setUp => .setUp
  | .test => .body
  | .tearDown => .tearDown
  | .forceFail => .done

/-- run the tree over the model.  `r`: `some r` = a stage has just completed with result `r` (`some k`: `_got_user_failure` has
taken the exception `k`, the chain carries the `exception_caught` marker); `none` = no stage result at hand. -/
def exec (p : Prog) : Flat → Option (Option Exc) → W → W
  | .run s k, _, w =>
    let w := launch (nameOf s) (stageOf p s) (updU (Chain.register (stageOf p s).cleanups) w)
    match statusOf (stageOf p s).beh with
    | .completed r => exec p k (some r) w
    | .pending => updU (fun u => { u with pos := posOf s }) w
  | .ifCaught true t _, some (some k), w => exec p t none (updU (fun u => { u with excs := u.excs ++ [k] }) w)
  | .ifCaught true _ e, some none, w => exec p e none w
  | .ifCaught _ _ _, _, w => w
  | .markFail k, _, w => exec p k none (updU (fun u => { u with fails := true }) w)
  | .cleanups tail, _, w => if tail = refTail then cleanUp w else w
  | _, _, w => w

/-- the continuation of the stage the chain is waiting for: what follows the first `run` of it -/
def contOf (pos : Pos) : Flat → Option Flat
  | .run s k => if posOf s = pos then some k else contOf pos k
  | .ifCaught _ t e => (contOf pos t).orElse fun _ => contOf pos e
  | .markFail k => contOf pos k
  | _ => none

/-! ## `_run_cleanups`, `_run_user`, `_log_user_exception` -/

inductive CleanupsStep
  | initLast                 -- `last_exception = None`
  | whileStackPop            -- `while self.case._cleanups: f, args, kwargs = self.case._cleanups.pop()`: the LIVE stack, last registered first
  | callThroughThunk         -- `d = defer.maybeDeferred(lambda: f(*args, **kwargs))` (maybeDeferred's own parameters are not in the way)
  | waitOnOwnDeferred        -- `done = defer.Deferred(); d.addBoth(lambda o: done.callback((o,))); (outcome,) = yield done`
  | ifFailureReportAndRemember  -- `if isinstance(outcome, Failure): self.case._report_traceback(<its exc_info>); last_exception = outcome.value`
  | returnLast
  | unknown
deriving DecidableEq, Repr
def refCleanups : List CleanupsStep :=
  [.initLast, .whileStackPop, .callThroughThunk, .waitOnOwnDeferred, .ifFailureReportAndRemember, .returnLast]

inductive RunUserStep
  | callThroughThunk         -- `d = defer.maybeDeferred(lambda: function(*args, **kwargs))`
  | chainIntoOwnDeferred     -- `result = defer.Deferred(); d.addBoth(result.callback)`
  | returnWithErrback        -- `return result.addErrback(self._got_user_failure)`
  | unknown
deriving DecidableEq, Repr
def refRunUser : List RunUserStep := [.callThroughThunk, .chainIntoOwnDeferred, .returnWithErrback]

inductive LogUserShape | raisesAndReportsExcInfo | unknown     -- `try: raise e except e.__class__: self._got_user_exception(sys.exc_info())`
deriving DecidableEq, Repr

/-! ## `_blocking_run_deferred` and `_run_core`: the accounting -/

inductive BStep
  | gotUserException      -- `self._got_user_exception(sys.exc_info())`
  | resultStop            -- `self.result.stop()`
  | logTimeout            -- `self._log_user_exception(TimeoutError(self.case, self._timeout))`
  | returnUnsuccessful    -- `return False, []`
  | unknown
deriving DecidableEq, Repr

structure BlockingSrc where
  trapsSpinnerRun : Bool          -- `return trap_unhandled_errors(spinner.run, self._timeout, self._run_deferred)` inside the try
  onNoResult : List BStep
  onTimeout : List BStep
deriving DecidableEq, Repr
def refBlocking : BlockingSrc :=
  { trapsSpinnerRun := true, onNoResult := [.gotUserException, .resultStop, .returnUnsuccessful], onTimeout := [.logTimeout, .returnUnsuccessful] }

inductive CoreStep
  | setCaseReactor | makeSpinner
  | enterLogFixture | addLogDetails
  | blockingRunUnderErrorObserver     -- `with _ErrorObserver(_log_observer) as f: successful, unhandled = self._blocking_run_deferred(spinner)`
  | loggedErrors                      -- `for e in f.flush_logged_errors(): successful = False; self._got_user_failure(e, tb_label="logged-error")`
  | leaveLogFixture
  | unhandledErrors                   -- `if unhandled: successful = False; for each: [debug detail]; self._got_user_failure(f, "unhandled-error-in-deferred")`
  | junk                              -- `junk = spinner.clear_junk(); if junk: successful = False; self._log_user_exception(UncleanReactorError(junk))`
  | addSuccessIfSuccessful
  | unknown
deriving DecidableEq, Repr
def refCore : List CoreStep :=
  [.setCaseReactor, .makeSpinner, .enterLogFixture, .addLogDetails, .blockingRunUnderErrorObserver, .loggedErrors, .leaveLogFixture,
   .unhandledErrors, .junk, .addSuccessIfSuccessful]

structure Acct where
  excs : List Exc
  successful : Bool
  unhandled : Nat
  stopReq : Bool

def bI : List BStep → Acct → Acct
  | [], a => a
  | .gotUserException :: k, a => bI k { a with excs := a.excs ++ [.err] }
  | .resultStop :: k, a => bI k { a with stopReq := true }
  | .logTimeout :: k, a => bI k { a with excs := a.excs ++ [.err] }
  | .returnUnsuccessful :: k, a => bI k { a with successful := false, unhandled := 0 }
  | .unknown :: _, a => a

def coreI (b : BlockingSrc) (result : Res) (logged dropped : Nat) (junk : Bool) : List CoreStep → Acct → Acct
  | [], a => a
  | .blockingRunUnderErrorObserver :: k, a =>
    coreI b result logged dropped junk k (match result with
      | .value v => { a with successful := v == 1, unhandled := dropped }      -- what `trap_unhandled_errors` returned
      | .noresult => bI b.onNoResult a
      | _ => bI b.onTimeout a)
  | .loggedErrors :: k, a =>
    coreI b result logged dropped junk k (if logged > 0 then { a with excs := a.excs ++ List.replicate logged .err, successful := false } else a)
  | .unhandledErrors :: k, a =>
    coreI b result logged dropped junk k
      (if a.unhandled > 0 then { a with excs := a.excs ++ List.replicate a.unhandled .err, successful := false } else a)
  | .junk :: k, a => coreI b result logged dropped junk k (if junk then { a with excs := a.excs ++ [.err], successful := false } else a)
  | .unknown :: _, a => a
  | _ :: k, a => coreI b result logged dropped junk k a

/-! ## helpers recognised as a whole -/
inductive FlushShape | flushesGlobalObserver | unknown     -- `flush_logged_errors`: `return _log_observer.flushErrors(*error_types)`
deriving DecidableEq, Repr
/-- `_ErrorObserver._setUp`: the error observer is installed through `_TwistedLogObservers`, i.e. wrapped as a LEGACY observer (so that
events of the new logging API reach trial's `_LogObserver` in the form it understands) -/
inductive ObserverShape | installedThroughLegacyWrapper | unknown
deriving DecidableEq, Repr
inductive AssertFailsShape | successRaisesFailureTrapsGiven | unknown
deriving DecidableEq, Repr

end TTV.AsyncSkel
