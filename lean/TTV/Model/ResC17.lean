import TTV.Model.Result
/-! C17 on M-Res: input, observed trace and the model's trace. -/
namespace TTV.ResC17
open TTV.Result

structure Input where
  shape : Shape
  hist : List Call
deriving Repr

structure Trace where
  /-- `current_tags` of the object the history is reported to, after each call -/
  cur : List TagSet
  /-- per observation point (pre-order: every leaf; every `ExtendedToStreamDecorator` before its subtree): the
  test and the tags seen at each outcome (leaf: `current_tags` when the outcome arrives; stream: `test_tags` of
  the final status event) -/
  seen : List (List (Nat × TagSet))
deriving Repr, DecidableEq

def addsOf (log : List Ev) : List (Nat × TagSet) :=
  log.filterMap fun e => match e.call with
    | .add _ t _ => some (t, e.ctags)
    | _ => none

mutual
def points : (s : Shape) → St s → List (List (Nat × TagSet))
  | .sink _, st => [addsOf st.log]
  | .tt _, st => [addsOf st.log]
  | .text _, st => [addsOf st.tt.log]
  | .tbt, st => [addsOf st.tt.log]
  | .etod c, (_, inner) => points c inner
  | .deco c, st => points c st
  | .tagger _ _ c, st => points c st
  | .fsink _ _ _, st => [addsOf st.log]
  | .sff, _ => []        -- (no observer behind a bare `StreamFailFast`)
  | .tfr c, (_, inner) => points c inner
  | .multi cs, (_, inner) => pointsL cs inner
  | .e2s c, (own, inner) => own.sent :: points c inner
def pointsL : (cs : List Shape) → StL cs → List (List (Nat × TagSet))
  | [], _ => []
  | c :: cs, (x, xs) => points c x ++ pointsL cs xs
end

/-- the states after each call -/
def states (s : Shape) : St s → List Call → List (St s)
  | _, [] => []
  | st, c :: h => step s st c :: states s (step s st c) h

def model (i : Input) : Trace :=
  { cur := (states i.shape (init i.shape) i.hist).map (currentTagsOf i.shape)
    seen := points i.shape (run i.shape (init i.shape) i.hist) }

end TTV.ResC17
