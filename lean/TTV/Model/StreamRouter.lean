import TTV.Model.StreamTypes
import TTV.Model.StreamDeco
/-! M-Stream, `StreamResultRouter` (C18): transcription of `__init__`, `startTestRun`, `stopTestRun`, `status`,
`add_rule`, `_map_route_code_prefix`, `_map_test_id` (testtools/testresult/real.py), plus the
`StreamToQueue.route_code` / consuming-rule round trip.  Import-free apart from the family's modules. -/
namespace TTV.Stream.Router
open TTV.Stream

/-- a Python dict: `d[k] = v` replaces the value of an existing key, otherwise appends -/
def dictSet {κ α : Type} [DecidableEq κ] : List (κ × α) → κ → α → List (κ × α)
  | [], k, v => [(k, v)]
  | (k', v') :: t, k, v => if k' = k then (k, v) :: t else (k', v') :: dictSet t k v
def dictGet {κ α : Type} [DecidableEq κ] : List (κ × α) → κ → Option α
  | [], _ => none
  | (k', v') :: t, k => if k' = k then some v' else dictGet t k

structure State where
  fallback : Option Nat                      -- sink number of the fallback
  prefixes : List (Str × (Nat × Bool))       -- `_route_code_prefixes`: prefix ↦ (sink, consume_route)
  ids : List (Option Nat × Nat)              -- `_test_ids`: test id (or None) ↦ sink
  sinks : List Nat                           -- `_sinks`: who gets startTestRun / stopTestRun, in order
  inRun : Bool
deriving DecidableEq, Repr

/-- `StreamResultRouter(fallback, do_start_stop_run)`; the fallback, if any, is sink 0 -/
def init (hasFallback flag : Bool) : State :=
  { fallback := if hasFallback then some 0 else none, prefixes := [], ids := []
    sinks := if flag && hasFallback then [0] else [], inRun := false }

/-- `route_code.split("/")[0]` -/
def firstSeg (rc : Str) : Str := rc.takeWhile (· != '/')

/-- `route_code[len(prefix) + 1:]`, `None` when nothing remains -/
def stripSeg (rc : Str) : Option Str :=
  match rc.drop ((firstSeg rc).length + 1) with
  | [] => none
  | c :: cs => some (c :: cs)

/-- `status(**kwargs)`: the sink the event goes to and the event as forwarded; `none` = no destination
(`self.fallback` is `None`: the call raises) -/
def route (s : State) (e : Event) : Option (Nat × Event) :=
  match (match e.route with | some rc => dictGet s.prefixes (firstSeg rc) | none => none) with
  | some (sink, consume) =>
    some (sink, if consume then { e with route := match e.route with | some rc => stripSeg rc | none => none } else e)
  | none =>
    match dictGet s.ids e.testId with
    | some sink => some (sink, e)
    | none => s.fallback.map fun f => (f, e)

inductive SinkEv where
  | start | stop
  | status (e : Event)
deriving DecidableEq, Repr

inductive Res where
  | ok
  | raised (exc : String)
  | arrived (e : Event)            -- round trip: the event as it arrived at the far end
deriving DecidableEq, Repr

inductive Op where
  | start | stop
  | addPrefix (sink : Nat) (pfx : Str) (consume flag : Bool)      -- add_rule(sink, 'route_code_prefix', route_prefix=…, consume_route=…, do_start_stop_run=flag)
  | addId (sink : Nat) (tid : Option Nat) (flag : Bool)           -- add_rule(sink, 'test_id', test_id=…, do_start_stop_run=flag)
  | addBad (sink : Nat) (flag : Bool)                             -- add_rule(sink, 'no-such-policy', do_start_stop_run=flag)
  | status (e : Event)
  | roundTrip (codes : List Str) (e : Event)
      -- the event pushed through StreamToQueue(code₁) … StreamToQueue(codeₖ), then popped by a chain of fresh
      -- routers, the j-th with one consuming rule for the j-th outermost code, into a fresh sink
deriving DecidableEq, Repr

/-- `add_rule` after the policy method succeeded -/
def registered (s : State) (sink : Nat) (flag : Bool) : State × List (Nat × SinkEv) :=
  if flag then ({ s with sinks := s.sinks ++ [sink] }, if s.inRun then [(sink, .start)] else [])
  else (s, [])

/-- one consuming router per code, outermost code first -/
def popAll : List Str → Event → Option Event
  | [], e => some e
  | c :: cs, e =>
    match route { fallback := none, prefixes := [(c, (0, true))], ids := [], sinks := [], inRun := false } e with
    | some (_, e') => popAll cs e'
    | none => none

def pushAll (codes : List Str) (rc : Option Str) : Option Str := codes.foldl (fun rc c => Deco.prefixRoute c rc) rc

/-- one operation: new state, deliveries to sinks (in order), what the caller sees -/
def step (s : State) : Op → State × List (Nat × SinkEv) × Res
  | .start => ({ s with inRun := true }, s.sinks.map (·, .start), .ok)
  | .stop => ({ s with inRun := false }, s.sinks.map (·, .stop), .ok)
  | .addPrefix sink pfx consume flag =>
    if pfx.contains '/' then (s, [], .raised "TypeError")
    else
      let r := registered { s with prefixes := dictSet s.prefixes pfx (sink, consume) } sink flag
      (r.1, r.2, .ok)
  | .addId sink tid flag =>
    let r := registered { s with ids := dictSet s.ids tid sink } sink flag
    (r.1, r.2, .ok)
  | .addBad _ _ => (s, [], .raised "ValueError")
  | .status e =>
    match route s e with
    | some (sink, e') => (s, [(sink, .status e')], .ok)
    | none => (s, [], .raised "AttributeError")
  | .roundTrip codes e =>
    if codes.any (·.contains '/') then (s, [], .raised "TypeError")
    else
      match popAll codes.reverse { e with route := pushAll codes e.route } with
      | some e' => (s, [], .arrived e')
      | none => (s, [], .raised "AttributeError")

def run : State → List Op → List (Nat × SinkEv) × List Res
  | _, [] => ([], [])
  | s, o :: os =>
    let r := step s o
    let rest := run r.1 os
    (r.2.1 ++ rest.1, r.2.2 :: rest.2)

structure Input where
  hasFallback : Bool
  fbFlag : Bool
  ops : List Op
deriving Repr

structure Trace where
  deliveries : List (Nat × SinkEv)     -- every call received by any sink, in global order
  results : List Res                   -- per operation
deriving DecidableEq, Repr

def model (i : Input) : Trace :=
  let r := run (init i.hasFallback i.fbFlag) i.ops
  { deliveries := r.1, results := r.2 }

end TTV.Stream.Router
