import TTV.Model.StreamTypes
import TTV.Model.StreamDeco
/-! M-Stream, `StreamResultRouter` (C18): transcription of `__init__`, `startTestRun`, `stopTestRun`, `status`,
`add_rule`, `_map_route_code_prefix`, `_map_test_id` (testtools/testresult/real.py), plus the
`StreamToQueue.route_code` / consuming-rule round trip.  Import-free apart from the family's modules. -/
namespace TTV.Stream.Router
open TTV.Stream

/-- a Python dict: `d[k] = v` replaces the value of an existing key, otherwise appends -/
def dictSet {κ α : Type} [DecidableEq κ] : List (κ × α) → κ → α → List (κ × α)
  | [], k, v => [(k, v)]
  | (k', v') :: t, k, v => if k' = k then (k, v) :: t else (k', v') :: dictSet t k v
def dictGet {κ α : Type} [DecidableEq κ] : List (κ × α) → κ → Option α
  | [], _ => none
  | (k', v') :: t, k => if k' = k then some v' else dictGet t k

inductive SinkEv where
  | start | stop
  | status (e : Event)
deriving DecidableEq, Repr

inductive Res where
  | ok
  | raised (exc : String)
  | arrived (e : Event)            -- round trip: the event as it arrived at the far end
deriving DecidableEq, Repr

inductive Op where
  | start | stop
  | addPrefix (sink : Nat) (pfx : Str) (consume flag : Bool)      -- add_rule(sink, 'route_code_prefix', route_prefix=…, consume_route=…, do_start_stop_run=flag)
  | addId (sink : Nat) (tid : Option Nat) (flag : Bool)           -- add_rule(sink, 'test_id', test_id=…, do_start_stop_run=flag)
  | addBad (sink : Nat) (flag : Bool)                             -- add_rule(sink, 'no-such-policy', do_start_stop_run=flag)
  | status (e : Event)
  | roundTrip (codes : List Str) (e : Event)
      -- the event pushed through StreamToQueue(code₁) … StreamToQueue(codeₖ), then popped by a chain of fresh
      -- routers, the j-th with one consuming rule for the j-th outermost code, into a fresh sink
deriving DecidableEq, Repr

/-! ### sinks with scripted behaviour
A sink is a recording `StreamResult` that may, when the router calls one of its methods, call
`router.add_rule(…)` re-entrantly (lazy route set-up) and/or raise.  Its script for a method is a list of
entries, one per call of that method (first call: first entry, …; no entry left: plain behaviour).  A sink
called from *inside* such a re-entrant `add_rule` (the immediate `startTestRun` of a rule added while a run is
in progress) behaves plainly and consumes no entry. -/
inductive Kind | start | stop | status
deriving DecidableEq, Repr

inductive Act where
  | add (o : Op)          -- router.add_rule(…) from inside the sink's method (`o` is one of the three add operations)
  | raise                 -- raise an exception out of the sink's method
deriving DecidableEq, Repr

structure Script where
  sink : Nat
  kind : Kind
  entries : List (List Act)
deriving DecidableEq, Repr

/-- what is observed, in global order: calls received by sinks (`nested` = made from inside a re-entrant `add_rule`),
re-entrant `add_rule` calls, exceptions raised inside a sink's method -/
inductive Item where
  | del (sink : Nat) (ev : SinkEv) (nested : Bool)
  | radd (o : Op)
  | exc (name : String)
deriving DecidableEq, Repr

structure State where
  fallback : Option Nat                      -- sink number of the fallback
  prefixes : List (Str × (Nat × Bool))       -- `_route_code_prefixes`: prefix ↦ (sink, consume_route)
  ids : List (Option Nat × Nat)              -- `_test_ids`: test id (or None) ↦ sink
  sinks : List Nat                           -- `_sinks`: who gets startTestRun / stopTestRun, in order
  inRun : Bool
  scripts : List Script                      -- what is left of the sinks' scripts
deriving DecidableEq, Repr

/-- `StreamResultRouter(fallback, do_start_stop_run)`; the fallback, if any, is sink 0 -/
def init (hasFallback flag : Bool) : State :=
  { fallback := if hasFallback then some 0 else none, prefixes := [], ids := []
    sinks := if flag && hasFallback then [0] else [], inRun := false, scripts := [] }

/-- `route_code.split("/")[0]` -/
def firstSeg (rc : Str) : Str := rc.takeWhile (· != '/')

/-- `route_code[len(prefix) + 1:]`, `None` when nothing remains -/
def stripSeg (rc : Str) : Option Str :=
  match rc.drop ((firstSeg rc).length + 1) with
  | [] => none
  | c :: cs => some (c :: cs)

/-- `status(**kwargs)`: the sink the event goes to and the event as forwarded; `none` = no destination
(`self.fallback` is `None`: the call raises) -/
def route (s : State) (e : Event) : Option (Nat × Event) :=
  match (match e.route with | some rc => dictGet s.prefixes (firstSeg rc) | none => none) with
  | some (sink, consume) =>
    some (sink, if consume then { e with route := match e.route with | some rc => stripSeg rc | none => none } else e)
  | none =>
    match dictGet s.ids e.testId with
    | some sink => some (sink, e)
    | none => s.fallback.map fun f => (f, e)

/-- `add_rule(sink, policy, do_start_stop_run, …)` up to (not including) the immediate `sink.startTestRun()`:
new state, the sink to start at once (flag set, the sink OBJECT not in `_sinks` yet - `not any(s is sink for s in
self._sinks)` - and a run in progress), what the call does if that start returns.  Sink numbers are object identities. -/
def regStep (s : State) : Op → State × Option Nat × Res
  | .addPrefix sink pfx consume flag =>
    if pfx.contains '/' then (s, none, .raised "TypeError")
    else
      let s1 := { s with prefixes := dictSet s.prefixes pfx (sink, consume) }
      if flag && !s.sinks.contains sink then ({ s1 with sinks := s1.sinks ++ [sink] }, if s.inRun then some sink else none, .ok)
      else (s1, none, .ok)
  | .addId sink tid flag =>
    let s1 := { s with ids := dictSet s.ids tid sink }
    if flag && !s.sinks.contains sink then ({ s1 with sinks := s1.sinks ++ [sink] }, if s.inRun then some sink else none, .ok)
    else (s1, none, .ok)
  | .addBad _ _ => (s, none, .raised "ValueError")
  | _ => (s, none, .ok)

def kindOf : SinkEv → Kind
  | .start => .start
  | .stop => .stop
  | .status _ => .status

/-- take the next entry of the script of `(sink, kind)` (the first script given for that pair) -/
def popScript : List Script → Nat → Kind → List Script × List Act
  | [], _, _ => ([], [])
  | sc :: rest, x, k =>
    if sc.sink = x ∧ sc.kind = k then
      match sc.entries with
      | [] => (sc :: rest, [])
      | e :: es => ({ sc with entries := es } :: rest, e)
    else
      let r := popScript rest x k
      (sc :: r.1, r.2)

/-- the actions of a script entry, in order, until one raises; a re-entrant `add_rule` starts its sink at once when a
run is in progress (that sink behaves plainly then) and raises itself for a bad policy / prefix -/
def runActs (s : State) : List Act → State × List Item × Option String
  | [] => (s, [], none)
  | .raise :: _ => (s, [.exc "Fault"], some "Fault")
  | .add o :: as =>
    let r := regStep s o
    match r.2.2 with
    | .raised x => (r.1, [.radd o, .exc x], some x)
    | _ =>
      let r2 := runActs r.1 as
      (r2.1, .radd o :: ((match r.2.1 with | some y => [Item.del y .start true] | none => []) ++ r2.2.1), r2.2.2)

/-- the router calls a method of sink `x` (not from inside another sink's method): the sink records the call, then
performs the next entry of its script -/
def callTop (s : State) (x : Nat) (ev : SinkEv) : State × List Item × Option String :=
  let p := popScript s.scripts x (kindOf ev)
  let r := runActs { s with scripts := p.1 } p.2
  (r.1, .del x ev false :: r.2.1, r.2.2)

/-- `for sink in self._sinks: sink.<method>()` — over the LIVE list: a sink appended while the loop runs is reached
by it; an exception leaves the loop at once.  `fuel` bounds the number of iterations (see `fuelOf`). -/
def loop (ev : SinkEv) : Nat → State → Nat → State × List Item × Option String
  | 0, s, _ => (s, [], some "fuel")
  | n + 1, s, i =>
    match s.sinks[i]? with
    | none => (s, [], none)
    | some x =>
      let r := callTop s x ev
      match r.2.2 with
      | some e => (r.1, r.2.1, some e)
      | none =>
        let r2 := loop ev n r.1 (i + 1)
        (r2.1, r.2.1 ++ r2.2.1, r2.2.2)

def actsLeft (scs : List Script) : Nat := (scs.map fun sc => (sc.entries.map List.length).sum).sum

/-- enough iterations: every iteration either moves on in the list or uses up script actions that could lengthen it -/
def fuelOf (s : State) : Nat := s.sinks.length + actsLeft s.scripts + 1

def resOf : Option String → Res
  | none => .ok
  | some x => .raised x

/-- one consuming router per code, outermost code first -/
def popAll : List Str → Event → Option Event
  | [], e => some e
  | c :: cs, e =>
    match route { fallback := none, prefixes := [(c, (0, true))], ids := [], sinks := [], inRun := false, scripts := [] } e with
    | some (_, e') => popAll cs e'
    | none => none

def pushAll (codes : List Str) (rc : Option Str) : Option Str := codes.foldl (fun rc c => Deco.prefixRoute c rc) rc

/-- `add_rule` called by the driver: registration, then — flag set and a run in progress — the new sink's
`startTestRun()` (a call by the router like any other: the sink's script applies) -/
def addStep (s : State) (o : Op) : State × List Item × Res :=
  match (regStep s o).2.2 with
  | .raised x => (s, [], .raised x)
  | _ =>
    match (regStep s o).2.1 with
    | some y =>
      ((callTop (regStep s o).1 y .start).1, (callTop (regStep s o).1 y .start).2.1, resOf (callTop (regStep s o).1 y .start).2.2)
    | none => ((regStep s o).1, [], .ok)

/-- one operation of the driver: new state, what is observed during it, what the driver sees.
`startTestRun`: the loop, and only when it has completed `_in_run = True`; `stopTestRun` likewise with `False`. -/
def step (s : State) : Op → State × List Item × Res
  | .start =>
    let r := loop .start (fuelOf s) s 0
    match r.2.2 with
    | none => ({ r.1 with inRun := true }, r.2.1, .ok)
    | some x => (r.1, r.2.1, .raised x)
  | .stop =>
    let r := loop .stop (fuelOf s) s 0
    match r.2.2 with
    | none => ({ r.1 with inRun := false }, r.2.1, .ok)
    | some x => (r.1, r.2.1, .raised x)
  | .status e =>
    match route s e with
    | some (sink, e') =>
      let c := callTop s sink (.status e')
      (c.1, c.2.1, resOf c.2.2)
    | none => (s, [], .raised "AttributeError")
  | .roundTrip codes e =>
    if codes.any (·.contains '/') then (s, [], .raised "TypeError")
    else
      match popAll codes.reverse { e with route := pushAll codes e.route } with
      | some e' => (s, [], .arrived e')
      | none => (s, [], .raised "AttributeError")
  | o => addStep s o     -- the three add_rule operations

def run : State → List Op → List (List Item) × List Res
  | _, [] => ([], [])
  | s, o :: os =>
    let r := step s o
    let rest := run r.1 os
    (r.2.1 :: rest.1, r.2.2 :: rest.2)

structure Input where
  hasFallback : Bool
  fbFlag : Bool
  ops : List Op
  scripts : List Script
deriving Repr

structure Trace where
  segments : List (List Item)          -- per operation: what was observed during it, in order
  results : List Res                   -- per operation
deriving DecidableEq, Repr

def model (i : Input) : Trace :=
  let r := run { init i.hasFallback i.fbFlag with scripts := i.scripts } i.ops
  { segments := r.1, results := r.2 }

end TTV.Stream.Router
