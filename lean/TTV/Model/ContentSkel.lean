import TTV.Model.Content
/-! Decision logic of `testtools/content.py`, `content_type.py` and the end of `_make_content_type`, as data.

`harness/pycontent2lean.py` re-reads `Content._iter_text`, `content_from_reader`, `_iter_chunks`, `ContentType.__repr__` /
`_quote` and the charset work-around of `_make_content_type` from the tree under test on every run and emits what it finds as
terms of the types below (`TTV/Generated/ContentSrc.lean`).  The interpreters give the data its meaning over the M-Content
model; `C16_src_*` prove that the hand-written `iterText`, the `buffer_now` step, `chunks`, `render` / `quoteValue` and
`fixCharset` are the interpretation of exactly what was found.

Trusted here: that the interpreters read the recognised forms as Python does — statements run in order; a generator that
raises stops; `codecs.getincrementaldecoder(enc)()` is a decoder in its initial state; `while chunk:` loops while the last
read was non-empty; `s.replace(c, r)` replaces every occurrence of the character; `", ".join`, `sorted`, `str.format` and
f-strings concatenate as usual; `v[: v.find(c)]` under `if c in v` keeps what precedes the first `c`.  Forms the translator
does not recognise become `unknown`, on which the interpreters answer `none` or something no model function answers; no
reference term contains one. -/
namespace TTV.ContentSkel
open TTV.Content

/-! ### `Content._iter_text` -/
inductive EncDefault | iso8859_1 | other
deriving DecidableEq, Repr

inductive TextStep
  | encodingFromCharset (dflt : EncDefault)   -- `encoding = self.content_type.parameters.get("charset", <dflt>)`
  | freshDecoder                              -- `decoder = codecs.getincrementaldecoder(encoding)()`
  | forChunksYieldDecode                      -- `for b in self.iter_bytes(): yield decoder.decode(b)`
  | finalFlush                                -- `final = decoder.decode(b"", True)`
  | yieldFinalIfNonEmpty                      -- `if final: yield final`
  | unknown
deriving DecidableEq, Repr

structure TS (σ : Type) where
  encBound : Bool := false
  dec : Option σ := none
  out : List Text := []
  final : Option Text := none
  failed : Bool := false          -- a `UnicodeDecodeError` left the generator
  bad : Bool := false

/-- feed the chunks one by one, collecting the pieces -/
def feedAll {σ : Type} (D : Decoder σ) : σ → List Bytes → Option (σ × List Text)
  | s, [] => some (s, [])
  | s, c :: cs =>
    match D.feed s c with
    | none => none
    | some (s', o) => (feedAll D s' cs).map fun r => (r.1, o :: r.2)

def textStep {σ : Type} (D : Decoder σ) (chunks : List Bytes) (s : TS σ) : TextStep → TS σ
  | .encodingFromCharset _ => if s.encBound then { s with bad := true } else { s with encBound := true }
  | .freshDecoder => if s.encBound && s.dec.isNone then { s with dec := some D.init } else { s with bad := true }
  | .forChunksYieldDecode =>
    if s.failed then s else
    match s.dec with
    | none => { s with bad := true }
    | some st =>
      match feedAll D st chunks with
      | none => { s with failed := true }
      | some (st', ps) => { s with dec := some st', out := s.out ++ ps }
  | .finalFlush =>
    if s.failed then s else
    match s.dec with
    | none => { s with bad := true }
    | some st =>
      match D.flush st with
      | none => { s with failed := true }
      | some f => { s with final := some f }
  | .yieldFinalIfNonEmpty =>
    if s.failed then s else
    match s.final with
    | none => { s with bad := true }
    | some f => { s with out := s.out ++ (if f.isEmpty then [] else [f]), final := none }
  | .unknown => { s with bad := true }

/-- `list(content.iter_text())` with `D` the decoder of the encoding chosen: `none` = not interpretable,
`some none` = `UnicodeDecodeError` -/
def iterTextI {σ : Type} (D : Decoder σ) (chunks : List Bytes) (steps : List TextStep) : Option (Option (List Text)) :=
  let s := steps.foldl (textStep D chunks) {}
  if s.bad then none else some (if s.failed then none else some s.out)

/-- the encoding used when the content type declares no charset -/
def defaultOf : List TextStep → Option EncDefault
  | [] => none
  | .encodingFromCharset d :: _ => some d
  | _ :: rest => defaultOf rest

def refIterText : List TextStep :=
  [.encodingFromCharset .iso8859_1, .freshDecoder, .forChunksYieldDecode, .finalFlush, .yieldFinalIfNonEmpty]

/-! ### `Content.as_text` -/
inductive AsTextStep
  | raiseIfNotText                            -- `if self.content_type.type != "text": raise ValueError(…)`
  | encodingFromCharset (dflt : EncDefault)   -- the charset lookup, as in `_iter_text`
  | returnJoinedDecoded                       -- `return _join_b(self.iter_bytes()).decode(encoding)`
  | unknown
deriving DecidableEq, Repr

/-- `as_text()` with `whole` the one-shot decoder of the encoding chosen (`none` = it raises): `none` = not interpretable, else the
text or the exception -/
def asTextI (isText : Bool) (whole : Bytes → Option Text) (chunks : List Bytes) : List AsTextStep → Bool → Option (Option Text × Option Exc)
  | [], _ => none
  | .raiseIfNotText :: rest, enc => if isText then asTextI isText whole chunks rest enc else some (none, some .valueError)
  | .encodingFromCharset _ :: rest, _ => asTextI isText whole chunks rest true
  | .returnJoinedDecoded :: _, true =>
    some (match whole chunks.flatten with | some t => (some t, none) | none => (none, some .unicodeDecodeError))
  | .returnJoinedDecoded :: _, false => none
  | .unknown :: _, _ => none

def refAsText : List AsTextStep := [.raiseIfNotText, .encodingFromCharset .iso8859_1, .returnJoinedDecoded]

def defaultOfAsText : List AsTextStep → Option EncDefault
  | [] => none
  | .encodingFromCharset d :: _ => some d
  | _ :: rest => defaultOfAsText rest

/-! ### `content_from_reader` -/
inductive BufKind | listOfReaderCall | unknown
deriving DecidableEq, Repr
inductive ReaderStep
  | defaultType                    -- `if content_type is None: content_type = UTF8_TEXT`
  | ifBufferNow (k : BufKind)      -- `if buffer_now: contents = list(reader()); def reader(): return contents`
  | returnContent                  -- `return Content(content_type, reader)`
  | unknown
deriving DecidableEq, Repr

/-- what later `iter_bytes()` calls do: replay the chunks buffered at construction, or evaluate the reader again -/
inductive ReaderResult | buffered (chunks : List Bytes) | evaluateEachTime
deriving DecidableEq, Repr

/-- `nowChunks` = what `reader()` yields at construction time -/
def readerI (bufferNow : Bool) (nowChunks : List Bytes) : List ReaderStep → ReaderResult → Option ReaderResult
  | [], _ => none
  | .defaultType :: rest, r => readerI bufferNow nowChunks rest r
  | .ifBufferNow .listOfReaderCall :: rest, r => readerI bufferNow nowChunks rest (if bufferNow then .buffered nowChunks else r)
  | .ifBufferNow .unknown :: _, _ => none
  | .returnContent :: _, r => some r
  | .unknown :: _, _ => none

def refReader : List ReaderStep := [.defaultType, .ifBufferNow .listOfReaderCall, .returnContent]

/-! ### `content_from_stream` / `content_from_file` -/
/-- what a call of the reader handed to `content_from_reader` does -/
inductive ReaderDef
  | freshIterChunks            -- `return _iter_chunks(stream, chunk_size, seek_offset, seek_whence)`: a NEW generator per call
  | openThenFreshIterChunks    -- `with open(path, "rb") as stream: yield from _iter_chunks(stream, …)`: opened and read anew per call
  | unknown
deriving DecidableEq, Repr
inductive MakeStep
  | defaultType                    -- `if content_type is None: content_type = UTF8_TEXT`
  | defReader (d : ReaderDef)      -- the nested `def reader():`
  | returnFromReader               -- `return content_from_reader(reader, content_type, buffer_now)`
  | unknown
deriving DecidableEq, Repr

/-- the reader the steps define and hand on (`none`: not interpreted); the content-type default does not touch it -/
def makeI : List MakeStep → Option ReaderDef → Option ReaderDef
  | [], _ => none
  | .defaultType :: rest, r => makeI rest r
  | .defReader .unknown :: _, _ => none
  | .defReader d :: rest, none => makeI rest (some d)
  | .defReader _ :: _, some _ => none
  | .returnFromReader :: _, r => r
  | .unknown :: _, _ => none

/-- one evaluation of such a reader, run to exhaustion, on the model's stream: the model's `readAll` (seek again, read to the
end; a file opened afresh) - the reader of a stream content on a stream, that of a file content on a file -/
def evalReaderI (i : StreamIn) (s : Stream) (consumer : Bool) : ReaderDef → Option (List Ev × Option (List Bytes) × Stream)
  | .freshIterChunks => if i.isFile then none else some (readAll i s consumer)
  | .openThenFreshIterChunks => if i.isFile then some (readAll i s consumer) else none
  | .unknown => none

def refFromStream : List MakeStep := [.defaultType, .defReader .freshIterChunks, .returnFromReader]
def refFromFile : List MakeStep := [.defaultType, .defReader .openThenFreshIterChunks, .returnFromReader]

/-! ### `_iter_chunks` -/
inductive CStep | seekIfGiven | read | whileChunk | yieldChunk | whileTrue | breakIfEmpty | unknown
deriving DecidableEq, Repr

structure ChunksSrc where
  pre : List CStep         -- the statements of the function, `whileChunk` standing for the loop
  body : List CStep        -- the statements of the loop body
deriving DecidableEq, Repr

/-- `rem` = the bytes from the stream position (after the optional seek) to end of file; `cur` = the variable `chunk` -/
structure CS where
  rem : Bytes
  caps : List Nat
  cur : Option Bytes := none
  out : List Bytes := []
  bad : Bool := false
  broke : Bool := false      -- a `break` was executed in this round: the rest of the body is skipped and the loop ends

def cRead (n : Nat) (s : CS) : CS :=
  let c := s.rem.take (readLimit n s.caps)
  { s with cur := some c, rem := s.rem.drop c.length, caps := s.caps.tail }

def bodyStep (n : Nat) (s : CS) (st : CStep) : CS :=
  if s.broke then s else
  match st with
  | .yieldChunk => match s.cur with | some c => { s with out := s.out ++ [c] } | none => { s with bad := true }
  | .read => cRead n s
  | .breakIfEmpty =>                      -- `if not chunk: break`
    match s.cur with
    | some c => if c.isEmpty then { s with broke := true } else s
    | none => { s with bad := true }
  | _ => { s with bad := true }

/-- `while chunk: body`, at most `fuel` rounds -/
def loopI (n : Nat) (body : List CStep) : Nat → CS → CS
  | 0, s => s
  | f + 1, s =>
    match s.cur with
    | none => { s with bad := true }
    | some c => if c.isEmpty then s else loopI n body f (body.foldl (bodyStep n) s)

/-- `while True: body` (left by `break`), at most `fuel` rounds -/
def loopTrueI (n : Nat) (body : List CStep) : Nat → CS → CS
  | 0, s => s
  | f + 1, s =>
    let s' := body.foldl (bodyStep n) s
    if s'.broke then s' else loopTrueI n body f s'

def preStep (n fuel : Nat) (body : List CStep) (s : CS) : CStep → CS
  | .seekIfGiven => if s.cur.isSome then { s with bad := true } else s      -- the seek comes before any read
  | .read => cRead n s
  | .whileChunk => loopI n body fuel s
  | .whileTrue => loopTrueI n body fuel s
  | _ => { s with bad := true }

def chunksI (src : ChunksSrc) (n : Nat) (caps : List Nat) (rem : Bytes) : Option (List Bytes) :=
  let s := src.pre.foldl (preStep n (rem.length + 1) src.body) { rem := rem, caps := caps }
  if s.bad then none else some s.out

def refChunks : ChunksSrc := { pre := [.seekIfGiven, .read, .whileChunk], body := [.yieldChunk, .read] }
/-- the same loop rotated: `while True: chunk = read(); if not chunk: break; yield chunk` -/
def refChunksRotated : ChunksSrc := { pre := [.seekIfGiven, .whileTrue], body := [.read, .breakIfEmpty, .yieldChunk] }

/-! ### `ContentType.__repr__` and `_quote` -/
inductive Piece | key | quotedValue | rawValue | lit (t : Text) | type | subtype | params | unknown
deriving DecidableEq, Repr

structure ReprSrc where
  guardOnParams : Bool
  lead : Text
  sep : Text
  sorted : Bool
  item : List Piece
  result : List Piece
  quote : List (Nat × Text)        -- `.replace(chr c, r)` in the order applied
deriving DecidableEq, Repr

def replace1 (c : Nat) (rep : Text) (s : Text) : Text := s.flatMap fun x => if x = c then rep else [x]
def quoteI (q : List (Nat × Text)) (v : Text) : Text := q.foldl (fun acc p => replace1 p.1 p.2 acc) v

def itemI (src : ReprSrc) (p : Text × Text) : Text :=
  src.item.flatMap fun
    | .key => p.1
    | .quotedValue => quoteI src.quote p.2
    | .rawValue => p.2
    | .lit t => t
    | _ => []

def joinI (sep : Text) : List Text → Text
  | [] => []
  | [x] => x
  | x :: y :: xs => x ++ sep ++ joinI sep (y :: xs)

def renderI (src : ReprSrc) (ct : CT) : Text :=
  let items := ct.params.map (itemI src)
  let items := if src.sorted then items.mergeSort lexLe else items
  let params := if src.guardOnParams && ct.params.isEmpty then [] else src.lead ++ joinI src.sep items
  src.result.flatMap fun
    | .type => ct.type
    | .subtype => ct.subtype
    | .params => params
    | .lit t => t
    | _ => []

def refRepr : ReprSrc :=
  { guardOnParams := true, lead := [59, 32], sep := [59, 32], sorted := true,
    item := [.key, .lit [61, 34], .quotedValue, .lit [34]], result := [.type, .lit [47], .subtype, .params],
    quote := [(92, [92, 92]), (34, [92, 34])] }

/-! ### the charset work-around of `_make_content_type` -/
inductive FixScope | onlyKey (k : Text) | everyParam | unknown
deriving DecidableEq, Repr

structure FixSrc where
  guardKey : Text
  scope : FixScope
  cut : Nat
deriving DecidableEq, Repr

/-- `v[: v.find(c)]` under `if c in v` (else `v`) -/
def cutAt (c : Nat) (v : Text) : Text := v.takeWhile (· != c)

def fixI (src : FixSrc) (ps : List (Text × Text)) : List (Text × Text) :=
  if ps.any (·.1 == src.guardKey) then
    match src.scope with
    | .onlyKey k => ps.map fun p => if p.1 = k then (p.1, cutAt src.cut p.2) else p
    | .everyParam => ps.map fun p => (p.1, cutAt src.cut p.2)
    | .unknown => []
  else ps

def refFix : FixSrc := { guardKey := charsetName, scope := .onlyKey charsetName, cut := chComma }

end TTV.ContentSkel
