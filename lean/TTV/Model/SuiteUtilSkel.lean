import TTV.Model.Suite
/-! The suite utilities of `testtools/testsuite.py` and the `--load-list` block of `testtools/run.py`, as data.

`harness/pysuite2lean.py` re-reads `iterate_tests`, `filter_by_ids`, `_flatten_tests`, `sorted_tests` and
`TestProgram.__init__` from the tree under test on every run and emits what it finds as terms of the types below
(`TTV/Generated/SuiteSrc.lean`).  The interpreters give the data its meaning over the M-Suite trees; `C19_src_*` prove that
the hand-written `iterate`, `filterIds`, `flatten`, `sortedTests` and the `--load-list` step are the interpretation of exactly
what was found.  An edit of the case order, of what replaces a filtered-out case, of the order "take the first id / call
sort_tests", of the duplicate check, or dropping the assignment of the filtered suite changes the generated term and breaks
a proof.

Trusted here: that the interpreters read the recognised forms as Python does (cases tried in order, the first whose test
holds decides; a suite with its own `filter_by_ids` / `sort_tests` implements them by the documented idioms of
`harness/props/c19.py`; `list.sort` is stable).  Object identity is not modelled: that the replacement suite is a *new* object
is carried by the flag of `keepIfIdIn` only.  Forms the translator does not recognise become `unknown`, on which the
interpreters answer something no model function answers; no reference term contains one. -/
namespace TTV.SuiteUtilSkel
open TTV.Suite

/-! ### `iterate_tests` -/
inductive IterArm | yieldSelf | yieldFromChildren | unknown
deriving DecidableEq, Repr

structure IterSrc where
  nonIterable : IterArm      -- `except TypeError:` arm
  iterable : IterArm         -- `else:` arm
deriving DecidableEq, Repr

mutual
def iterateI (s : IterSrc) : T → List Nat
  | .case id => if s.nonIterable = .yieldSelf then [id] else []
  | .suite _ cs => if s.iterable = .yieldFromChildren then iterateIL s cs else []
def iterateIL (s : IterSrc) : List T → List Nat
  | [] => []
  | t :: ts => iterateI s t ++ iterateIL s ts
end

def refIter : IterSrc := { nonIterable := .yieldSelf, iterable := .yieldFromChildren }

/-! ### `filter_by_ids` -/
inductive FTest | hasOwnFilter | hasId | isTestSuite | unknown
deriving DecidableEq, Repr

inductive FAct
  | delegate                      -- `return x.filter_by_ids(ids)`
  | keepIfIdIn (fresh : Bool)     -- `if x.id() in ids: return x else: return <r>`; fresh: `<r>` is the call `unittest.TestSuite()`
  | filterChildrenInPlace         -- `x._tests[:] = [filter_by_ids(item, ids) for item in x]`, then on to the final `return x`
  | unknown
deriving DecidableEq, Repr

structure FilterSrc where
  cases : List (FTest × FAct)
  finalReturnsSame : Bool
deriving DecidableEq, Repr

def FTest.holds : FTest → T → Bool
  | .hasOwnFilter, .suite .cfilter _ => true
  | .hasId, .case _ => true
  | .isTestSuite, .suite _ _ => true
  | _, _ => false

def chooseAct : List (FTest × FAct) → T → Option FAct
  | [], _ => none
  | (.unknown, _) :: _, _ => some .unknown        -- a test the translator could not read: nothing is known from here on
  | (t, a) :: rest, x => if t.holds x then some a else chooseAct rest x

/-- an answer no model function gives (a case where a suite is expected to stay and vice versa does not arise) -/
def junk : T := .suite .plain [.suite .plain [.suite .plain []]]

mutual
def filterI (s : FilterSrc) (S : Nat → Bool) : T → T
  | .case id =>
    match chooseAct s.cases (.case id) with
    | some (.keepIfIdIn fresh) => if S id then .case id else if fresh then .suite .plain [] else junk
    | none => if s.finalReturnsSame then .case id else junk
    | _ => junk
  | .suite k cs =>
    match chooseAct s.cases (.suite k cs) with
    | some .delegate => .suite k (filterIL s S cs)                       -- the custom suite's own method (documented idiom)
    | some .filterChildrenInPlace => if s.finalReturnsSame then .suite k (filterIL s S cs) else junk
    | none => if s.finalReturnsSame then .suite k cs else junk
    | _ => junk
def filterIL (s : FilterSrc) (S : Nat → Bool) : List T → List T
  | [] => []
  | t :: ts => filterI s S t :: filterIL s S ts
end

def refFilter : FilterSrc :=
  { cases := [(.hasOwnFilter, .delegate), (.hasId, .keepIfIdIn true), (.isTestSuite, .filterChildrenInPlace)], finalReturnsSame := true }

/-! ### `_flatten_tests` -/
inductive FlatNon | single | unknown
deriving DecidableEq, Repr
inductive FlatTest | plainTypeOrOuter | unknown
deriving DecidableEq, Repr
inductive FlatBody | extendRecursive | unknown
deriving DecidableEq, Repr
/-- the steps of the branch that keeps a custom suite whole, in the order they occur -/
inductive WholeStep | firstId | sortIfHas | returnPair | unknown
deriving DecidableEq, Repr

structure FlattenSrc where
  nonIterable : FlatNon
  unpackTest : FlatTest
  unpackBody : FlatBody
  wholeSteps : List WholeStep
deriving DecidableEq, Repr

/-- run the steps on a custom suite: `cur` = the suite as it is now, `key` = `suite_id` if assigned -/
def wholeI (k : Kind) (sortedChildren : List T) : List WholeStep → T → Option (Option Nat) → List Item
  | [], _, _ => []
  | .firstId :: rest, cur, _ => wholeI k sortedChildren rest cur (some (iterate cur).head?)
  | .sortIfHas :: rest, cur, key => wholeI k sortedChildren rest (if k = .csort then .suite k sortedChildren else cur) key
  | .returnPair :: _, cur, some key => [(key, cur)]
  | .returnPair :: _, _, none => []
  | .unknown :: _, _, _ => []

mutual
def flattenI (s : FlattenSrc) (outer : Bool) : T → List Item
  | .case id => if s.nonIterable = .single then [(some id, .case id)] else []
  | .suite k cs =>
    if s.unpackTest = .plainTypeOrOuter && (k = .plain || outer) then
      (if s.unpackBody = .extendRecursive then flattenIL s cs else [])
    else
      -- `sort_tests` of the documented idiom: `self._tests = sorted_tests(self, True)._tests`
      wholeI k ((sortItems (flattenIL s cs)).map (·.2)) s.wholeSteps (.suite k cs) none
def flattenIL (s : FlattenSrc) : List T → List Item
  | [] => []
  | t :: ts => flattenI s false t ++ flattenIL s ts
end

def refFlatten : FlattenSrc :=
  { nonIterable := .single, unpackTest := .plainTypeOrOuter, unpackBody := .extendRecursive,
    wholeSteps := [.firstId, .sortIfHas, .returnPair] }

/-- the `sort_tests` method of a suite class as found in the source: `self._tests = list(sorted_tests(self, True))` - the children
become the items of `sorted_tests` of the suite itself, its own (outer) level unpacked and nothing else: plain suites below it
dissolved, every other suite below it kept whole (and sorted in turn) -/
inductive SortSelf | itemsOfSortedOuter | unknown
deriving DecidableEq, Repr

/-- the children after `sort_tests` (`none`: not interpreted) -/
def sortSelfI (s : FlattenSrc) : SortSelf → List T → Option (List T)
  | .itemsOfSortedOuter, cs => some ((sortItems (flattenIL s cs)).map (·.2))
  | .unknown, _ => none

def refSortSelf : SortSelf := .itemsOfSortedOuter

/-! ### `sorted_tests` -/
inductive DupOver | iterateTests | unknown
deriving DecidableEq, Repr
inductive SortedStep | dupCheck (over : DupOver) | flatten | sortByKey | returnPlainSuite | unknown
deriving DecidableEq, Repr

inductive SortedOut | bad | valueError | ok (t : T)

def sortedI (it : IterSrc) (fl : FlattenSrc) (x : T) : List SortedStep → Option (List Item) → SortedOut
  | [], _ => .bad
  | .dupCheck .iterateTests :: rest, items => if hasDup (iterateI it x) then .valueError else sortedI it fl x rest items
  | .dupCheck .unknown :: _, _ => .bad
  | .flatten :: rest, _ => sortedI it fl x rest (some (flattenI fl false x))
  | .sortByKey :: rest, some items => sortedI it fl x rest (some (sortItems items))
  | .sortByKey :: _, none => .bad
  | .returnPlainSuite :: _, some items => .ok (.suite .plain (items.map (·.2)))
  | .returnPlainSuite :: _, none => .bad
  | .unknown :: _, _ => .bad

def refSorted : List SortedStep := [.dupCheck .iterateTests, .flatten, .sortByKey, .returnPlainSuite]

/-! ### `TestProgram.__init__`: `--load-list` -/
inductive LLStep | openRead | readLines | idsFromLines | assignFiltered | unknown
deriving DecidableEq, Repr

structure LoadListSrc where
  placedBetweenParseAndRun : Bool
  steps : List LLStep
deriving DecidableEq, Repr

/-- ids of the tests that are run: `self.test` after the block, iterated -/
def loadedI (l : LoadListSrc) (it : IterSrc) (f : FilterSrc) (S : Nat → Bool) (x : T) : Option (List Nat) :=
  if l.placedBetweenParseAndRun && l.steps == [.openRead, .readLines, .idsFromLines, .assignFiltered] then
    some (iterateI it (filterI f S x))
  else none

def refLoadList : LoadListSrc :=
  { placedBetweenParseAndRun := true, steps := [.openRead, .readLines, .idsFromLines, .assignFiltered] }

end TTV.SuiteUtilSkel
