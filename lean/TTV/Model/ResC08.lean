import TTV.Model.Result
/-! C08 on M-Res: input, observed trace and the model's trace. -/
namespace TTV.ResC08
open TTV.Result

/-- a linear stack (`ExtendedToOriginalDecorator` / `TestResultDecorator` / `Tagger` layers) over a `TestByTestResult` -/
def linearTbt : Shape → Bool
  | .tbt => true
  | .etod c | .deco c | .tagger _ _ c => linearTbt c
  | _ => false

/-- `faults`: the tests for which the user's `on_test` callback raises (after having been called).  Only for
`linearTbt` shapes.  The exception leaves `stopTest` towards the caller and changes nobody's state: every layer above
updates its own tag context before it delegates `stopTest`, and `TestByTestResult.stopTest` takes the tags and leaves
the test's tag context (`super().stopTest`) *before* it calls `on_test` — `tbtStep` is written in that order.  So the
model's transition does not mention `faults`; that this is what the code does is checked by the correspondence (the
harness raises from the callback, catches the exception at the caller and carries on with the history). -/
structure Input where
  shape : Shape
  hist : List Call
  faults : List Nat := []
deriving Repr

/-- what the harness observes of one leaf: its event log and (for a `TestByTestResult`) its callbacks -/
structure LeafTrace where
  log : List Ev
  calls : List TbtCall
deriving Repr, DecidableEq

abbrev Trace := List LeafTrace

def observe (l : LeafSt) : LeafTrace := { log := l.log, calls := l.calls }

def model (i : Input) : Trace :=
  (leaves i.shape (run i.shape (init i.shape) i.hist)).map observe

end TTV.ResC08
