import TTV.Model.Result
/-! C08 on M-Res: input, observed trace and the model's trace. -/
namespace TTV.ResC08
open TTV.Result

structure Input where
  shape : Shape
  hist : List Call
deriving Repr

/-- what the harness observes of one leaf: its event log and (for a `TestByTestResult`) its callbacks -/
structure LeafTrace where
  log : List Ev
  calls : List TbtCall
deriving Repr, DecidableEq

abbrev Trace := List LeafTrace

def observe (l : LeafSt) : LeafTrace := { log := l.log, calls := l.calls }

def model (i : Input) : Trace :=
  (leaves i.shape (run i.shape (init i.shape) i.hist)).map observe

end TTV.ResC08
