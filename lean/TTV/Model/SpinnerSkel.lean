import TTV.Model.Spinner
/-! The source of `testtools/twistedsupport/_spinner.py` as DATA, and what the data means over the reactor / Spinner model.

`harness/pyspinner2lean.py` re-reads `Spinner.run`, the callbacks it installs, `_get_result`, `_clean`, the signal helpers,
`not_reentrant` and `trap_unhandled_errors` from the tree under test on every run and emits terms of the types below into
`TTV/Generated/SpinnerSkel.lean`.  The interpreters give the terms their meaning; `C15_src_*` (Props/C15.lean) prove that the
hand-written model (`Reactor.deliver`, `execTimeout`, `stopReactor`, `getResult`, `Spinner.runStep`) IS the interpretation of
what was found.  A statement the translator does not recognise becomes `.unknown`, which no reference term contains. -/
namespace TTV.SpinnerSkel
open TTV.Reactor TTV.Spinner

/-! ## the small methods: callbacks and helpers -/

inductive CbStep
  | cancelTimeout          -- `self._cancel_timeout()`: raises AlreadyCalled / AlreadyCancelled unless the timeout call is pending
  | storeSuccess           -- `self._success = result`
  | storeFailure           -- `self._failure = result`
  | storeTimeoutFailure    -- `self._failure = Failure(TimeoutError(function, timeout))`
  | stopReactor            -- `self._stop_reactor()`
  | onlyIfSpinning         -- `if self._spinning:` guarding the rest of the body
  | crash                  -- `self._reactor.crash()`
  | clearSpinning          -- `self._spinning = False`
  | unknown
deriving DecidableEq, Repr

/-- run a method body; an exception (only `cancelTimeout` on a call that is not pending raises) aborts the rest - it is swallowed
by the Deferred's callback chain.  `stop`: the body of `_stop_reactor`. -/
def cbI (stop : List CbStep) : Nat → List CbStep → Res → W → W
  | _, [], _, w => w
  | fuel, .cancelTimeout :: k, r, w =>
    match w.sp.tcall with
    | .pending => cbI stop fuel k r { w with calls := w.calls.filter (fun c => !c.act.isTimeout), sp := { w.sp with tcall := .cancelled } }
    | _ => w
  | fuel, .storeSuccess :: k, r, w =>
    match r with
    | .value v => cbI stop fuel k r { w with sp := { w.sp with success := some v } }
    | _ => w
  | fuel, .storeFailure :: k, r, w => cbI stop fuel k r { w with sp := { w.sp with failure := some r } }
  | fuel, .storeTimeoutFailure :: k, r, w => cbI stop fuel k r { w with sp := { w.sp with failure := some .timeout } }
  | 0, .stopReactor :: _, _, w => w
  | fuel + 1, .stopReactor :: k, r, w => cbI stop fuel k r (cbI stop fuel stop r w)
  | fuel, .onlyIfSpinning :: k, r, w => if w.sp.spinning then cbI stop fuel k r w else w
  | fuel, .crash :: k, r, w => cbI stop fuel k r { w with crashed := true }
  | fuel, .clearSpinning :: k, r, w => cbI stop fuel k r { w with sp := { w.sp with spinning := false } }
  | _, .unknown :: _, _, w => w

/-- the callbacks `run_function` hangs on the function's Deferred, fired with `r`: `_got_success` or `_got_failure`, then
(`addBoth`) `_stop_reactor` -/
def deliverI (gotSuccess gotFailure stop : List CbStep) (r : Res) (w : W) : W :=
  let first := match r with
    | .value _ => gotSuccess
    | _ => gotFailure
  cbI stop 1 stop r (cbI stop 1 first r w)

/-- the reactor runs the timeout call: it is marked called, logged, and `_timed_out` runs -/
def timedOutI (timedOut stop : List CbStep) (w : W) : W :=
  let w := logEvent .timeout w
  cbI stop 1 timedOut .timeout { w with sp := { w.sp with tcall := .called } }

def refGotSuccess : List CbStep := [.cancelTimeout, .storeSuccess]
def refGotFailure : List CbStep := [.cancelTimeout, .storeFailure]
def refStopReactor : List CbStep := [.onlyIfSpinning, .crash, .clearSpinning]
def refTimedOut : List CbStep := [.storeTimeoutFailure, .stopReactor]
def refFakeStop : List CbStep := [.crash]

/-! ## `_get_result` -/

inductive ResGuard | failureSet | successSet | otherwise | unknown
deriving DecidableEq, Repr
inductive ResArm | raiseFailure | returnSuccess | raiseNoResult | unknown
deriving DecidableEq, Repr

/-- the arms in source order; the first whose guard holds decides (identity tests against `_UNSET`) -/
def getResultI : List (ResGuard × ResArm) → Reactor.Spinner → Res
  | [], _ => .noresult
  | (g, a) :: rest, sp =>
    let holds := match g with
      | .failureSet => sp.failure.isSome
      | .successSet => sp.success.isSome
      | .otherwise => true
      | .unknown => false
    if holds then
      match a, sp.failure, sp.success with
      | .raiseFailure, some f, _ => f
      | .returnSuccess, _, some v => .value v
      | .raiseNoResult, _, _ => .noresult
      | _, _, _ => .noresult
    else getResultI rest sp

def refGetResult : List (ResGuard × ResArm) :=
  [(.failureSet, .raiseFailure), (.successSet, .returnSuccess), (.otherwise, .raiseNoResult)]

/-! ## `_clean` -/

inductive CleanStep
  | iterateObligatory      -- `for i in range(self._OBLIGATORY_REACTOR_ITERATIONS): self._reactor.iterate(0)`
  | newJunkList            -- `junk = []`
  | cancelCallsIntoJunk    -- every `getDelayedCalls()` entry is cancelled and appended
  | removeSelectablesIntoJunk  -- every `removeAll()` entry is appended
  | stopThreadPool         -- `if IReactorThreads.providedBy(reactor): if reactor.threadpool is not None: reactor._stopThreadPool()`
  | extendRecordedJunk     -- `self._junk.extend(junk)`
  | returnJunk
  | unknown
deriving DecidableEq, Repr

/-- (`iterate`: what the obligatory iterations do to the world - nothing for the plain Spinner, whose count is 0) -/
def cleanI (iterate : W → W) : List CleanStep → W × List Junk → W × List Junk
  | [], s => s
  | .iterateObligatory :: k, (w, j) => cleanI iterate k (iterate w, j)
  | .newJunkList :: k, (w, _) => cleanI iterate k (w, [])
  | .cancelCallsIntoJunk :: k, (w, j) => cleanI iterate k ({ w with calls := [] }, j ++ w.calls.map (fun c => Junk.call c.act.lbl))
  | .removeSelectablesIntoJunk :: k, (w, j) => cleanI iterate k ({ w with sels := [] }, j ++ w.sels.map Junk.sel)
  | .stopThreadPool :: k, s => cleanI iterate k s
  | .extendRecordedJunk :: k, (w, j) => cleanI iterate k ({ w with sp := { w.sp with junk := w.sp.junk ++ j } }, j)
  | .returnJunk :: k, s => cleanI iterate k s
  | .unknown :: _, s => s

def refClean : List CleanStep :=
  [.iterateObligatory, .newJunkList, .cancelCallsIntoJunk, .removeSelectablesIntoJunk, .stopThreadPool, .extendRecordedJunk, .returnJunk]

/-! ## shapes that are recognised as a whole -/

/-- `_save_signals` / `_restore_signals` -/
inductive SaveShape
  | assignsFreshListOfAvailablePreserved   -- `self._saved_signals = [(sig, signal.getsignal(sig)) for the preserved signals the platform has]`
  | unknown
deriving DecidableEq, Repr
inductive RestoreShape
  | reinstallsEachThenEmptiesList           -- `for sig, hdlr in self._saved_signals: signal.signal(sig, hdlr)`; `self._saved_signals = []`
  | unknown
deriving DecidableEq, Repr

/-- `not_reentrant` -/
inductive ReentrantStep
  | raiseIfActive          -- `if _calls.get(function, False): raise ReentryError(function)`
  | markActive             -- `_calls[function] = True`
  | tryCallFinallyInactive -- `try: return function(*args, **kwargs) finally: _calls[function] = False`
  | unknown
deriving DecidableEq, Repr
def refNotReentrant : List ReentrantStep := [.raiseIfActive, .markActive, .tryCallFinallyInactive]

/-- `trap_unhandled_errors` -/
inductive TrapStep
  | subclassDebugInfoRecordingInstances   -- a DebugInfo subclass whose __init__ appends the instance to a list (and calls the real one)
  | install                                -- `defer.DebugInfo = DebugInfo`
  | tryCallFinallyRestore                  -- `try: result = function(*args, **kwargs) finally: defer.DebugInfo = real_DebugInfo`
  | collectWithFailResult                  -- the recorded instances whose `failResult is not None`, their real `__del__` disabled
  | returnResultAndErrors
  | unknown
deriving DecidableEq, Repr
def refTrap : List TrapStep :=
  [.subclassDebugInfoRecordingInstances, .install, .tryCallFinallyRestore, .collectWithFailResult, .returnResultAndErrors]

/-! ## `Spinner.run` -/

/-- `run_function`, the function handed to `callWhenRunning` -/
inductive RfStep
  | maybeDeferred                   -- `d = defer.maybeDeferred(function, *args, **kwargs)`
  | addCallbacksGuarded             -- `d.addCallbacks(guard(self._got_success), guard(self._got_failure))`
  | addBothStopGuarded              -- `d.addBoth(guard(self._stop_reactor))`
  | unknown
deriving DecidableEq, Repr
def refRunFunction : List RfStep := [.maybeDeferred, .addCallbacksGuarded, .addBothStopGuarded]

inductive Step
  | refuseIfJunk        -- `junk = self.get_junk(); if junk: raise StaleJunkError(junk)`
  | resetResult         -- `self._success = self._UNSET; self._failure = self._UNSET`
  | saveSignals         -- `self._save_signals()`
  | scheduleTimeout     -- `self._timeout_call = self._reactor.callLater(timeout, self._timed_out, function, timeout)`
  | patchStop           -- `real_stop, self._reactor.stop = self._reactor.stop, self._fake_stop`
  | newRunToken         -- `this_run = _Run()`; `guard(cb)` = `lambda result: cb(result) if not this_run.over else None`
  | callWhenRunning     -- `self._reactor.callWhenRunning(run_function)`
  | setSpinning         -- `self._spinning = True`
  | reactorRun          -- `self._reactor.run()`
  | runOver             -- `this_run.over = True`
  | clearSpinning       -- `self._spinning = False`
  | unpatchStop         -- `self._reactor.stop = real_stop`
  | restoreSignals      -- `self._restore_signals()`
  | returnResult        -- `return self._get_result()`
  | clean               -- `self._clean()`
  | unknown
deriving DecidableEq, Repr

inductive Skel
  | step (s : Step) (k : Skel)
  | tryFinally (body fin k : Skel)
  | withDebugFixture (body : Skel)      -- `with (DebugTwisted(True) if self._debug else Fixture()):` around the rest
  | done
deriving DecidableEq, Repr

def refRun : Skel :=
  .withDebugFixture (.step .refuseIfJunk (.step .resetResult (.step .saveSignals (.step .scheduleTimeout (.step .patchStop
    (.step .newRunToken
      (.tryFinally (.step .callWhenRunning (.step .setSpinning (.step .reactorRun .done)))
                   (.step .runOver (.step .clearSpinning (.step .unpatchStop (.step .restoreSignals .done))))
        (.tryFinally (.step .returnResult .done) (.step .clean .done) .done))))))))

/-- the state of one call of `run` -/
structure St where
  w : W
  raised : Option Res := none      -- `run` has raised out of the statements before its `try` blocks
  result : Option Res := none      -- what `return self._get_result()` returned / raised
  token : Bool := false            -- a run token exists: the callbacks can be guarded
  over : Bool := false             -- `this_run.over`
  starts : Bool := false           -- `run_function` is queued for the start of the reactor
  bad : Bool := false              -- something the model cannot express

def stepI (sc : Scen) (rf : List RfStep) (getResult : List (ResGuard × ResArm)) (clean : List CleanStep) : Step → St → St
  | .refuseIfJunk, s => if s.w.sp.junk.isEmpty then s else { s with raised := some .stalejunk }
  | .resetResult, s => { s with w := { s.w with sp := { s.w.sp with success := none, failure := none } } }
  | .saveSignals, s => { s with w := { s.w with sp := { s.w.sp with saved := s.w.sigs } } }
  | .scheduleTimeout, s =>
    if sc.bad then { s with raised := some .rejected }       -- `reactor.callLater` raises
    else { s with w := (let w := schedule (s.w.now + sc.timeout) .timeout s.w
                        { w with sp := { w.sp with tcall := .pending } }) }
  | .patchStop, s => { s with w := { s.w with stopPatched := true } }
  | .newRunToken, s => { s with token := true }
  | .callWhenRunning, s => { s with starts := true, bad := s.bad || !(s.token && rf == refRunFunction) }
  | .setSpinning, s => { s with w := { s.w with sp := { s.w.sp with spinning := true } } }
  | .reactorRun, s =>
    let w : W := { s.w with running := true, crashed := false }
    -- the reactor starts: `run_function` calls `f` and hangs the (guarded) callbacks on its Deferred; then the loop
    let w := if s.starts then finishF sc.term (runBody sc.pre.length sc.body w) else w
    let w := spin exec (fun w => w.calls.length) (w.calls.length + 1) w
    { s with w := { w with running := false } }
  | .runOver, s => { s with over := true }
  | .clearSpinning, s => { s with w := { s.w with sp := { s.w.sp with spinning := false } } }
  | .unpatchStop, s => { s with w := { s.w with stopPatched := false } }
  | .restoreSignals, s => { s with w := { s.w with sigs := restoreFrom 0 s.w.sp.saved s.w.sigs, sp := { s.w.sp with saved := [] } } }
  | .returnResult, s => { s with result := some (getResultI getResult s.w.sp), bad := s.bad || !s.over }
  | .clean, s => { s with w := (cleanI (iterations sc sc.oblig) clean (s.w, [])).1 }
  | .unknown, s => { s with bad := true }

/-- once `run` has raised nothing more is executed (the reference skeleton raises only before its `try` blocks) -/
def interp (sc : Scen) (rf : List RfStep) (gr : List (ResGuard × ResArm)) (cl : List CleanStep) : Skel → St → St
  | .done, s => s
  | .step st k, s => if s.raised.isSome then s else interp sc rf gr cl k (stepI sc rf gr cl st s)
  | .tryFinally body fin k, s =>
    if s.raised.isSome then s else
    let s := interp sc rf gr cl body s
    let s := interp sc rf gr cl fin { s with raised := none }
    interp sc rf gr cl k s
  | .withDebugFixture body, s => interp sc rf gr cl body s

/-- the state in which `spinner.run` is called: the harness has scheduled the `pre` calls -/
def enter (sc : Scen) (w0 : W) : W := schedPre 0 sc.pre { w0 with t0 := w0.now, events := [], u := {} }

end TTV.SpinnerSkel
