import TTV.Model.StreamTypes
import TTV.Generated.Stream
/-! M-Stream, consumers: transcription of `_StreamToTestRecord` (the table of in-progress tests keyed by
`(test_id, route_code)`), `_TestRecord`, `StreamToDict`, `StreamSummary`, `StreamToExtendedDecorator`
and `PlaceHolder.run` (testtools/testresult/real.py, testtools/testcase.py).  Import-free apart from the
family's own modules. -/
namespace TTV.Stream

/-! ## the in-progress table: a Python dict = insertion-ordered association list -/
abbrev Key := Nat × Option Str
abbrev Tbl := List (Key × Report)

def Tbl.get : Tbl → Key → Option Report
  | [], _ => none
  | (k', a) :: t, k => if k' = k then some a else Tbl.get t k
/-- `d[k] = a`: an existing key keeps its position, a new key goes to the end -/
def Tbl.set : Tbl → Key → Report → Tbl
  | [], k, a => [(k, a)]
  | (k', a') :: t, k, a => if k' = k then (k, a) :: t else (k', a') :: Tbl.set t k a
/-- `d.pop(k)` -/
def Tbl.del : Tbl → Key → Tbl
  | [], _ => []
  | (k', a') :: t, k => if k' = k then Tbl.del t k else (k', a') :: Tbl.del t k

/-! ## `_TestRecord` -/
/-- `_ensure_key`: `None` when the event has no test id -/
def key (e : Event) : Option Key := e.testId.map fun i => (i, e.route)

/-- `test_status not in INTERIM_STATES` -/
def isFinal (e : Event) : Bool := !Generated.Stream.interim.contains e.status

/-- `_TestRecord.create(test_id, timestamp)` -/
def create (id : Nat) (e : Event) : Report :=
  { id := id, tags := [], details := [], status := .unknown, ts0 := e.timestamp, ts1 := none }

/-- `got_file`: a known name gets the chunk appended; a new name is added at the end of the dict with the
content type of this (its first non-empty) chunk, `application/octet-stream` (token 0) when `mime_type` is `None` -/
def addFile : List Detail → Nat → Option Nat → Bytes → List Detail
  | [], n, m, bs => [{ name := n, mime := m.getD 0, bytes := bs }]
  | d :: ds, n, m, bs => if d.name = n then { d with bytes := d.bytes ++ bs } :: ds else d :: addFile ds n m bs

/-- `_update_case` -/
def upd (r : Report) (e : Event) : Report :=
  let r := match e.status with | some s => { r with status := s } | none => r
  let r := { r with ts1 := e.timestamp }
  let r := match e.fileName, e.fileBytes with
    | some n, some (b :: bs) => { r with details := addFile r.details n e.mime (b :: bs) }
    | _, _ => r
  match e.tags with | some g => { r with tags := g } | none => r

/-- one `status()` call of `_StreamToTestRecord`: new table and the records handed to `on_test` -/
def step (t : Tbl) (e : Event) : Tbl × List (Key × Report) :=
  match key e with
  | none => (t, [])
  | some k =>
    let cur := (t.get k).getD (create k.1 e)
    let a := upd cur e
    if isFinal e then (t.del k, [(k, a)]) else (t.set k a, [])

def run : Tbl → List Event → Tbl × List (Key × Report)
  | t, [] => (t, [])
  | t, e :: es =>
    let r1 := step t e
    let r2 := run r1.1 es
    (r2.1, r1.2 ++ r2.2)

/-- `stopTestRun`: `popitem()` until empty (last inserted first), each with `got_timestamp(None)` -/
def flush (t : Tbl) : List (Key × Report) := t.reverse.map fun p => (p.1, { p.2 with ts1 := none })

/-- `startTestRun; status*; stopTestRun` on a `_StreamToTestRecord`: the `on_test` calls in order -/
def consumeKeyed (es : List Event) : List (Key × Report) :=
  let r := run [] es
  r.2 ++ flush r.1

def consume (es : List Event) : List Report := (consumeKeyed es).map (·.2)

/-! ## `StreamSummary` -/
structure Summary where
  testsRun : Nat
  errors : List Nat
  failures : List Nat
  skipped : List Nat
  expectedFailures : List Nat
  unexpectedSuccesses : List Nat
  wasSuccessful : Bool
deriving DecidableEq, Repr

def Summary.push (s : Summary) (b : Bucket) (id : Nat) : Summary :=
  match b with
  | .none => s
  | .errors => { s with errors := s.errors ++ [id] }
  | .failures => { s with failures := s.failures ++ [id] }
  | .skipped => { s with skipped := s.skipped ++ [id] }
  | .expectedFailures => { s with expectedFailures := s.expectedFailures ++ [id] }
  | .unexpectedSuccesses => { s with unexpectedSuccesses := s.unexpectedSuccesses ++ [id] }

/-- `_gather_test` -/
def gather (s : Summary) (r : Report) : Summary :=
  if Generated.Stream.counted r.status then
    ({ s with testsRun := s.testsRun + 1 }).push (Generated.Stream.bucket r.status) r.id
  else s

def Summary.empty : Summary :=
  { testsRun := 0, errors := [], failures := [], skipped := [], expectedFailures := [],
    unexpectedSuccesses := [], wasSuccessful := true }

/-- the public attributes after `stopTestRun`; `wasSuccessful() = not failures and not errors` -/
def summarise (rs : List Report) : Summary :=
  let s := rs.foldl gather Summary.empty
  { s with wasSuccessful := s.failures.isEmpty && s.errors.isEmpty }

/-! ## `StreamToExtendedDecorator` + `PlaceHolder.run` -/
def optTime : Option Ts → List ExtEv
  | some t => [.time t]
  | none => []

/-- `test_record.to_test_case().run(result)`; a status without entry in `_status_map` (only `exists`,
which `StreamToExtendedDecorator.status` drops before the table) would be a `KeyError`: no calls -/
def bracket (r : Report) : List ExtEv :=
  match Generated.Stream.statusMap r.status with
  | none => []
  | some o =>
    optTime r.ts0 ++ [.tags r.tags [], .startTest r.id] ++ optTime r.ts1 ++
      [.outcome o r.id r.details, .stopTest r.id, .tags [] r.tags]

def toExtended (es : List Event) : List ExtEv :=
  [.startTestRun] ++ ((consume (es.filter fun e => e.status != some .exist)).map bracket).flatten ++ [.stopTestRun]

/-! ## consumers that raise
The callback (`on_test`; for `StreamToExtendedDecorator` the wrapped result's outcome method) may raise at a
hand-over.  `faults` lists the hand-overs of a run — numbered 0, 1, … in the order in which they are made — at
which it does.  In `status()` the record is popped from the table *before* the callback runs, so the exception
leaves `status()` with the table already cleaned; in `stopTestRun()` each record is `popitem()`ed before it is
handed over, so an exception leaves `stopTestRun()` with the records not yet popped still in the table: a later
`stopTestRun()` goes on with them.  The driver survives every exception and calls `stopTestRun()` again until
it returns normally. -/
structure FSt where
  tbl : Tbl
  n : Nat                  -- hand-overs made so far in this run
deriving Repr

/-- one `status()` call: new state, the record handed over (if any), whether the call raised -/
def statusF (faults : List Nat) (s : FSt) (e : Event) : FSt × List Report × Bool :=
  let r := step s.tbl e
  match r.2 with
  | [] => ({ tbl := r.1, n := s.n }, [], false)
  | p :: _ => ({ tbl := r.1, n := s.n + 1 }, [p.2], faults.contains s.n)

/-- the status calls of a run; `i` = index of the next event; result: state, hand-overs, indices of the calls that raised -/
def runF (faults : List Nat) : FSt → Nat → List Event → FSt × List Report × List Nat
  | s, _, [] => (s, [], [])
  | s, i, e :: es =>
    let r1 := statusF faults s e
    let r2 := runF faults r1.1 (i + 1) es
    (r2.1, r1.2.1 ++ r2.2.1, (if r1.2.2 then [i] else []) ++ r2.2.2)

/-- one `stopTestRun()` call on the records still in the table, given in `popitem()` order: the records handed over,
the records left in the table, the hand-over count, whether the call raised -/
def stopLoop (faults : List Nat) : List (Key × Report) → Nat → List Report × List (Key × Report) × Nat × Bool
  | [], n => ([], [], n, false)
  | p :: rest, n =>
    if faults.contains n then ([{ p.2 with ts1 := none }], rest, n + 1, true)
    else
      let x := stopLoop faults rest (n + 1)
      ({ p.2 with ts1 := none } :: x.1, x.2)

/-- the driver: `stopTestRun()` again and again until it returns normally (`fuel` bounds the number of calls);
result: all hand-overs, the number of calls that raised -/
def stopAll (faults : List Nat) : Nat → List (Key × Report) → Nat → List Report × Nat
  | 0, _, _ => ([], 0)
  | fuel + 1, l, n =>
    let x := stopLoop faults l n
    if x.2.2.2 then
      let y := stopAll faults fuel x.2.1 x.2.2.1
      (x.1 ++ y.1, y.2 + 1)
    else (x.1, 0)

structure Consumed where
  handed : List Report          -- every record handed to the callback, in order (whether or not it raised there)
  raisedAt : List Nat           -- indices of the status() calls that raised
  stopRaises : Nat              -- how many stopTestRun() calls raised before one returned
deriving DecidableEq, Repr

/-- `startTestRun; status*; stopTestRun (repeated while it raises)` with a callback raising at `faults` -/
def consumeF (faults : List Nat) (es : List Event) : Consumed :=
  let r := runF faults { tbl := [], n := 0 } 0 es
  let f := stopAll faults (r.1.tbl.length + 1) r.1.tbl.reverse r.1.n
  { handed := r.2.1 ++ f.1, raisedAt := r.2.2, stopRaises := f.2 }

/-- `PlaceHolder.run` into a result whose outcome method raises: the calls up to and including that one -/
def bracketAborted (r : Report) : List ExtEv :=
  match Generated.Stream.statusMap r.status with
  | none => []
  | some o => optTime r.ts0 ++ [.tags r.tags [], .startTest r.id] ++ optTime r.ts1 ++ [.outcome o r.id r.details]

def bracketsF (faults : List Nat) : Nat → List Report → List ExtEv
  | _, [] => []
  | n, r :: rs => (if faults.contains n then bracketAborted r else bracket r) ++ bracketsF faults (n + 1) rs

/-- `StreamToExtendedDecorator` over a result whose outcome methods raise at the hand-overs `faults`;
`decorated.stopTestRun()` is reached by the `stopTestRun()` call that returns normally -/
def toExtendedF (faults : List Nat) (es : List Event) : List ExtEv :=
  [.startTestRun]
    ++ bracketsF faults 0 (consumeF faults (es.filter fun e => e.status != some .exist)).handed
    ++ [.stopTestRun]

/-! ## C10: input = a list of runs on the same consumer objects -/
structure Run where
  events : List Event
  faults : List Nat         -- hand-overs (0-based, per consumer) at which the consumer's callback raises
deriving DecidableEq, Repr

structure RunTrace where
  dict : List Report        -- arguments of StreamToDict's on_test, in call order
  dictRaised : List Nat     -- status() calls on StreamToDict that raised
  dictStopRaises : Nat      -- stopTestRun() calls on StreamToDict that raised
  summary : Summary         -- public attributes of StreamSummary after stopTestRun (its consumer never raises)
  ext : List ExtEv          -- calls received by the extended result behind StreamToExtendedDecorator
  extRaised : List Nat      -- status() calls that raised, counted among the events that are not `exists` (those are dropped)
  extStopRaises : Nat
  realStarted : List Nat    -- ids for which a real testtools.TestResult behind a second StreamToExtendedDecorator saw startTest
deriving DecidableEq, Repr

structure Input where
  runs : List Run
deriving Repr

abbrev Trace := List RunTrace

def modelRun (r : Run) : RunTrace :=
  let d := consumeF r.faults r.events
  let x := consumeF r.faults (r.events.filter fun e => e.status != some .exist)
  { dict := d.handed, dictRaised := d.raisedAt, dictStopRaises := d.stopRaises
    summary := summarise (consume r.events)
    ext := toExtendedF r.faults r.events
    extRaised := x.raisedAt
    extStopRaises := x.stopRaises
    realStarted := (consume (r.events.filter fun e => e.status != some .exist)).map (·.id) }

def model (i : Input) : Trace := i.runs.map modelRun

end TTV.Stream
