import TTV.Model.StreamTypes
import TTV.Generated.Stream
/-! M-Stream, consumers: transcription of `_StreamToTestRecord` (the table of in-progress tests keyed by
`(test_id, route_code)`), `_TestRecord`, `StreamToDict`, `StreamSummary`, `StreamToExtendedDecorator`
and `PlaceHolder.run` (testtools/testresult/real.py, testtools/testcase.py).  Import-free apart from the
family's own modules. -/
namespace TTV.Stream

/-! ## the in-progress table: a Python dict = insertion-ordered association list -/
abbrev Key := Nat × Option Str
abbrev Tbl := List (Key × Report)

def Tbl.get : Tbl → Key → Option Report
  | [], _ => none
  | (k', a) :: t, k => if k' = k then some a else Tbl.get t k
/-- `d[k] = a`: an existing key keeps its position, a new key goes to the end -/
def Tbl.set : Tbl → Key → Report → Tbl
  | [], k, a => [(k, a)]
  | (k', a') :: t, k, a => if k' = k then (k, a) :: t else (k', a') :: Tbl.set t k a
/-- `d.pop(k)` -/
def Tbl.del : Tbl → Key → Tbl
  | [], _ => []
  | (k', a') :: t, k => if k' = k then Tbl.del t k else (k', a') :: Tbl.del t k

/-! ## `_TestRecord` -/
/-- `_ensure_key`: `None` when the event has no test id -/
def key (e : Event) : Option Key := e.testId.map fun i => (i, e.route)

/-- `test_status not in INTERIM_STATES` -/
def isFinal (e : Event) : Bool := !Generated.Stream.interim.contains e.status

/-- `_TestRecord.create(test_id, timestamp)` -/
def create (id : Nat) (e : Event) : Report :=
  { id := id, tags := [], details := [], status := .unknown, ts0 := e.timestamp, ts1 := none }

/-- `got_file`: a known name gets the chunk appended; a new name is added at the end of the dict with the
content type of this (its first non-empty) chunk, `application/octet-stream` (token 0) when `mime_type` is `None` -/
def addFile : List Detail → Nat → Option Nat → Bytes → List Detail
  | [], n, m, bs => [{ name := n, mime := m.getD 0, bytes := bs }]
  | d :: ds, n, m, bs => if d.name = n then { d with bytes := d.bytes ++ bs } :: ds else d :: addFile ds n m bs

/-- `_update_case` -/
def upd (r : Report) (e : Event) : Report :=
  let r := match e.status with | some s => { r with status := s } | none => r
  let r := { r with ts1 := e.timestamp }
  let r := match e.fileName, e.fileBytes with
    | some n, some (b :: bs) => { r with details := addFile r.details n e.mime (b :: bs) }
    | _, _ => r
  match e.tags with | some g => { r with tags := g } | none => r

/-- one `status()` call of `_StreamToTestRecord`: new table and the records handed to `on_test` -/
def step (t : Tbl) (e : Event) : Tbl × List (Key × Report) :=
  match key e with
  | none => (t, [])
  | some k =>
    let cur := (t.get k).getD (create k.1 e)
    let a := upd cur e
    if isFinal e then (t.del k, [(k, a)]) else (t.set k a, [])

def run : Tbl → List Event → Tbl × List (Key × Report)
  | t, [] => (t, [])
  | t, e :: es =>
    let r1 := step t e
    let r2 := run r1.1 es
    (r2.1, r1.2 ++ r2.2)

/-- `stopTestRun`: `popitem()` until empty (last inserted first), each with `got_timestamp(None)` -/
def flush (t : Tbl) : List (Key × Report) := t.reverse.map fun p => (p.1, { p.2 with ts1 := none })

/-- `startTestRun; status*; stopTestRun` on a `_StreamToTestRecord`: the `on_test` calls in order -/
def consumeKeyed (es : List Event) : List (Key × Report) :=
  let r := run [] es
  r.2 ++ flush r.1

def consume (es : List Event) : List Report := (consumeKeyed es).map (·.2)

/-! ## `StreamSummary` -/
structure Summary where
  testsRun : Nat
  errors : List Nat
  failures : List Nat
  skipped : List Nat
  expectedFailures : List Nat
  unexpectedSuccesses : List Nat
  wasSuccessful : Bool
deriving DecidableEq, Repr

def Summary.push (s : Summary) (b : Bucket) (id : Nat) : Summary :=
  match b with
  | .none => s
  | .errors => { s with errors := s.errors ++ [id] }
  | .failures => { s with failures := s.failures ++ [id] }
  | .skipped => { s with skipped := s.skipped ++ [id] }
  | .expectedFailures => { s with expectedFailures := s.expectedFailures ++ [id] }
  | .unexpectedSuccesses => { s with unexpectedSuccesses := s.unexpectedSuccesses ++ [id] }

/-- `_gather_test` -/
def gather (s : Summary) (r : Report) : Summary :=
  if Generated.Stream.counted r.status then
    ({ s with testsRun := s.testsRun + 1 }).push (Generated.Stream.bucket r.status) r.id
  else s

def Summary.empty : Summary :=
  { testsRun := 0, errors := [], failures := [], skipped := [], expectedFailures := [],
    unexpectedSuccesses := [], wasSuccessful := true }

/-- the public attributes after `stopTestRun`; `wasSuccessful() = not failures and not errors` -/
def summarise (rs : List Report) : Summary :=
  let s := rs.foldl gather Summary.empty
  { s with wasSuccessful := s.failures.isEmpty && s.errors.isEmpty }

/-! ## `StreamToExtendedDecorator` + `PlaceHolder.run` -/
def optTime : Option Ts → List ExtEv
  | some t => [.time t]
  | none => []

/-- `test_record.to_test_case().run(result)`; a status without entry in `_status_map` (only `exists`,
which `StreamToExtendedDecorator.status` drops before the table) would be a `KeyError`: no calls -/
def bracket (r : Report) : List ExtEv :=
  match Generated.Stream.statusMap r.status with
  | none => []
  | some o =>
    optTime r.ts0 ++ [.tags r.tags [], .startTest r.id] ++ optTime r.ts1 ++
      [.outcome o r.id r.details, .stopTest r.id, .tags [] r.tags]

def toExtended (es : List Event) : List ExtEv :=
  [.startTestRun] ++ ((consume (es.filter fun e => e.status != some .exist)).map bracket).flatten ++ [.stopTestRun]

/-! ## C10: input = a list of runs on the same consumer objects -/
structure RunTrace where
  dict : List Report        -- arguments of StreamToDict's on_test, in call order
  summary : Summary         -- public attributes of StreamSummary after stopTestRun
  ext : List ExtEv          -- calls received by the extended result behind StreamToExtendedDecorator
deriving DecidableEq, Repr

structure Input where
  runs : List (List Event)
deriving Repr

abbrev Trace := List RunTrace

def modelRun (es : List Event) : RunTrace :=
  { dict := consume es, summary := summarise (consume es), ext := toExtended es }

def model (i : Input) : Trace := i.runs.map modelRun

end TTV.Stream
