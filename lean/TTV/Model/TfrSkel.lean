import TTV.Model.Conc
/-! Control skeletons of `ThreadsafeForwardingResult` (testtools/testresult/real.py), as data.

`harness/tfrskel.py` re-reads the methods of the class from the tree under test on every run and emits their
order and `try/finally/if` structure as terms of `Skel` below (`TTV/Generated/TfrSkel.lean`).  `interp` gives a
skeleton its meaning in the vocabulary of M-Conc: the micro-steps (`Conc.Step`: `acq | rel | call c raised`) it
performs, the forwarder-local state (`Conc.Loc`) it leaves, and whether an exception leaves the method - with the
model's fault plan (the call whose per-thread index is in the plan raises) and Python's propagation: a raise
skips the rest of the block, the `finally` blocks on the way out run, then it propagates.  The theorems
`C12_src_block`, `C12_src_ctl`, `C12_src_local` (TTV/Props/C12.lean) prove that the hand-written block semantics
`Conc.stepOp` - the thing every interleaving theorem of C12/C13 is about - *is* the interpretation of the
skeletons found in the source.  An edit of the source that moves a call out of the critical section, drops a
`finally`, adds an `except`, reorders the replay of time / tags … changes the generated term and breaks the proof at
build time, before any schedule is explored.

What is trusted here: that `interp` gives Python's meaning to the statement forms the translator recognises
(sequencing, `if`, `try … finally` without handlers, `return <call>` in tail position); that each recognised action
is what `Act` says it is - one atomic step of the model for `acquire` / `release` / a call on the target, a
forwarder-local assignment otherwise; that `acquire` / `release` themselves do not raise.  Statement forms the
translator does not recognise become `unknown`, which no reference skeleton contains. -/
namespace TTV.TfrSkel
open TTV.Conc

/-- the recognised statements -/
inductive Act where
  | acquire                     -- `self.semaphore.acquire()`
  | release                     -- `self.semaphore.release()`
  | tryAcquire                  -- `self.semaphore.acquire(blocking=False)`: never waits; in no reference skeleton
  | callTimeStart               -- `self.result.time(self._test_start)`
  | callStartTest               -- `self.result.startTest(test)`
  | callTimeNow                 -- `self.result.time(now)`, `now` bound to `self._now()` on entry
  | callTagsGlobal              -- `self.result.tags(*self._global_tags)`
  | callTagsTest                -- `self.result.tags(*self._test_tags)`
  | callOutcome                 -- `method(test, *args, **kwargs)`
  | callStopTest                -- `self.result.stopTest(test)`
  | callCtl (c : Ctl)           -- `self.result.startTestRun()` / `.stopTestRun()` / `.stop()` / `.done()` / read of `.shouldStop`
  | resetTestTags               -- `self._test_tags = set(), set()`
  | resetGlobalTags             -- `self._global_tags = set(), set()`
  | resetTestStart              -- `self._test_start = None`
  | setInTest (b : Bool)        -- `self._in_test = b`
  | setStartNow                 -- `self._test_start = self._now()`
  | resetNow                    -- `super().startTestRun()`: TestResult.startTestRun clears the clock (`self.__now = None`)
  | setNow                      -- `self.__now = a_datetime` (TestResult.time)
  | mergeTest                   -- `self._test_tags = _merge_tags(self._test_tags, (new_tags, gone_tags))`
  | mergeGlobal                 -- `self._global_tags = _merge_tags(self._global_tags, (new_tags, gone_tags))`
  | superLocal                  -- `super().startTest(test)` / `.stopTest(test)` / `.tags(…)`: TestResult bookkeeping the model does not track
deriving DecidableEq, Repr

/-- statements in continuation style (`k` = the rest of the block) -/
inductive Skel where
  | done
  | unknown (k : Skel)
  | act (a : Act) (k : Skel)
  | ifAnyGlobal (thn : Skel) (k : Skel)          -- `if self._any_tags(self._global_tags):`
  | ifAnyTest (thn : Skel) (k : Skel)            -- `if self._any_tags(self._test_tags):`
  | ifInTest (thn els : Skel) (k : Skel)         -- `if self._in_test: … else: …`
  | tryFinally (body fin : Skel) (k : Skel)      -- `try: body finally: fin`
deriving DecidableEq, Repr

/-- arguments of the method being interpreted -/
structure Args where
  kind : Kind := .success        -- which outcome method was called
  id : TId := .t 0               -- the test
  new : List Nat := []           -- tags(new_tags, gone_tags)
  gone : List Nat := []
  time : Option Nat := none      -- time(a_datetime)

structure ISt where
  loc : Loc
  steps : List Step := []        -- micro-steps performed so far
  raised : Bool := false         -- an exception is propagating
  bad : Bool := false            -- an `unknown` statement was reached

def call (f : List Nat) (c : Call) (s : ISt) : ISt :=
  let r := f.contains s.loc.n
  { s with loc := { s.loc with n := s.loc.n + 1 }, steps := s.steps ++ [.call c r], raised := r }

def doAct (f : List Nat) (a : Args) : Act → ISt → ISt
  | .acquire, s => { s with steps := s.steps ++ [.acq] }
  | .release, s => { s with steps := s.steps ++ [.rel] }
  | .tryAcquire, s => { s with steps := s.steps ++ [.tryAcq] }
  | .callTimeStart, s => call f (.time s.loc.start) s
  | .callStartTest, s => call f (.startTest a.id) s
  | .callTimeNow, s => call f (.time s.loc.nowT) s
  | .callTagsGlobal, s => call f (.tags s.loc.gtags.1 s.loc.gtags.2) s
  | .callTagsTest, s => call f (.tags s.loc.ttags.1 s.loc.ttags.2) s
  | .callOutcome, s => call f (.outcome a.kind a.id) s
  | .callStopTest, s => call f (.stopTest a.id) s
  | .callCtl c, s => call f (.ctl c) s
  | .resetTestTags, s => { s with loc := { s.loc with ttags := ([], []) } }
  | .resetGlobalTags, s => { s with loc := { s.loc with gtags := ([], []) } }
  | .resetTestStart, s => { s with loc := { s.loc with start := .unset } }
  | .setInTest b, s => { s with loc := { s.loc with inTest := b } }
  | .setStartNow, s => { s with loc := { s.loc with start := s.loc.nowT } }
  | .resetNow, s => { s with loc := { s.loc with now := none } }
  | .setNow, s => { s with loc := { s.loc with now := a.time } }
  | .mergeTest, s => { s with loc := { s.loc with ttags := mergeTags s.loc.ttags (normTags a.new, normTags a.gone) } }
  | .mergeGlobal, s => { s with loc := { s.loc with gtags := mergeTags s.loc.gtags (normTags a.new, normTags a.gone) } }
  | .superLocal, s => s

/-- Python's meaning of a block: statements in order; once an exception propagates (`raised`) the rest of the
block is skipped; `try … finally` runs its `finally` block in any case and re-raises afterwards (an exception from
the `finally` block replaces the first one - either way one propagates). -/
def interp (f : List Nat) (a : Args) : Skel → ISt → ISt
  | .done, s => s
  | .unknown k, s => if s.raised then s else interp f a k { s with bad := true }
  | .act x k, s => if s.raised then s else interp f a k (doAct f a x s)
  | .ifAnyGlobal thn k, s =>
    if s.raised then s else interp f a k (if anyTags s.loc.gtags then interp f a thn s else s)
  | .ifAnyTest thn k, s =>
    if s.raised then s else interp f a k (if anyTags s.loc.ttags then interp f a thn s else s)
  | .ifInTest thn els k, s =>
    if s.raised then s else interp f a k (if s.loc.inTest then interp f a thn s else interp f a els s)
  | .tryFinally body fin k, s =>
    if s.raised then s else
      let s1 := interp f a body s
      let s2 := interp f a fin { s1 with raised := false }
      interp f a k { s2 with raised := s1.raised || s2.raised }

/-! ## the skeletons the model `Conc.stepOp` was written from
(kept here so that a diff of a generated term against them is readable in a failing build) -/

/-- `_add_result_with_semaphore` -/
def refAddResult : Skel :=
  .act .acquire <|
  .tryFinally
    (.act .callTimeStart <| .act .callStartTest <| .act .callTimeNow <|
     .ifAnyGlobal (.act .callTagsGlobal .done) <|
     .ifAnyTest (.act .callTagsTest .done) <|
     .tryFinally (.act .callOutcome .done) (.act .callStopTest .done) .done)
    (.act .release .done) <|
  .act .resetTestStart .done

/-- `stopTestRun` / `stop` / `done` / the getter of `shouldStop` -/
def refCtl (c : Ctl) : Skel :=
  .act .acquire <| .tryFinally (.act (.callCtl c) .done) (.act .release .done) .done

/-- `startTestRun`: the buffers are reset first (the translator sorts runs of local assignments, see `Act` order) -/
def refStartTestRun : Skel :=
  .act .resetTestTags <| .act .resetGlobalTags <| .act .resetTestStart <| .act (.setInTest false) <| .act .resetNow <|
  refCtl .startTestRun

def refStartTest : Skel := .act (.setInTest true) <| .act .setStartNow <| .act .superLocal .done
def refStopTest : Skel := .act .resetTestTags <| .act (.setInTest false) <| .act .superLocal .done
def refTags : Skel := .act .superLocal <| .ifInTest (.act .mergeTest .done) (.act .mergeGlobal .done) .done
def refTime : Skel := .act .setNow .done

/-- the six outcome methods: which method of the target each one hands to `_add_result_with_semaphore`, and whether
`self._stop_if_failfast()` follows (the unsuccessful outcomes, as in `TestResult`: with `failfast` set on the forwarder
`Conc.runOp` then adds the critical section of `stop()`, see `C12_src_thread_steps`) -/
def refForward : List (Kind × Kind × Bool) :=
  [(.error, .error, true), (.xfail, .xfail, false), (.failure, .failure, true), (.skip, .skip, false),
   (.success, .success, false), (.uxsuccess, .uxsuccess, true)]

end TTV.TfrSkel
