import TTV.Model.StreamDeco
/-! The decision logic of the field-owning stream decorators (testtools/testresult/real.py), as data.

`harness/pystream.py` re-reads `TimestampingStreamResult.status`, `StreamToQueue.route_code` / `.status`,
`CopyStreamResult.*`, `StreamFailFast.status` and the parameter order of the explicit `status` signatures from the tree under
test on every run (`TTV/Generated/DecoSrc.lean`); the interpreters here give the data its meaning over the decorator model
(`TTV.Stream.Deco`); `C11_src_stamp`, `C11_src_queue`, `C11_src_copy`, `C11_src_failfast`, `C11_src_status_params` prove
that the steps of the hand-written `deliver` *are* the interpretation of exactly what was found in the source.

Trusted: the reading of `is not None`, the conditional, `a + "/" + b` on strings, `kwargs.pop`; that
`_strict_map(methodcaller(m, *args, **kwargs), self.targets)` calls `m` on every target in order with the same arguments
(= the model's `deliverL`); that `dict(k=v, …)` keyword order is irrelevant.  Unrecognised forms are `other`. -/
namespace TTV.DecoSrc
open TTV.Stream TTV.Stream.Deco

inductive DExpr where
  | kwTimestamp | kwRoute         -- the timestamp / route_code argument as passed in
  | now                           -- datetime.datetime.now(utc)
  | code                          -- self.routing_code
  | none | undef | other
  | join (a b : DExpr)            -- a + "/" + b
  | notNone (e : DExpr) | truthy (e : DExpr) | and (a b : DExpr) | not (a : DExpr)
  | ite (c a b : DExpr)
deriving DecidableEq, Repr

inductive DVal where
  | none
  | ts (t : Ts)
  | str (s : Str)
  | bool (b : Bool)
  | bad
deriving DecidableEq, Repr

def deval {TG : Type} (code : Str) (e : EventOf TG) : DExpr → DVal
  | .kwTimestamp => match e.timestamp with | some t => .ts t | Option.none => .none
  | .kwRoute => match e.route with | some r => .str r | Option.none => .none
  | .now => .ts .now
  | .code => .str code
  | .none => .none
  | .undef => .bad
  | .other => .bad
  | .join a b => match deval code e a, deval code e b with | .str x, .str y => .str (x ++ '/' :: y) | _, _ => .bad
  | .notNone x => match deval code e x with | .none => .bool false | .bad => .bad | _ => .bool true
  | .truthy x => match deval code e x with
    | .str r => .bool (!r.isEmpty)
    | .bool b => .bool b
    | .none => .bool false
    | _ => .bad
  | .and a b => match deval code e a with
    | .bool false => .bool false
    | .bool true => deval code e b
    | _ => .bad
  | .not a => match deval code e a with | .bool b => .bool (!b) | _ => .bad
  | .ite c a b => match deval code e c with
    | .bool true => deval code e a
    | .bool false => deval code e b
    | _ => .bad

/-- the event `TimestampingStreamResult` hands on -/
def stampInterp {TG : Type} (t : DExpr) (e : EventOf TG) : Option (EventOf TG) :=
  match deval [] e t with
  | .ts x => some { e with timestamp := some x }
  | .none => some { e with timestamp := Option.none }
  | _ => Option.none

def valRoute : DVal → Option Str
  | .str r => some r
  | _ => Option.none

def refStamp : DExpr := .ite (.notNone .kwTimestamp) .kwTimestamp .now
def refQueueRoute : DExpr := .ite (.notNone .kwRoute) (.join .code .kwRoute) .code

/-! ### `StreamToQueue.status`: which parameter feeds which key -/
inductive Field | testId | status | tags | runnable | fileName | fileBytes | eof | mime | route | timestamp | other
deriving DecidableEq, Repr

inductive QArg where
  | param (f : Field)       -- the parameter of that name
  | routed                  -- self.route_code(route_code)
  | missing | other
deriving DecidableEq, Repr

/-- the order of the parameters of `StreamResult.status` (what positional calls rely on) -/
def canonical : List Field := [.testId, .status, .tags, .runnable, .fileName, .fileBytes, .eof, .mime, .route, .timestamp]

def lookupField (d : List (Field × QArg)) (f : Field) : Option QArg :=
  match d.find? (·.1 == f) with
  | some p => some p.2
  | Option.none => Option.none

/-- the event enqueued: every key fed by the parameter of the same name, `route_code` through `self.route_code` -/
def qInterp {TG : Type} (d : List (Field × QArg)) (rt : DExpr) (code : Str) (e : EventOf TG) : Option (EventOf TG) :=
  if d.length == 10 && canonical.all (fun f => f == .route || lookupField d f == some (.param f)) then
    match lookupField d .route with
    | some .routed => some { e with route := valRoute (deval code e rt) }
    | some (.param .route) => some e
    | _ => Option.none
  else Option.none

def refQueueDict : List (Field × QArg) :=
  [(.testId, .param .testId), (.status, .param .status), (.tags, .param .tags), (.runnable, .param .runnable),
   (.fileName, .param .fileName), (.fileBytes, .param .fileBytes), (.eof, .param .eof), (.mime, .param .mime),
   (.route, .routed), (.timestamp, .param .timestamp)]

/-! ### `CopyStreamResult`, `StreamFailFast` -/
inductive CStmt | superCall | mapTargets | other
deriving DecidableEq, Repr

def cInterp (n : Nat) (ts : List Dec) (h : Heap) (m : Msg) : List CStmt → Option (Heap × List (List Got)) → Option (Heap × List (List Got))
  | [], r => r
  | .superCall :: k, r => cInterp n ts h m k r
  | .mapTargets :: k, Option.none => cInterp n ts h m k (some (deliverL n ts h m))
  | .mapTargets :: _, some _ => Option.none        -- forwarding twice
  | .other :: _, _ => Option.none

def refCopy : List CStmt := [.superCall, .mapTargets]

inductive FFStmt where
  | ifStatusInThenOnError (ss : List Status)     -- if test_status in (…): self.on_error()
  | other
deriving DecidableEq, Repr

def ffInterp (st : Option Status) : List FFStmt → Option Bool
  | [.ifStatusInThenOnError ss] => some (match st with | some s => ss.contains s | Option.none => false)
  | _ => Option.none

def refFailFast : List FFStmt := [.ifStatusInThenOnError [.uxsuccess, .fail]]

/-! ### `StreamTagger.__init__`: the configuration is a value -/
inductive TIStmt where
  | superInit          -- super().__init__(targets)
  | snapshotAdd        -- self.add = frozenset(add or ())        (a copy: the caller's object is not kept)
  | snapshotDiscard    -- self.discard = frozenset(discard or ())
  | other
deriving DecidableEq, Repr

/-- the tagger node made from the constructor arguments, read as the values they have at that moment -/
def tiInterp (add discard : List Nat) (ts : List Dec) : List TIStmt → Option (List Nat) → Option (List Nat) → Bool → Option Dec
  | [], some a, some d, true => some (.tagger a d ts)
  | [], _, _, _ => Option.none
  | .superInit :: r, a, d, _ => tiInterp add discard ts r a d true
  | .snapshotAdd :: r, _, d, s => tiInterp add discard ts r (some add) d s
  | .snapshotDiscard :: r, a, _, s => tiInterp add discard ts r a (some discard) s
  | .other :: _, _, _, _ => Option.none

def refTaggerInit : List TIStmt := [.superInit, .snapshotAdd, .snapshotDiscard]

end TTV.DecoSrc
