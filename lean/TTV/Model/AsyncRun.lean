import TTV.Model.Reactor
/-! Model of `AsynchronousDeferredRunTest` (C14) on the shared virtual-time reactor / `Spinner` model.

A test program: `setUp`, the test method, `tearDown` (each registering cleanups at its start) where every
stage independently performs side effects (leave a delayed call, log an error, drop a failed Deferred, flush
the logged errors, a failing `expectThat`) and then returns / raises / returns a Deferred that fires or fails
after a delay / never fires.  Interrupts are `reactor.stop()` requests scheduled before the run.

* `_run_deferred`'s callback chain and `_run_cleanups`: `startSetUp … runCleanups`, resumed by the delayed call
  that fires the pending stage's Deferred (`CAct.stageDone`);
* `Spinner.run` around it: timeout call, the loop `spin`, `_clean` (with the two obligatory iterations of
  `AsynchronousDeferredRunTestForBrokenTwisted`);
* `_blocking_run_deferred` / `_run_core`: TimeoutError / NoResultError (+ `result.stop()`), logged errors,
  unhandled errors in Deferreds, junk ⇒ `_exceptions`; one `addSuccess`; `_run_prepared_result` picks the outcome;
* the log fixtures as operations on the list of observers.

Twisted's Deferred chaining, the log publisher and `DebugInfo`/GC are *modelled* here, not verified.
Import-free apart from `TTV.Model.Reactor`. -/
namespace TTV.AsyncRun
open TTV.Reactor

/-- exception classes: an error (ValueError), a failure (AssertionError), SkipTest -/
inductive Exc | err | fail | skip
deriving DecidableEq, Repr

inductive Beh
  | ret                         -- returns None
  | raise (k : Exc)
  | fire (d : Nat)              -- returns a Deferred, `callLater(d, deferred.callback, None)`
  | failD (d : Nat) (k : Exc)   -- … `callLater(d, deferred.errback, exception)`
  | never                       -- returns a Deferred that never fires
deriving DecidableEq, Repr

inductive Side
  | junk (d : Nat)              -- reactor.callLater(d, noop)
  | logerr                      -- log.err(ZeroDivisionError())
  | dropfailed                  -- defer.fail(KeyError()) - dropped at once
  | flush                       -- flush_logged_errors()
  | expect                      -- self.expectThat(1, Equals(2))
deriving DecidableEq, Repr

structure Stage where
  sides : List Side
  beh : Beh
deriving Repr

/-- a main stage: the cleanups it registers at its start (in order), then the stage proper -/
structure MStage where
  cleanups : List Stage
  stage : Stage
deriving Repr

structure Prog where
  timeout : Nat
  stops : List Nat              -- instants at which `reactor.stop()` is requested (scheduled before the run)
  broken : Bool                 -- AsynchronousDeferredRunTestForBrokenTwisted
  suppress : Bool               -- suppress_twisted_logging
  store : Bool                  -- store_twisted_logs
  nObs : Nat                    -- log observers installed before the run
  setUp : MStage
  body : MStage
  tearDown : MStage
deriving Repr

abbrev Input := Prog

inductive CAct
  | stageDone (r : Option Exc)  -- the pending stage's Deferred fires (none) / fails with an exception
  | noop
  | stop
deriving Repr

inductive Pos | idle | setUp | body | tearDown | cleanup | done
deriving DecidableEq, Repr

inductive SName | setUp | body | tearDown | cleanup (i : Nat)
deriving DecidableEq, Repr

/-- the runner's and the test case's state -/
structure Chain where
  pos : Pos := .idle                      -- which stage's Deferred the chain is waiting for
  stack : List (Nat × Stage) := []        -- `case._cleanups`, top first, with registration numbers
  nextCleanup : Nat := 0
  excs : List Exc := []                   -- `RunTest._exceptions`
  fails : Bool := false                   -- `len(fails) > 0` in `_run_deferred`
  lastExc : Option Exc := none            -- `last_exception` in `_run_cleanups`
  forced : Bool := false                  -- `case.force_failure`
  logged : Nat := 0                       -- errors the error observer holds (not flushed)
  dropped : Nat := 0                      -- DebugInfos with an unhandled failure
  stages : List (SName × Nat × Nat) := [] -- stage log: name, virtual time, number of log observers
  observers : List Nat := []              -- the global log observers (ids)
  realStops : Nat := 0                    -- calls of the genuine `reactor.stop`
deriving Repr

abbrev W := World CAct Chain

/-! ## the stages -/

def doSide (s : Side) (w : W) : W :=
  match s with
  | .junk d => schedule (w.now + d) (.user 0 .noop) w
  | .logerr => { w with u := { w.u with logged := w.u.logged + 1 } }
  | .dropfailed => { w with u := { w.u with dropped := w.u.dropped + 1 } }
  | .flush => { w with u := { w.u with logged := 0 } }
  | .expect => { w with u := { w.u with forced := true } }

/-- `_got_user_exception` from a main stage (errback of `_run_user`) followed by `fails.append` -/
def caught (k : Exc) (w : W) : W :=
  { w with u := { w.u with excs := w.u.excs ++ [k], fails := true } }

inductive Status | completed (r : Option Exc) | pending
deriving Repr

/-- call a stage function: log it, side effects, then its behaviour -/
def launch (name : SName) (st : Stage) (w : W) : W × Status :=
  let w : W := { w with u := { w.u with stages := w.u.stages ++ [(name, w.now, w.u.observers.length)] } }
  let w := st.sides.foldl (fun w s => doSide s w) w
  match st.beh with
  | .ret => (w, .completed none)
  | .raise k => (w, .completed (some k))
  | .fire d => (schedule (w.now + d) (.user 0 (.stageDone none)) w, .pending)
  | .failD d k => (schedule (w.now + d) (.user 0 (.stageDone (some k))) w, .pending)
  | .never => (w, .pending)

/-- the end of the chain: `clean_up_done`, `force_failure`, `lambda: len(fails) == 0`; the final Deferred fires
and the spinner's callbacks run -/
def finishChain (w : W) : W :=
  let w : W := match w.u.lastExc with
    | some k => { w with u := { w.u with excs := w.u.excs ++ [k], fails := true } }
    | none => w
  let w : W := if w.u.forced then { w with u := { w.u with excs := w.u.excs ++ [.fail], fails := true } } else w
  deliver (.value (if w.u.fails then 0 else 1)) { w with u := { w.u with pos := .done } }

/-- `_run_cleanups`: pop and run; an exception is only remembered (the last one wins) -/
def runCleanups : List (Nat × Stage) → W → W
  | [], w => finishChain { w with u := { w.u with stack := [] } }
  | (i, c) :: rest, w =>
    match launch (.cleanup i) c { w with u := { w.u with stack := rest } } with
    | (w, .completed none) => runCleanups rest w
    | (w, .completed (some k)) => runCleanups rest { w with u := { w.u with lastExc := some k } }
    | (w, .pending) => { w with u := { w.u with pos := .cleanup } }

def afterCleanup (r : Option Exc) (w : W) : W :=
  let w : W := match r with
    | some k => { w with u := { w.u with lastExc := some k } }
    | none => w
  runCleanups w.u.stack w

def noteMain (r : Option Exc) (w : W) : W :=
  match r with
  | some k => caught k w
  | none => w

/-- `self.addCleanup(...)` for each, in order -/
def register (cs : List Stage) (w : W) : W :=
  cs.foldl (fun w c => { w with u := { w.u with stack := (w.u.nextCleanup, c) :: w.u.stack,
                                                  nextCleanup := w.u.nextCleanup + 1 } }) w

def afterTearDown (r : Option Exc) (w : W) : W :=
  let w := noteMain r w
  runCleanups w.u.stack w

def startTearDown (p : Prog) (w : W) : W :=
  match launch .tearDown p.tearDown.stage (register p.tearDown.cleanups w) with
  | (w, .completed r) => afterTearDown r w
  | (w, .pending) => { w with u := { w.u with pos := .tearDown } }

def afterBody (p : Prog) (r : Option Exc) (w : W) : W := startTearDown p (noteMain r w)

def startBody (p : Prog) (w : W) : W :=
  match launch .body p.body.stage (register p.body.cleanups w) with
  | (w, .completed r) => afterBody p r w
  | (w, .pending) => { w with u := { w.u with pos := .body } }

def afterSetUp (p : Prog) (r : Option Exc) (w : W) : W :=
  match r with
  | some k => let w := caught k w; runCleanups w.u.stack w
  | none => startBody p w

def startSetUp (p : Prog) (w : W) : W :=
  match launch .setUp p.setUp.stage (register p.setUp.cleanups w) with
  | (w, .completed r) => afterSetUp p r w
  | (w, .pending) => { w with u := { w.u with pos := .setUp } }

/-- the callbacks of the pending stage's Deferred -/
def resume (p : Prog) (r : Option Exc) (w : W) : W :=
  match w.u.pos with
  | .setUp => afterSetUp p r w
  | .body => afterBody p r w
  | .tearDown => afterTearDown r w
  | .cleanup => afterCleanup r w
  | _ => w

def exec (p : Prog) (_ : Nat) (a : CAct) (w : W) : W :=
  match a with
  | .stageDone r => resume p r w
  | .noop => w
  | .stop =>
    if w.stopPatched then { w with crashed := true }
    else { w with crashed := true, u := { w.u with realStops := w.u.realStops + 1 } }

/-! ## sizes (fuel) -/

def stageCalls (s : Stage) : Nat := s.sides.length + 1
def mstageCalls (m : MStage) : Nat := stageCalls m.stage + (m.cleanups.map stageCalls).sum
/-- an upper bound of the number of delayed calls a run can ever schedule -/
def bound (p : Prog) : Nat :=
  p.stops.length + 1 + mstageCalls p.setUp + mstageCalls p.body + mstageCalls p.tearDown

/-! ## the log fixtures -/

/-- `_NoTwistedLogObservers._setUp`: remove every observer (last first), remember how to re-add them -/
def removeAll (obs : List Nat) : List Nat × List Nat :=
  obs.reverse.foldl (fun (acc : List Nat × List Nat) o => (acc.1.erase o, o :: acc.2)) (obs, [])

/-- fixture cleanups run last-registered first: `publisher.addObserver(o)` appends -/
def reAdd (obs : List Nat) (cleanups : List Nat) : List Nat := cleanups.foldl (fun os o => os ++ [o]) obs

/-! ## the result events -/

inductive Ev | startTest | success | error | failure | skip | stopTest
deriving DecidableEq, Repr

/-- `_select_exception` + handler: the last exception that is not a skip, else the last one -/
def outcomeOf (excs : List Exc) : Ev :=
  match excs.reverse.find? (· != .skip) with
  | some .fail => .failure
  | some _ => .error
  | none => .skip

structure Trace where
  events : List Ev
  stopRequested : Bool
  raised : Bool
  stages : List (SName × Nat × Nat)
  leftover : Nat                  -- calls scheduled by the test / the interrupts that never ran
  pending : Nat                   -- `len(reactor.getDelayedCalls())` afterwards
  obsRestored : Bool              -- the log observers are the ones installed before, in the same order
  realStops : Nat
  finalTime : Nat
deriving Repr

def isLeftover (c : DCall (QAct CAct)) : Bool :=
  match c.act with
  | .user _ .noop => true
  | .user _ .stop => true
  | _ => false

def schedStops : List Nat → W → W
  | [], w => w
  | s :: rest, w => schedStops rest (schedule (w.now + s) (.user 0 .stop) w)

/-- `Spinner.run(timeout, _run_deferred)` up to the end of `reactor.run()` -/
def spinPhase (p : Prog) (w : W) : W :=
  let w : W := { w with sp := { w.sp with success := none, failure := none } }
  let w := schedule (w.now + p.timeout) .timeout w
  let w : W := { w with stopPatched := true, running := true, crashed := false,
                        sp := { w.sp with tcall := .pending, spinning := true } }
  let w := startSetUp p w
  spin (exec p) (fun _ => bound p) (bound p + 1) w

def model (p : Prog) : Trace :=
  let obs0 := List.range p.nObs
  -- the harness schedules the interrupts, then `case.run(result)`: startTest
  let w : W := schedStops p.stops { u := { observers := obs0 } }
  -- `_run_core`: log fixtures
  let (obs1, restore) := if p.suppress then removeAll obs0 else (obs0, [])
  let captureId := p.nObs
  let errorId := p.nObs + 1
  let obs2 := if p.store then obs1 ++ [captureId] else obs1
  let obs3 := obs2 ++ [errorId]
  let w : W := { w with u := { w.u with observers := obs3 } }
  -- `_blocking_run_deferred`: spinner.run
  let w := spinPhase p w
  let w : W := { w with running := false, stopPatched := false }
  let result := getResult w.sp
  -- `_clean`: obligatory iterations (broken Twisted), cancel what is left
  let w := if p.broken then drain (exec p) (bound p) (drain (exec p) (bound p) w) else w
  let junk := leftovers w
  let leftover := (w.calls.filter isLeftover).length
  let w : W := { w with calls := [], sels := [] }
  -- back in `_blocking_run_deferred`
  let (w, successful, unhandled, stopReq) : W × Bool × Nat × Bool := match result with
    | .value b => (w, b == 1, w.u.dropped, false)
    | .noresult => ({ w with u := { w.u with excs := w.u.excs ++ [.err] } }, false, 0, true)
    | _ => ({ w with u := { w.u with excs := w.u.excs ++ [.err] } }, false, 0, false)
  -- the error observer is removed; logged errors
  let obs4 := obs3.erase errorId
  let (w, successful) : W × Bool :=
    if w.u.logged > 0 then ({ w with u := { w.u with excs := w.u.excs ++ List.replicate w.u.logged .err } }, false)
    else (w, successful)
  -- the log fixtures are cleaned up (capture observer removed, the suppressed ones re-added)
  let obs5 := reAdd (if p.store then obs4.erase captureId else obs4) restore
  -- unhandled errors in Deferreds, junk
  let (w, successful) : W × Bool :=
    if unhandled > 0 then ({ w with u := { w.u with excs := w.u.excs ++ List.replicate unhandled .err } }, false)
    else (w, successful)
  let (w, successful) : W × Bool :=
    if !junk.isEmpty then ({ w with u := { w.u with excs := w.u.excs ++ [.err] } }, false) else (w, successful)
  let evs := (if successful then [Ev.success] else []) ++ (if w.u.excs.isEmpty then [] else [outcomeOf w.u.excs])
  { events := [.startTest] ++ evs ++ [.stopTest], stopRequested := stopReq, raised := false,
    stages := w.u.stages, leftover := leftover, pending := w.calls.length, obsRestored := obs5 == obs0,
    realStops := w.u.realStops, finalTime := w.now }

end TTV.AsyncRun
