import TTV.Model.Reactor
/-! Model of `AsynchronousDeferredRunTest` (C14) on the shared virtual-time reactor / `Spinner` model.

A test program: `setUp`, the test method, `tearDown` and cleanups (each stage registering cleanups at its start
- cleanups may register cleanups, to any depth) where every stage independently performs side effects (leave a
delayed call, log an error, drop a failed Deferred, flush the logged errors, a failing `expectThat`) and then
returns / raises / returns a Deferred that fires or fails after a delay / never fires; the exception is an error,
a failure, a skip or one that no handler claims (`KeyboardInterrupt`, `SystemExit`).  Interrupts are
`reactor.stop()` requests scheduled before the run.

* `_run_deferred`'s callback chain and `_run_cleanups`: `startSetUp … runCleanups`, resumed by the delayed call
  that fires the pending stage's Deferred (`CAct.stageDone`); `_run_cleanups` pops the stack until it is empty and
  keeps the *last* cleanup exception only;
* the reactor runs in iterations (`ReactorBase.runUntilCurrent`): `drainB`, `iterateB`, `spinB` - a call scheduled
  during an iteration, even with delay 0, waits for the next one;
* `Spinner.run` around it: timeout call, the loop `spinB`; the result is determined when the loop ends
  (`afterSpin`), *then* `_clean` runs (with the two obligatory iterations of
  `AsynchronousDeferredRunTestForBrokenTwisted`, `afterIter`): what completes during those is not the run's result;
* an exception no handler claims: reported as an error by the handler of last resort, re-raised by `run()` after
  `stopTest` (`Trace.raised`);
* `_blocking_run_deferred` / `_run_core`: TimeoutError / NoResultError (+ `result.stop()`), logged errors,
  unhandled errors in Deferreds, junk ⇒ `_exceptions`; one `addSuccess`; `_run_prepared_result` picks the outcome;
* the log fixtures as operations on the list of observers.

Twisted's Deferred chaining, the log publisher and `DebugInfo`/GC are *modelled* here, not verified.
Import-free apart from `TTV.Model.Reactor`. -/
namespace TTV.AsyncRun
open TTV.Reactor

/-- exception classes: an error (ValueError), a failure (AssertionError), SkipTest, and `ki` = an exception that
no handler claims (KeyboardInterrupt, SystemExit) -/
inductive Exc | err | fail | skip | ki
deriving DecidableEq, Repr

inductive Beh
  | ret                         -- returns None
  | raise (k : Exc)
  | fire (d : Nat)              -- returns a Deferred, `callLater(d, deferred.callback, None)`
  | failD (d : Nat) (k : Exc)   -- … `callLater(d, deferred.errback, exception)`
  | never                       -- returns a Deferred that never fires
deriving DecidableEq, Repr

inductive Side
  | junk (d : Nat)              -- reactor.callLater(d, noop)
  | logerr                      -- log.err(ZeroDivisionError())
  | dropfailed                  -- defer.fail(KeyError()) - dropped at once
  | flush                       -- flush_logged_errors()
  | expect                      -- self.expectThat(1, Equals(2))
deriving DecidableEq, Repr

/-- a stage function (setUp, the test method, tearDown, a cleanup): the cleanups it registers at its start (in
order; cleanups may register cleanups), its side effects, its behaviour -/
inductive Stage where
  | mk (cleanups : List Stage) (sides : List Side) (beh : Beh)

def Stage.cleanups : Stage → List Stage
  | .mk cs _ _ => cs
def Stage.sides : Stage → List Side
  | .mk _ s _ => s
def Stage.beh : Stage → Beh
  | .mk _ _ b => b

/- number of stages / an upper bound of the number of delayed calls, including everything registered transitively -/
mutual
def Stage.size : Stage → Nat
  | .mk cs _ _ => 1 + sizeL cs
def sizeL : List Stage → Nat
  | [] => 0
  | c :: cs => c.size + sizeL cs
end

mutual
def Stage.calls : Stage → Nat
  | .mk cs sides _ => sides.length + 1 + callsL cs
def callsL : List Stage → Nat
  | [] => 0
  | c :: cs => c.calls + callsL cs
end

structure Prog where
  timeout : Nat
  stops : List Nat              -- instants at which `reactor.stop()` is requested (scheduled before the run)
  broken : Bool                 -- AsynchronousDeferredRunTestForBrokenTwisted
  suppress : Bool               -- suppress_twisted_logging
  store : Bool                  -- store_twisted_logs
  nObs : Nat                    -- log observers installed before the run
  setUp : Stage
  body : Stage
  tearDown : Stage

abbrev Input := Prog

inductive CAct
  | stageDone (r : Option Exc)  -- the pending stage's Deferred fires (none) / fails with an exception
  | noop
  | stop
deriving Repr

inductive Pos | idle | setUp | body | tearDown | cleanup | done
deriving DecidableEq, Repr

inductive SName | setUp | body | tearDown | cleanup (i : Nat)
deriving DecidableEq, Repr

/-- the runner's and the test case's state -/
structure Chain where
  pos : Pos := .idle                      -- which stage's Deferred the chain is waiting for
  stack : List (Nat × Stage) := []        -- `case._cleanups`, top first, with registration numbers
  nextCleanup : Nat := 0
  excs : List Exc := []                   -- `RunTest._exceptions`
  fails : Bool := false                   -- `len(fails) > 0` in `_run_deferred`
  lastExc : Option Exc := none            -- `last_exception` in `_run_cleanups`
  forced : Bool := false                  -- `case.force_failure`
  logged : Nat := 0                       -- errors the error observer holds (not flushed)
  dropped : Nat := 0                      -- DebugInfos with an unhandled failure
  stages : List (SName × Nat × Nat) := [] -- stage log: name, virtual time, number of log observers
  live : List Bool := []                  -- per logged stage: was the reactor running when it started?
  iter : Nat := 0                         -- number of the reactor iteration in progress (0 = before the loop)
  observers : List Nat := []              -- the global log observers (ids)
  realStops : Nat := 0                    -- calls of the genuine `reactor.stop`
  over : Bool := false                    -- `Spinner.run` has left `reactor.run()`: the callbacks it hung on the chain's final
                                          -- Deferred (`_got_success`, `_stop_reactor`) belong to a run that is over and do nothing

abbrev W := World CAct Chain

/-! ## the stages -/

/-- change the runner's / test case's own state only -/
def updU (f : Chain → Chain) (w : W) : W := { w with u := f w.u }

def Chain.side (s : Side) (c : Chain) : Chain :=
  match s with
  | .junk _ => c
  | .logerr => { c with logged := c.logged + 1 }
  | .dropfailed => { c with dropped := c.dropped + 1 }
  | .flush => { c with logged := 0 }
  | .expect => { c with forced := true }

def doSide (s : Side) (w : W) : W :=
  match s with
  | .junk d => schedule (w.now + d) (.user w.u.iter .noop) w
  | s => updU (Chain.side s) w

/-- `_got_user_exception` from a main stage (errback of `_run_user`) followed by `fails.append` -/
def Chain.caught (k : Exc) (c : Chain) : Chain := { c with excs := c.excs ++ [k], fails := true }

def Chain.log (name : SName) (now : Nat) (running : Bool) (c : Chain) : Chain :=
  { c with stages := c.stages ++ [(name, now, c.observers.length)], live := c.live ++ [running] }

inductive Status | completed (r : Option Exc) | pending
deriving Repr

/-- what calling the stage function yields once its side effects are done -/
def statusOf : Beh → Status
  | .ret => .completed none
  | .raise k => .completed (some k)
  | _ => .pending

/-- call a stage function: log it, side effects, then its behaviour -/
def launch (name : SName) (st : Stage) (w : W) : W :=
  let w := updU (Chain.log name w.now w.running) w
  let w := st.sides.foldl (fun w s => doSide s w) w
  match st.beh with
  | .fire d => schedule (w.now + d) (.user w.u.iter (.stageDone none)) w
  | .failD d k => schedule (w.now + d) (.user w.u.iter (.stageDone (some k))) w
  | _ => w

/-- `clean_up_done` and `force_failure` -/
def Chain.finish (c : Chain) : Chain :=
  let c := match c.lastExc with
    | some k => { c with excs := c.excs ++ [k], fails := true }
    | none => c
  let c := if c.forced then { c with excs := c.excs ++ [.fail], fails := true } else c
  { c with pos := .done }

/-- the end of the chain: `clean_up_done`, `force_failure`, `lambda: len(fails) == 0`; the final Deferred fires
and the spinner's callbacks run -/
def finishChain (w : W) : W :=
  let w := updU Chain.finish w
  if w.u.over then w else deliver (.value (if w.u.fails then 0 else 1)) w

def Chain.noteCleanup (r : Option Exc) (c : Chain) : Chain :=
  match r with
  | some k => { c with lastExc := some k }
  | none => c

/-- `self.addCleanup(...)` for each, in order -/
def Chain.register (cs : List Stage) (c : Chain) : Chain :=
  cs.foldl (fun c s => { c with stack := (c.nextCleanup, s) :: c.stack, nextCleanup := c.nextCleanup + 1 }) c

def stackSize (stack : List (Nat × Stage)) : Nat := (stack.map fun ic => ic.2.size).sum

/-- `_run_cleanups`: `while case._cleanups: pop and run` (a cleanup may register more; the fuel `n` only has to
exceed the number of stages on the stack, counted transitively); an exception - any `BaseException` since the fix
of the lost KeyboardInterrupt - is only remembered, the last one wins -/
def runCleanups : Nat → W → W
  | 0, w => w
  | n + 1, w =>
    match w.u.stack with
    | [] => finishChain w
    | (i, c) :: rest =>
      let w := launch (.cleanup i) c (updU (fun u => Chain.register c.cleanups { u with stack := rest }) w)
      match statusOf c.beh with
      | .completed r => runCleanups n (updU (Chain.noteCleanup r) w)
      | .pending => updU (fun u => { u with pos := .cleanup }) w

/-- run the cleanups that are on the stack now -/
def cleanUp (w : W) : W := runCleanups (stackSize w.u.stack + 1) w

def afterCleanup (r : Option Exc) (w : W) : W := cleanUp (updU (Chain.noteCleanup r) w)

def Chain.noteMain (r : Option Exc) (c : Chain) : Chain :=
  match r with
  | some k => c.caught k
  | none => c

def afterTearDown (r : Option Exc) (w : W) : W := cleanUp (updU (Chain.noteMain r) w)

def startTearDown (p : Prog) (w : W) : W :=
  let w := launch .tearDown p.tearDown (updU (Chain.register p.tearDown.cleanups) w)
  match statusOf p.tearDown.beh with
  | .completed r => afterTearDown r w
  | .pending => updU (fun u => { u with pos := .tearDown }) w

def afterBody (p : Prog) (r : Option Exc) (w : W) : W := startTearDown p (updU (Chain.noteMain r) w)

def startBody (p : Prog) (w : W) : W :=
  let w := launch .body p.body (updU (Chain.register p.body.cleanups) w)
  match statusOf p.body.beh with
  | .completed r => afterBody p r w
  | .pending => updU (fun u => { u with pos := .body }) w

def afterSetUp (p : Prog) (r : Option Exc) (w : W) : W :=
  match r with
  | some k => cleanUp (updU (Chain.caught k) w)
  | none => startBody p w

def startSetUp (p : Prog) (w : W) : W :=
  let w := launch .setUp p.setUp (updU (Chain.register p.setUp.cleanups) w)
  match statusOf p.setUp.beh with
  | .completed r => afterSetUp p r w
  | .pending => updU (fun u => { u with pos := .setUp }) w

/-- the callbacks of the pending stage's Deferred -/
def resume (p : Prog) (r : Option Exc) (w : W) : W :=
  match w.u.pos with
  | .setUp => afterSetUp p r w
  | .body => afterBody p r w
  | .tearDown => afterTearDown r w
  | .cleanup => afterCleanup r w
  | _ => w

def exec (p : Prog) (_ : Nat) (a : CAct) (w : W) : W :=
  match a with
  | .stageDone r => resume p r w
  | .noop => w
  | .stop =>
    if w.stopPatched then { w with crashed := true }
    else { w with crashed := true, u := { w.u with realStops := w.u.realStops + 1 } }

/-! ## the reactor's iterations

A real reactor iteration (`ReactorBase.runUntilCurrent`) runs the delayed calls that are due **and were scheduled
before the iteration began**; a call scheduled during an iteration - even with delay 0 - waits for the next
iteration.  (`harness/vreactor.py` does the same.)  The label of a queued call is the number of the iteration in
which it was scheduled. -/

def eligible (iter : Nat) (c : DCall (QAct CAct)) : Bool :=
  match c.act with
  | .timeout => true
  | .user born _ => decide (born < iter)

/-- one iteration's calls: pop and run the head while it is due and eligible -/
def drainB (p : Prog) : Nat → W → W
  | 0, w => w
  | n + 1, w =>
    match w.calls with
    | [] => w
    | c :: rest =>
      if c.time ≤ w.now ∧ eligible w.u.iter c = true then drainB p n (execCall (exec p) c { w with calls := rest }) else w

/-- a new iteration begins -/
def nextIter (w : W) : W := updU (fun u => { u with iter := u.iter + 1 }) w

/-- `reactor.iterate(0)`: one iteration at the current time -/
def iterateB (p : Prog) (fuel : Nat) (w : W) : W := drainB p fuel (nextIter w)

/-- the loop of `reactor.run()`: while not crashed, wait for the earliest call, then one iteration -/
def spinB (p : Prog) (fuelD : Nat) : Nat → W → W
  | 0, w => w
  | n + 1, w =>
    if w.crashed then w else
    match w.calls with
    | [] => w
    | c :: _ => spinB p fuelD n (iterateB p fuelD { w with now := max w.now c.time })

/-! ## sizes (fuel) -/

/-- an upper bound of the number of delayed calls a run can ever schedule -/
def bound (p : Prog) : Nat :=
  p.stops.length + 1 + p.setUp.calls + p.body.calls + p.tearDown.calls

/-! ## the log fixtures -/

/-- `_NoTwistedLogObservers._setUp`: remove every observer (last first), remember how to re-add them -/
def removeAll (obs : List Nat) : List Nat × List Nat :=
  obs.reverse.foldl (fun (acc : List Nat × List Nat) o => (acc.1.erase o, o :: acc.2)) (obs, [])

/-- fixture cleanups run last-registered first: `publisher.addObserver(o)` appends -/
def reAdd (obs : List Nat) (cleanups : List Nat) : List Nat := cleanups.foldl (fun os o => os ++ [o]) obs

/-! ## the result events -/

inductive Ev | startTest | success | error | failure | skip | stopTest
deriving DecidableEq, Repr

/-- `_select_exception` + handler: an exception that no handler claims wins (reported by the handler of last
resort as an error, then re-raised); else the last exception that is not a skip, else the last one -/
def outcomeOf (excs : List Exc) : Ev :=
  if excs.contains .ki then .error else
  match excs.reverse.find? (· != .skip) with
  | some .fail => .failure
  | some _ => .error
  | none => .skip

structure Trace where
  events : List Ev
  stopRequested : Bool
  raised : Bool
  stages : List (SName × Nat × Nat)
  live : List Bool                -- per logged stage: `reactor.running` when it started
  leftover : Nat                  -- calls scheduled by the test / the interrupts that never ran
  pending : Nat                   -- `len(reactor.getDelayedCalls())` afterwards
  obsRestored : Bool              -- the log observers are the ones installed before, in the same order
  realStops : Nat
  finalTime : Nat
deriving Repr

def isLeftover (c : DCall (QAct CAct)) : Bool :=
  match c.act with
  | .user _ .noop => true
  | .user _ .stop => true
  | _ => false

def schedStops : List Nat → W → W
  | [], w => w
  | s :: rest, w => schedStops rest (schedule (w.now + s) (.user 0 .stop) w)

/-- `Spinner.run(timeout, _run_deferred)` up to the end of `reactor.run()` -/
def spinPhase (p : Prog) (w : W) : W :=
  let w : W := { w with sp := { w.sp with success := none, failure := none } }
  let w := schedule (w.now + p.timeout) .timeout w
  let w : W := { w with stopPatched := true, running := true, crashed := false,
                        sp := { w.sp with tcall := .pending, spinning := true } }
  let w := startSetUp p w
  spinB p (bound p) (bound p + 1) w

/-- observers while the test runs / how to put the suppressed ones back -/
def duringObs (p : Prog) : List Nat × List Nat :=
  let obs0 := List.range p.nObs
  let (obs1, restore) := if p.suppress then removeAll obs0 else (obs0, [])
  let obs2 := if p.store then obs1 ++ [p.nObs] else obs1      -- the capturing observer
  (obs2 ++ [p.nObs + 1], restore)                              -- the error observer

/-- observers after the fixtures have been cleaned up -/
def afterObs (p : Prog) : List Nat :=
  let (obs3, restore) := duringObs p
  let obs4 := obs3.erase (p.nObs + 1)
  reAdd (if p.store then obs4.erase p.nObs else obs4) restore

/-- the harness has scheduled the interrupts; `case.run(result)` → `startTest`, `_run_core` installs the log
fixtures -/
def prepare (p : Prog) : W :=
  schedStops p.stops { u := { observers := (duringObs p).1 } }

/-- after `reactor.run()` returned (`finally:` of `Spinner.run`): the run is over - its callbacks are dead, `_spinning` is
cleared (an interrupted run ends without `_stop_reactor`) -, `reactor.stop` is un-patched -/
def afterSpin (p : Prog) : W :=
  let w := spinPhase p (prepare p)
  { w with running := false, stopPatched := false, sp := { w.sp with spinning := false }, u := { w.u with over := true } }

/-- `_clean`'s obligatory iterations (`reactor.iterate(0)` twice for broken Twisted); the result of `Spinner.run`
has been determined before (`try: return self._get_result() finally: self._clean()`) -/
def afterIter (p : Prog) : W :=
  if p.broken then iterateB p (bound p) (iterateB p (bound p) (afterSpin p)) else afterSpin p

structure Account where
  excs : List Exc
  successful : Bool
  stopReq : Bool
deriving Repr

/-- `_blocking_run_deferred`'s exception handling and `_run_core`'s accounting: what `spinner.run` returned or
raised, the chain's `_exceptions`, the unflushed logged errors, the unhandled errors in Deferreds, junk -/
def account (result : Res) (excs : List Exc) (logged dropped : Nat) (junk : Bool) : Account :=
  let (excs, successful, unhandled, stopReq) : List Exc × Bool × Nat × Bool := match result with
    | .value b => (excs, b == 1, dropped, false)
    | .noresult => (excs ++ [.err], false, 0, true)         -- NoResultError: reported, `result.stop()`
    | _ => (excs ++ [.err], false, 0, false)                -- TimeoutError
  let (excs, successful) : List Exc × Bool :=
    if logged > 0 then (excs ++ List.replicate logged .err, false) else (excs, successful)
  let (excs, successful) : List Exc × Bool :=
    if unhandled > 0 then (excs ++ List.replicate unhandled .err, false) else (excs, successful)
  let (excs, successful) : List Exc × Bool :=
    if junk then (excs ++ [.err], false) else (excs, successful)
  { excs := excs, successful := successful, stopReq := stopReq }

/-- `addSuccess` iff successful; then `_run_prepared_result` reports the selected exception, if any -/
def outcomeEvents (a : Account) : List Ev :=
  (if a.successful then [Ev.success] else []) ++ (if a.excs.isEmpty then [] else [outcomeOf a.excs])

def model (p : Prog) : Trace :=
  let w := afterIter p
  let junk := leftovers w                                    -- what `_clean` cancels and reports
  let cleaned : W := { w with calls := [], sels := [] }
  let a := account (getResult (afterSpin p).sp) w.u.excs w.u.logged w.u.dropped (!junk.isEmpty)
  { events := [.startTest] ++ outcomeEvents a ++ [.stopTest], stopRequested := a.stopReq,
    raised := a.excs.contains .ki,                          -- `raise e` after `stopTest` for an unclaimed exception
    stages := w.u.stages, live := w.u.live, leftover := (w.calls.filter isLeftover).length,
    pending := cleaned.calls.length,
    obsRestored := afterObs p == List.range p.nObs,
    realStops := w.u.realStops, finalTime := w.now }

end TTV.AsyncRun
