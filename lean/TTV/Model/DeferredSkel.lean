import TTV.Model.Deferred
/-! Decision logic of `testtools/twistedsupport/{_deferred,_matchers,_runtest}.py`, as data.

`harness/pydeferred2lean.py` re-reads `on_deferred_result`, the three matchers' `match` (with the handlers they pass),
`extract_result` and `SynchronousDeferredRunTest._run_user` from the tree under test on every run and emits what it finds as
terms of the types below (`TTV/Generated/DeferredSrc.lean`).  The interpreters give the data its meaning over the M-Deferred
model; `C20_src_*` prove that the hand-written `matchOp` / `extractOp` / `runUser` are the interpretation of exactly what
was found.  An edit of the case split (which handler runs in which state, which handler swallows the failure, what is
returned) changes the generated term and breaks a proof.

Trusted here: that the interpreters read the recognised forms as Python does — a chain of terminating `if` arms is tried
in order; `deferred.addCallbacks(cb, eb)` on a Deferred calls at most one of the two at once (so the two capture lists are
never both non-empty); `addErrback(lambda _: None)` is `handleCb`.  Forms the translator does not recognise become
`unknown`, on which every interpreter answers `none`; no reference term contains one. -/
namespace TTV.DeferredSkel
open TTV.Deferred

/-- guard of an arm: which capture lists are non-empty -/
inductive Guard | both | failures | successes | neither | notCalled | otherwise | unknown
deriving DecidableEq, Repr

inductive Arm | raiseImpossible | callFailure | callSuccess | callNoResult | unknown
deriving DecidableEq, Repr

/-- `on_deferred_result`: `capture` appends and returns its argument; the capturing pair is installed with `addCallbacks`;
then the arms -/
structure OdrSrc where
  captureOk : Bool
  installsCapturePair : Bool
  arms : List (Guard × Arm)
deriving DecidableEq, Repr

/-- body of a handler (`_got_failure`, a lambda, …) in continuation style -/
inductive Handler where
  | retMismatch              -- `return Mismatch(…)`
  | retNone                  -- `return None` / `lambda _: None`
  | retInner                 -- `return self._matcher.match(<the result it was given>)`
  | swallow (k : Handler)    -- `deferred.addErrback(lambda _: None)`, then `k`
  | unknown
deriving DecidableEq, Repr

/-- a matcher's `match`: `return on_deferred_result(deferred, on_success=…, on_failure=…, on_no_result=…)` -/
structure MatcherSrc where
  direct : Bool
  onSuccess : Handler
  onFailure : Handler
  onNoResult : Handler
deriving DecidableEq, Repr

inductive XArm | raiseFailure | returnSuccess | raiseNotFired | returnNone | unknown
deriving DecidableEq, Repr

structure ExtractSrc where
  installsAppendPair : Bool
  arms : List (Guard × XArm)
deriving DecidableEq, Repr

/-- `maybeDeferred thunk`: `defer.maybeDeferred(lambda: function(*args, **kwargs))` (`thunk = true`: the user's arguments, positional and
keyword, go to the user's function and nowhere else) or `defer.maybeDeferred(function, *args, **kwargs)` (`false`: they pass through
`maybeDeferred(f, *args, **kwargs)`, whose own parameter `f` a keyword of that name collides with) -/
inductive RunUserStep | maybeDeferred (thunk : Bool) | addErrbackGotUserFailure | returnExtracted | unknown
deriving DecidableEq, Repr

/-- the signature of `_run_user` as found in the source.  `(self, function, /, *args, **kwargs)`: both named parameters positional-only,
so that NO keyword name a cleanup was registered with (`addCleanup(f, function=…, self=…)`) can collide with them -/
structure RunUserSig where
  namedPositionalOnly : Bool
  varArgs : Bool
  varKwargs : Bool
deriving DecidableEq, Repr

/-- statements of the errback `_got_user_failure`: `return self._got_user_exception((failure.type, failure.value,
failure.getTracebackObject()), tb_label=tb_label)` - the failure, whatever its class, is reported as the user's exception -/
inductive GotFailureStep | reportUserException | unknown
deriving DecidableEq, Repr

/-- does the guard hold, given what the installed pair was called with (if it ran) and `deferred.called`;
`none` = unknown guard -/
def Guard.holds (got : Option Res) (called : Bool) : Guard → Option Bool
  | .both => some false            -- one of callback / errback runs, never both
  | .failures => some (match got with | some (.fail _) => true | _ => false)
  | .successes => some (match got with | some (.ok _) => true | _ => false)
  | .neither => some got.isNone    -- `not successes and not failures`
  | .notCalled => some (!called)
  | .otherwise => some true
  | .unknown => none

/-- first arm whose guard holds -/
def firstArm {α : Type} (got : Option Res) (called : Bool) : List (Guard × α) → Option α
  | [] => none
  | (g, a) :: rest =>
    match g.holds got called with
    | none => none
    | some true => some a
    | some false => firstArm got called rest

/-- run a handler: the Deferred afterwards and whether the matcher matched (`None` returned) -/
def runHandler (inner : Res → Bool) (arg : Option Res) : Handler → D → Option (D × Bool)
  | .retMismatch, d => some (d, false)
  | .retNone, d => some (d, true)
  | .retInner, d => arg.map fun r => (d, inner r)
  | .swallow k, d => runHandler inner arg k (add d handleCb).1
  | .unknown, _ => none

/-- `matcher.match(deferred)` as the source has it -/
def matchI (o : OdrSrc) (m : MatcherSrc) (inner : Res → Bool) (d : D) : Option (D × Bool) :=
  if !(o.captureOk && o.installsCapturePair && m.direct) then none
  else
    let x := add d captureCb
    match firstArm x.2 x.1.called o.arms with
    | some .callFailure => runHandler inner x.2 m.onFailure x.1
    | some .callSuccess => runHandler inner x.2 m.onSuccess x.1
    | some .callNoResult => runHandler inner none m.onNoResult x.1
    | _ => none

/-- `extract_result(deferred)` as the source has it -/
def extractI (e : ExtractSrc) (d : D) : Option (D × Extracted) :=
  if !e.installsAppendPair then none
  else
    let x := add d extractCb
    match firstArm x.2 x.1.called e.arms, x.2 with
    | some .raiseFailure, some (.fail n) => some (x.1, .raised n)
    | some .returnSuccess, some (.ok v) => some (x.1, .value v)
    | some .raiseNotFired, _ => some (x.1, .notFired)
    | some .returnNone, _ => some (x.1, .value .none)
    | _, _ => none

/-- `_run_user` as the source has it, with the errback it installs: the model's errback (a probe that handles EVERY failure and
returns the marker) is the reading of the one-statement `_got_user_failure`; anything else there is not interpreted -/
def runUserI (sig : RunUserSig) (steps : List RunUserStep) (gf : List GotFailureStep) (b : Beh) : Option Outcome :=
  -- the model calls the user's function with the user's arguments whatever they are called: that is the reading of this signature
  -- and of the thunk form only
  if sig = ⟨true, true, true⟩ ∧ steps = [.maybeDeferred true, .addErrbackGotUserFailure, .returnExtracted] ∧ gf = [.reportUserException]
  then some (runUser b) else none

/-- what the inner matcher of `succeeded(m)` / `failed(m)` says about the result the handler was given -/
def innerV (vm : VM) : Res → Bool
  | .ok v => vm.eval v
  | .fail _ => false
def innerF (fm : FM) : Res → Bool
  | .fail e => fm.eval e
  | .ok _ => false

/-! the terms the model was written from -/
def refOdr : OdrSrc :=
  { captureOk := true, installsCapturePair := true,
    arms := [(.both, .raiseImpossible), (.failures, .callFailure), (.successes, .callSuccess), (.otherwise, .callNoResult)] }
def refNoResult : MatcherSrc := { direct := true, onSuccess := .retMismatch, onFailure := .retMismatch, onNoResult := .retNone }
def refSucceeded : MatcherSrc := { direct := true, onSuccess := .retInner, onFailure := .swallow .retMismatch, onNoResult := .retMismatch }
def refFailed : MatcherSrc := { direct := true, onSuccess := .retMismatch, onFailure := .swallow .retInner, onNoResult := .retMismatch }
def refExtract : ExtractSrc :=
  { installsAppendPair := true, arms := [(.failures, .raiseFailure), (.successes, .returnSuccess), (.otherwise, .raiseNotFired)] }
def refRunUser : List RunUserStep := [.maybeDeferred true, .addErrbackGotUserFailure, .returnExtracted]
def refRunUserSig : RunUserSig := ⟨true, true, true⟩
def refGotUserFailure : List GotFailureStep := [.reportUserException]

end TTV.DeferredSkel
