import TTV.Model.Matchers
import TTV.Model.Describe
/-! Meaning of the data that `harness/pymatch2lean.py` re-reads from `testtools/matchers/*.py`, `testtools/testcase.py`
and `testtools/assertions.py` on every run (`TTV/Generated/MatchSrc.lean`): skeleton types, interpreters over the
verdicts of M-Match, and the reference terms (what the pinned tree contains).  `TTV.Props.C06` / `C07` prove
`generated = reference` (by `decide`) and `interpreter reference = hand-written model` (`C06_src_*`, `C07_src_*`).

Trusted: the recogniser (its docstring lists the accepted spellings) and that the interpreters read the recognised
forms as Python does.  Anything the recogniser does not recognise becomes `.unknown`, which no reference contains.
Import-free apart from the models (the driver does not link this file, but keep it Mathlib-free). -/
namespace TTV.MatchSkel
open TTV.Matchers

/-- how the result of a sub-matcher's `match()` (None or a mismatch object) is tested -/
inductive ResTest | isNone | isNotNone | truthy | falsy | unknown
deriving DecidableEq, Repr

/-- what a loop over sub-results does with a result for which an arm's test holds -/
inductive OnRes
  | returnNone                      -- `return None`
  | returnIt                        -- `return mismatch`
  | collect                         -- `results.append(mismatch)`
  | returnItIfFirstOnlyElseCollect  -- `if self.first_only: return mismatch` / `results.append(mismatch)`
  | unknown
deriving DecidableEq, Repr

structure Arm where
  test : ResTest
  act : OnRes
deriving DecidableEq, Repr

inductive LoopOver
  | matchersSameValue       -- `for matcher in self.matchers: r = matcher.match(matchee)`
  | valuesSameMatcher       -- `for value in values: r = self.matcher.match(value)`
  | zipMatchersValues       -- `for matcher, value in zip(self.matchers, values): r = matcher.match(value)`
  | unknown
deriving DecidableEq, Repr

inductive LoopEnd
  | mismatchesAll           -- `return MismatchesAll(collected)` whatever was collected
  | mismatchesAllIfAny      -- `if collected: return MismatchesAll(collected)`, otherwise None
  | unknown
deriving DecidableEq, Repr

/-- a loop over the results of sub-matchers: the first arm whose test holds of a result acts, a result no arm claims is
passed over -/
structure LoopSkel where
  over : LoopOver
  arms : List Arm
  atEnd : LoopEnd
deriving DecidableEq, Repr

/-- does the test hold of a result?  (`match` = None, falsy; every stock mismatch object is truthy) -/
def ResTest.holds : ResTest → Verdict → Bool
  | .isNone, .match => true
  | .isNotNone, .mismatch => true
  | .truthy, .mismatch => true
  | .falsy, .match => true
  | _, _ => false

def firstArm : List Arm → Verdict → Option OnRes
  | [], _ => none
  | a :: as, r => if a.test.holds r then some a.act else firstArm as r

/-- the loop, replayed over the results of the sub-matchers in order (`any`: something was collected so far); an
exception raised by a sub-matcher propagates -/
def loopI (sk : LoopSkel) (firstOnly : Bool) : Bool → List Verdict → Verdict
  | any, [] => match sk.atEnd with
      | .mismatchesAll => .mismatch
      | .mismatchesAllIfAny => if any then .mismatch else .match
      | .unknown => .raised .oracleMiss
  | _, .raised c :: _ => .raised c
  | any, r :: rs => match firstArm sk.arms r with
      | none => loopI sk firstOnly any rs
      | some .returnNone => .match
      | some .returnIt => r
      | some .collect => loopI sk firstOnly true rs
      | some .returnItIfFirstOnlyElseCollect => if firstOnly then r else loopI sk firstOnly true rs
      | some .unknown => .raised .oracleMiss

/-! ### wrappers around one sub-matcher: Not, Annotate -/
inductive WrapRet | none | newMismatch | wrappedMismatch | unknown
deriving DecidableEq, Repr

/-- `r = self.matcher.match(other)`; `if <test r>: return <hit> else: return <miss>` -/
structure WrapSkel where
  test : ResTest
  hit : WrapRet
  miss : WrapRet
deriving DecidableEq, Repr

def WrapRet.verdict : WrapRet → Verdict
  | .none => .match
  | .newMismatch => .mismatch
  | .wrappedMismatch => .mismatch
  | .unknown => .raised .oracleMiss

def wrapI (w : WrapSkel) : Verdict → Verdict
  | .raised c => .raised c
  | r => if w.test.holds r then w.hit.verdict else w.miss.verdict

/-- `AfterPreprocessing.match`: the preprocessor is applied first, the (possibly annotated) inner matcher decides -/
structure AfterSkel where
  preprocessFirst : Bool          -- `after = self.preprocessor(value)` before anything else
  annotateGuarded : Bool          -- `if self.annotate: matcher = Annotate(…, self.matcher) else: matcher = self.matcher`
  returnsInnerOnAfter : Bool      -- `return matcher.match(after)`
deriving DecidableEq, Repr

/-- `MatchesPredicate.match` / `_MatchesPredicateWithParams.match` -/
structure PredSkel where
  negatedPredicate : Bool         -- `if not self.predicate(x …):`
  oneTupleFormat : Bool           -- `self.message % (x,)`   (WithParams: `.format(*((x,) + self.args), **self.kwargs)`)
  fallsOffToNone : Bool
deriving DecidableEq, Repr

/-! ### `_BinaryComparison` and its subclasses -/
inductive CmpOp | eq | ne | is_ | lt | gt | le | ge | unknown
deriving DecidableEq, Repr

structure BinRow where
  cls : String
  op : CmpOp
  mismatchString : String
deriving DecidableEq, Repr

structure BinSkel where
  otherThenExpected : Bool        -- `self.comparator(other, self.expected)`
  truthyReturnsNone : Bool        -- `if <that>: return None`
  elseBinaryMismatch : Bool       -- `return _BinaryMismatch(other, self.mismatch_string, self.expected)`
  rows : List BinRow
deriving DecidableEq, Repr

/-- Python's comparison operators on the value universe (`none` = TypeError) -/
def cmpI : CmpOp → V → V → Option Bool
  | .eq, a, b => some (veq a b)
  | .ne, a, b => some (!veq a b)
  | .is_, a, b => some (veq a b)          -- identity = structural equality under the harness's interning
  | .lt, a, b => pyLt a b
  | .gt, a, b => pyLt b a
  | _, _, _ => none

def rowOf (sk : BinSkel) (cls : String) : Option BinRow := sk.rows.find? (fun r => r.cls == cls)

/-- `_BinaryComparison.match` of the class `cls` with expectation `e` on `v` -/
def binI (sk : BinSkel) (cls : String) (e v : V) : Verdict :=
  match rowOf sk cls with
  | none => .raised .oracleMiss
  | some r =>
    if sk.otherThenExpected && sk.truthyReturnsNone && sk.elseBinaryMismatch then
      match cmpI r.op v e with
      | some b => .ofBool b
      | none => .raised .typeError
    else .raised .oracleMiss

/-! ### the other leaves of `_basic.py` -/
/-- `Contains.match`: `needle not in matchee` → mismatch; which exceptions of `in` are turned into a mismatch -/
structure ContainsSkel where
  notInReturnsMismatch : Bool
  caught : List String
  elseNone : Bool
deriving DecidableEq, Repr

structure SameMembersSkel where
  expectedMinusObserved : Bool    -- `list_subtract(self.expected, observed)`
  observedMinusExpected : Bool    -- `list_subtract(observed, self.expected)`
  bothEmptyReturnsNone : Bool     -- `if expected_only == observed_only == []: return`
deriving DecidableEq, Repr

/-- `StartsWith` / `EndsWith` / `MatchesRegex` / `IsInstance`: one call decides -/
structure CallSkel where
  call : String                   -- canonical text of the deciding call (`x0` = the matchee parameter)
  negated : Bool                  -- `if not <call>: return <mismatch>`
  otherwiseNone : Bool
deriving DecidableEq, Repr

/-! ### `_datastructures.py` -/
structure ListwiseSkel where
  lengthFirst : Bool              -- `Annotate("Length mismatch", HasLength(len(self.matchers))).match(values)` before the loop
  lengthTest : ResTest            -- how that result is tested before it is collected
  loop : LoopSkel
deriving DecidableEq, Repr

structure StructureSkel where
  sortedItems : Bool              -- `for attr, matcher in sorted(self.kws.items())`
  annotatesWithAttr : Bool        -- `Annotate(attr, matcher)`
  getattrInLoop : Bool            -- `values.append(getattr(value, attr))`: every attribute is read before anything is matched
  delegatesToListwise : Bool      -- `MatchesListwise(matchers).match(values)`
deriving DecidableEq, Repr

inductive MatcherColl | occurrences | distinctObjects | hashSet | unknown
deriving DecidableEq, Repr
inductive Pairing | augmentingPaths | firstAccepting | unknown
deriving DecidableEq, Repr

/-- `MatchesSetwise.match`; the augmenting-path search is recognised by its shape, not translated: what it computes is a
maximum pairing, so "nothing left over" = "a perfect pairing exists" -/
structure SetwiseSkel where
  matchers : MatcherColl          -- `list(self.matchers)`: a matcher given twice counts twice
  valuesListed : Bool             -- `values = list(observed)`
  acceptValueMajor : Bool         -- `[[matcher.match(value) <test> for matcher in matchers] for value in values]`
  acceptTest : ResTest
  pairing : Pairing
  leftoversFromPairing : Bool     -- not_matched = values whose `pair(index)` failed; remaining = matchers not in `value_of`
  mismatchIffLeftover : Bool      -- `if not_matched or remaining_matchers:` … every branch returns a mismatch; else None
deriving DecidableEq, Repr

structure ContainsAllSkel where
  allOfContains : Bool            -- `MatchesAll(*map(Contains, items), first_only=False)`
deriving DecidableEq, Repr

/-! ### `_dict.py` -/
inductive DictPart | extra | missing | differences | unknown
deriving DecidableEq, Repr

structure DictRow where
  cls : String
  parts : List (String × DictPart)     -- `matcher_factories`, in order
deriving DecidableEq, Repr

structure DictSkel where
  rows : List DictRow
  combinedBuildsAllDict : Bool    -- `_CombinedMatcher.match`: every factory applied to the expectation, `MatchesAllDict(matchers).match(observed)`
  allDictAsksEveryLabel : Bool    -- `MatchesAllDict.match`: no short-circuit
  keptIfTruthy : Bool             -- `_dict_to_mismatch`: `filter_values(bool, data)`; a mismatch iff something is kept
  extraIsObservedMinusExpected : Bool   -- `_SubDictOf.match`: `dict_subtract(observed, self.super_dict)`
  missingSwapsRoles : Bool        -- `_SuperDictOf.match`: `_SubDictOf(super_dict, …).match(self.sub_dict)`
  commonKeysIntersection : Bool   -- `set(expected.keys()) & set(observed.keys())`
  commonTest : ResTest            -- how a common key's result is tested before it is kept
  keysEqualBothSubtractions : Bool      -- `KeysEqual.match`: `list_subtract` both ways decides
deriving DecidableEq, Repr

def dictRow (sk : DictSkel) (cls : String) : List (String × DictPart) :=
  match sk.rows.find? (fun r => r.cls == cls) with
  | some r => r.parts
  | none => []

/-- which key-set conditions a dict matcher reports (`extra`: observed keys outside the expectation, `missing`: expected
keys absent from the observed dict) -/
def dictOwnI (parts : List (String × DictPart)) (extra missing : Bool) : Bool :=
  parts.any fun p => match p.2 with
    | .extra => extra
    | .missing => missing
    | _ => false

def dictClass : DictKind → String
  | .exact => "MatchesDict" | .contains => "ContainsDict" | .containedBy => "ContainedByDict"

/-! ### `_exception.py` -/
inductive ExcStep
  /- the constructor -/
  | strValueReIsRegexOnStr        -- `if isinstance(value_re, str): value_re = AfterPreprocessing(str, MatchesRegex(value_re), False)`
  | instanceUnlessClassOrTuple    -- `_is_instance` = `type(expected)` is NOT a subclass of `type` or of `tuple` (a class with a
                                  --  metaclass is a class, a named tuple of classes is a tuple of classes)
  /- match() -/
  | notTupleMismatch              -- `if not isinstance(other, tuple): return Mismatch(…)`
  | notSubclassMismatch           -- `if not issubclass(other[0], expected_class): return Mismatch(…)`
  | instanceArgsDifferMismatch    -- `if self._is_instance: if other[1].args != self.expected.args: return Mismatch(…)`
  | valueMatcherIfNotNone         -- `elif self.value_re is not None: return self.value_re.match(other[1])`
  | unknown
deriving DecidableEq, Repr

structure RaisesSkel where
  callsMatcheeInTry : Bool
  returnedIsMismatch : Bool       -- `return Mismatch(f"{matchee!r} returned {result!r}")` right after the call
  catchesBaseException : Bool
  matcherGuard : ResTest          -- `if self.exception_matcher:` (truthiness of the matcher object)
  innerTest : ResTest             -- `if not mismatch: return` (the exception matched)
  propagatesNonUser : Bool        -- `if _is_exception(exception) and not _is_user_exception(exception): raise`
  otherwiseReturnsMismatch : Bool
deriving DecidableEq, Repr

/-! ### C07: `_impl.py`, `testcase.py`, `assertions.py` -/
structure MismatchSrc where
  descriptionKeptIf : ResTest     -- `if description is not None: self._description = description`
  detailsDefaultEmptyDict : Bool
  describeReturnsDescription : Bool
  describeMissingIsNotImplemented : Bool   -- `except AttributeError: raise NotImplementedError(self.describe)`
  getDetailsReturnsDetails : Bool
  decoratorForwardsDescribe : Bool         -- MismatchDecorator.describe / get_details forward to `self.original`
  decoratorForwardsDetails : Bool
  /-- classes of `testtools/matchers/*.py` that define `__bool__` or `__len__`: with none, every stock mismatch object is truthy,
  which is what `ResTest.holds` assumes when it reads `if mismatch:` as "a mismatch was returned" -/
  truthOverrides : List String
deriving DecidableEq, Repr

structure ErrStrSrc where
  describesFirst : Bool           -- `difference = self.mismatch.describe()`
  verboseGuard : Bool             -- `if self.verbose:`
  textReprFor : List String       -- `isinstance(self.matchee, (str, bytes))` → `text_repr(self.matchee, multiline=False)`
  multilineFalse : Bool
  otherwiseRepr : Bool
  formatOrder : List String       -- what is interpolated into "Match failed. Matchee: %s\nMatcher: %s\nDifference: %s\n"
  terseReturnsDifference : Bool
deriving DecidableEq, Repr

/-- `_warnings.py`: how `Warnings.match` gets at the LIST of warnings the callable emits -/
structure WarningsSkel where
  recordsInCatchWarnings : Bool    -- `with warnings.catch_warnings(record=True) as w:` (the caller's filters come back afterwards)
  /-- the statements between entering the block and calling the matchee, e.g. `["warnings.simplefilter('always')"]`: with the action
  "always" EVERY warning reaches `w` — repeats of one (text, category, line) included, whatever filters the caller had -/
  beforeCall : List String
  callsMatcheeInside : Bool        -- `matchee()` inside the block, nothing else after the filter
  matcherGuard : ResTest           -- `if self.warnings_matcher is not None: return self.warnings_matcher.match(w)`
  matcherGetsRecorded : Bool
  otherwiseMismatchIfNone : Bool   -- `elif not w: return Mismatch(...)` and None when there was a warning
  isDeprecatedIsListwiseOfOne : Bool  -- `Warnings(MatchesListwise([WarningMessage(category_type=DeprecationWarning, message=message)]))`
  categoryByIdentity : Bool        -- `WarningMessage`: `category=… Is(category_type)`, the message matched after `str`
deriving DecidableEq, Repr

structure AssertSrc where
  helperAnnotates : Bool          -- `matcher = Annotate.if_message(message, matcher)`
  helperTest : ResTest            -- `if not mismatch: return`
  helperDetailsUnique : Bool      -- `for name, value in mismatch.get_details().items(): self.addDetailUniqueName(name, value)`
  helperReturnsError : Bool       -- `return MismatchError(matchee, matcher, mismatch, verbose)`
  assertRaisesIf : ResTest        -- `if mismatch_error is not None: raise mismatch_error`
  expectTest : ResTest            -- `if mismatch_error is not None:`
  expectDetailUnique : Bool       -- `self.addDetailUniqueName("Failed expectation", …)`
  expectForcesFailure : Bool      -- `self.force_failure = True`
  expectNeverRaises : Bool        -- no `raise` in expectThat
  uniqWhileTaken : Bool           -- `while full_name in existing_details:`
  uniqSuffixFrom : Nat            -- `suffix = 1`
  uniqFormat : String             -- `"%s-%d" % (name, suffix)`
  uniqIncrements : Bool
  uniqAddsDetail : Bool
  fnAnnotates : Bool              -- assertions.assert_that
  fnTest : ResTest
  fnRaisesError : Bool
  fnAttachesDetails : Bool        -- (it has no test to attach them to)
deriving DecidableEq, Repr

open TTV.Describe in
/-- the three entry points, from the data: was a `MismatchError` raised, which detail names exist afterwards, is the
failure forced — given what `match()` returned -/
def assertI (s : AssertSrc) (i : AssertIn) : Bool × List Name × Bool :=
  let mismatched (t : ResTest) : Bool := match i.mismatch with
    | none => t.holds .match
    | some _ => t.holds .mismatch
  let withDetails : List Name := match i.mismatch with
    | some ds => if s.helperDetailsUnique then ds.foldl addUnique i.existing else i.existing
    | none => i.existing
  match i.api with
  | .assert_that =>
    -- returns when the helper test says "no mismatch", raises otherwise
    (s.fnRaisesError && !mismatched s.fnTest, i.existing, false)
  | .assertThat =>
    let err := s.helperReturnsError && !mismatched s.helperTest
    (err && mismatched' s.assertRaisesIf err, if err then withDetails else i.existing, false)
  | .expectThat =>
    let err := s.helperReturnsError && !mismatched s.helperTest
    let hit := err && mismatched' s.expectTest err
    (false && !s.expectNeverRaises,
     if hit then (if s.expectDetailUnique then addUnique withDetails 0 else withDetails) else (if err then withDetails else i.existing),
     hit && s.expectForcesFailure)
where
  /-- the test applied to the helper's return value (None or the error object) -/
  mismatched' (t : ResTest) (err : Bool) : Bool := t.holds (if err then .mismatch else .match)

/-! ## reference terms: what the pinned tree contains -/
def refAny : LoopSkel :=
  { over := .matchersSameValue, arms := [⟨.isNone, .returnNone⟩, ⟨.isNotNone, .collect⟩], atEnd := .mismatchesAll }
def refAll : LoopSkel :=
  { over := .matchersSameValue, arms := [⟨.isNotNone, .returnItIfFirstOnlyElseCollect⟩], atEnd := .mismatchesAllIfAny }
def refAllMatch : LoopSkel :=
  { over := .valuesSameMatcher, arms := [⟨.truthy, .collect⟩], atEnd := .mismatchesAllIfAny }
def refAnyMatch : LoopSkel :=
  { over := .valuesSameMatcher, arms := [⟨.falsy, .returnNone⟩, ⟨.truthy, .collect⟩], atEnd := .mismatchesAll }
def refNot : WrapSkel := { test := .isNone, hit := .newMismatch, miss := .none }
def refAnnotate : WrapSkel := { test := .isNotNone, hit := .wrappedMismatch, miss := .none }
def refAfter : AfterSkel := { preprocessFirst := true, annotateGuarded := true, returnsInnerOnAfter := true }
def refPredicate : PredSkel := { negatedPredicate := true, oneTupleFormat := true, fallsOffToNone := true }
def refBin : BinSkel :=
  { otherThenExpected := true, truthyReturnsNone := true, elseBinaryMismatch := true,
    rows := [⟨"Equals", .eq, "!="⟩, ⟨"NotEquals", .ne, "=="⟩, ⟨"Is", .is_, "is not"⟩, ⟨"LessThan", .lt, ">="⟩,
             ⟨"GreaterThan", .gt, "<="⟩] }
def refContains : ContainsSkel :=
  { notInReturnsMismatch := true, caught := ["TypeError", "ValueError"], elseNone := true }
def refSameMembers : SameMembersSkel :=
  { expectedMinusObserved := true, observedMinusExpected := true, bothEmptyReturnsNone := true }
def refStartsWith : CallSkel := { call := "x0.startswith(self.expected)", negated := true, otherwiseNone := true }
def refEndsWith : CallSkel := { call := "x0.endswith(self.expected)", negated := true, otherwiseNone := true }
def refRegex : CallSkel := { call := "re.match(self.pattern, x0, self.flags)", negated := true, otherwiseNone := true }
def refIsInstance : CallSkel := { call := "isinstance(x0, self.types)", negated := true, otherwiseNone := true }
def refListwise : ListwiseSkel :=
  { lengthFirst := true, lengthTest := .truthy,
    loop := { over := .zipMatchersValues, arms := [⟨.truthy, .returnItIfFirstOnlyElseCollect⟩], atEnd := .mismatchesAllIfAny } }
def refStructure : StructureSkel :=
  { sortedItems := true, annotatesWithAttr := true, getattrInLoop := true, delegatesToListwise := true }
def refSetwise : SetwiseSkel :=
  { matchers := .occurrences, valuesListed := true, acceptValueMajor := true, acceptTest := .isNone,
    pairing := .augmentingPaths, leftoversFromPairing := true, mismatchIffLeftover := true }
def refContainsAll : ContainsAllSkel := { allOfContains := true }
def refDict : DictSkel :=
  { rows := [⟨"MatchesDict", [("Extra", .extra), ("Missing", .missing), ("Differences", .differences)]⟩,
             ⟨"ContainsDict", [("Missing", .missing), ("Differences", .differences)]⟩,
             ⟨"ContainedByDict", [("Extra", .extra), ("Differences", .differences)]⟩],
    combinedBuildsAllDict := true, allDictAsksEveryLabel := true, keptIfTruthy := true,
    extraIsObservedMinusExpected := true, missingSwapsRoles := true, commonKeysIntersection := true,
    commonTest := .truthy, keysEqualBothSubtractions := true }
def refMatchesException : List ExcStep :=
  [.strValueReIsRegexOnStr, .instanceUnlessClassOrTuple,
   .notTupleMismatch, .notSubclassMismatch, .instanceArgsDifferMismatch, .valueMatcherIfNotNone]
def refRaises : RaisesSkel :=
  { callsMatcheeInTry := true, returnedIsMismatch := true, catchesBaseException := true, matcherGuard := .truthy,
    innerTest := .falsy, propagatesNonUser := true, otherwiseReturnsMismatch := true }
def refMismatch : MismatchSrc :=
  { descriptionKeptIf := .isNotNone, detailsDefaultEmptyDict := true, describeReturnsDescription := true,
    describeMissingIsNotImplemented := true, getDetailsReturnsDetails := true, decoratorForwardsDescribe := true,
    decoratorForwardsDetails := true, truthOverrides := [] }
def refErrStr : ErrStrSrc :=
  { describesFirst := true, verboseGuard := true, textReprFor := ["str", "bytes"], multilineFalse := true,
    otherwiseRepr := true, formatOrder := ["matchee", "self.matcher", "difference"], terseReturnsDifference := true }
def refWarnings : WarningsSkel :=
  { recordsInCatchWarnings := true, beforeCall := ["warnings.simplefilter('always')"], callsMatcheeInside := true,
    matcherGuard := .isNotNone, matcherGetsRecorded := true, otherwiseMismatchIfNone := true,
    isDeprecatedIsListwiseOfOne := true, categoryByIdentity := true }
def refAssert : AssertSrc :=
  { helperAnnotates := true, helperTest := .falsy, helperDetailsUnique := true, helperReturnsError := true,
    assertRaisesIf := .isNotNone, expectTest := .isNotNone, expectDetailUnique := true, expectForcesFailure := true,
    expectNeverRaises := true, uniqWhileTaken := true, uniqSuffixFrom := 1, uniqFormat := "%s-%d", uniqIncrements := true,
    uniqAddsDetail := true, fnAnnotates := true, fnTest := .falsy, fnRaisesError := true, fnAttachesDetails := false }

end TTV.MatchSkel
