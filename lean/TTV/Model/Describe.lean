import TTV.Model.Matchers
import TTV.Model.TextRepr
import TTV.Generated.C07
/-! M-Match, part 2 (C07): can a matcher / a mismatch be *described*?

An error monad (`Option ExcCls`, `none` = success) whose failure sources are exactly those present in
the code:
* `str(matcher)` resolving to the inherited `Matcher.__str__` (raises `NotImplementedError`) — which
  classes are affected is read from the tree on every run (`TTV.Generated.C07.strKinds`);
* a `Mismatch` built with an empty description (`Mismatch('')` leaves `_description` unset, `describe()`
  raises `NotImplementedError`): no stock matcher can produce one (`MatchesPredicate` with an empty message
  fails earlier, see next item);
* `message % (matchee,)` with a message that does not have exactly one conversion (`MatchesPredicate`
  built outside its documented domain): the `TypeError` is raised inside `match()` itself (modelled in
  `leafImpl`).
`repr`, `pformat`, `%`/`format` on the values of the universe are assumed total.

Also here: the tiny model of `TestCase.assertThat` / `assertions.assert_that` / `TestCase.expectThat`,
and the C07 input / trace types.  Import-free (the driver links against it). -/
namespace TTV.Describe
open TTV.Matchers TTV.Generated.C07

abbrev R := Option ExcCls          -- result of a describing operation: none = returned the right type

def kindOf (name : String) : StrKind :=
  match strKinds.find? (fun p => p.1 == name) with
  | some p => p.2
  | none => .inherited             -- a class the tree no longer has / the extractor did not find

/-- `str()` of an instance of class `name` whose `__str__`, if its own, renders `kids` -/
def strOf (name : String) (kids : R) : R :=
  match kindOf name with
  | .inherited => some .notImplementedError
  | .object => none
  | .own => kids

def seqR (a b : R) : R := match a with | some c => some c | none => b

def leafClass : Leaf → String
  | .equals _ => "Equals" | .notEquals _ => "NotEquals" | .is_ _ => "Is" | .lessThan _ => "LessThan"
  | .greaterThan _ => "GreaterThan" | .sameMembers _ => "SameMembers" | .startsWith _ => "StartsWith"
  | .endsWith _ => "EndsWith" | .contains _ => "Contains" | .isInstance _ => "IsInstance"
  | .hasLength _ => "_MatchesPredicateWithParams" | .always => "_Always" | .never => "_Never"
  | .keysEqual _ => "KeysEqual" | .excType _ => "MatchesException" | .excInst _ => "MatchesException"
  | .raisesAny => "Raises" | .opaque _ _ _ => "<opaque>" | .predicate _ _ _ _ => "MatchesPredicate"

def leafStr : Leaf → R
  | .opaque id _ _ => match opaqueStr.find? (fun p => p.1 == id) with
      | some (_, true) => none
      | some (_, false) => some .notImplementedError
      | none => none        -- ids outside the catalog: the regex of MatchesException(type, "regex") (never str()-ed)
  | l => strOf (leafClass l) none

def dictClass : DictKind → String
  | .exact => "MatchesDict" | .contains => "ContainsDict" | .containedBy => "ContainedByDict"

/- `str(matcher)`; which sub-matchers a class renders is transcribed from its `__str__` -/
mutual
def strM : M → R
  | .leaf l => leafStr l
  | .excTypeV _ _ => strOf "MatchesException" none      -- shows repr(expected) only
  | .raises _ => strOf "Raises" none                    -- "Raises()"
  | .not m => strOf "Not" (strM m)
  | .all _ ms => strOf "MatchesAll" (strML ms)
  | .any ms => strOf "MatchesAny" (strML ms)
  | .allMatch m => strOf "AllMatch" (strM m)
  | .anyMatch m => strOf "AnyMatch" (strM m)
  | .listwise _ _ => strOf "MatchesListwise" none       -- no __str__ of its own in the pinned tree
  | .setwise _ _ _ => strOf "MatchesSetwise" none
  | .structure _ ms => strOf "MatchesStructure" (strML ms)
  | .dict k _ ms => strOf (dictClass k) (strML ms)
  | .annotate m => strOf "Annotate" (strM m)
  | .after _ _ m => strOf "AfterPreprocessing" (strM m)
def strML : List M → R
  | [] => none
  | m :: ms => seqR (strM m) (strML ms)
end

/-! ## `describe()` of the mismatch returned by `match()` -/
def leafDescr : Leaf → V → R
  | _, _ => none     -- every leaf mismatch of the stock matchers carries a non-empty description

/-- first failure among the descriptions of the parts that produced a mismatch; `firstOnly`: only the
first mismatching part is described -/
def descrParts (firstOnly : Bool) : List Verdict → List R → R
  | .mismatch :: vs, d :: ds => if firstOnly then d else seqR d (descrParts firstOnly vs ds)
  | _ :: vs, _ :: ds => descrParts firstOnly vs ds
  | _, _ => none

/- `describe()` of the mismatch that `match()` returns — meaningful when `matchImpl sel m v = .mismatch` -/
mutual
def descr (sel : Bool) : M → V → R
  | .leaf l, v => leafDescr l v
  | .excTypeV cs vm, v => match v with
      | .exc e true => if excTypeMatches cs e then descr sel vm (.exc e false) else none
      | _ => none
  | .raises em, v => match callV v with
      | .inl _ => none
      | .inr e => descr sel em (.exc e true)
  | .not m, _ => strM m                                  -- MatchedUnexpectedly: f"{other!r} matches {self.matcher}"
  | .all fo ms, v => descrParts fo (matchRow sel ms v) (descrRow sel ms v)
  | .any ms, v => descrParts false (matchRow sel ms v) (descrRow sel ms v)
  | .allMatch m, v => match pyIter v with
      | none => none
      | some xs => descrParts false (xs.map (matchImpl sel m)) (xs.map (descr sel m))
  | .anyMatch m, v => match pyIter v with
      | none => none
      | some xs => descrParts false (xs.map (matchImpl sel m)) (xs.map (descr sel m))
  | .listwise fo ms, v => match pyIter v with
      | none => none
      | some xs => descrParts fo (somes (matchZip sel ms (xs.map some))) (descrZip sel ms (xs.map some))
  | .setwise _ _ ms, v => match pyIter v with
      | none => none
      | some xs =>
        -- only the branch with left-over matchers *and* values re-matches (listwise) and describes those
        -- mismatches; which pairs are left over depends on the pairing found: worst case over all pairs
        xs.foldr (fun x r => seqR (descrParts false (matchRow sel ms x) (descrRow sel ms x)) r) none
  | .structure attrs ms, v =>
      descrParts false (somes (matchZip sel ms (attrs.map (getAttr v)))) (descrZip sel ms (attrs.map (getAttr v)))
  | .dict _ ks ms, v => match v with
      | .dict oks ovs =>
          descrParts false (somes (matchZip sel ms (ks.map fun k => lookupK k oks ovs)))
            (descrZip sel ms (ks.map fun k => lookupK k oks ovs))
      | _ => none
  | .annotate m, v => descr sel m v
  | .after f _ m, v => match applyPre f v with
      | .ok w => descr sel m w
      | .error _ => none
def descrRow (sel : Bool) : List M → V → List R
  | [], _ => []
  | m :: ms, v => descr sel m v :: descrRow sel ms v
def descrZip (sel : Bool) : List M → List (Option V) → List R
  | m :: ms, some v :: vs => descr sel m v :: descrZip sel ms vs
  | _ :: ms, none :: vs => descrZip sel ms vs
  | _, _ => []
end

/-! ## assertThat / assert_that / expectThat -/
/-- detail names: `base` (0 = "Failed expectation", 1 = "traceback", n ≥ 2 = a name of the harness) with the
`-<suffix>` that `addDetailUniqueName` appends (0 = none) -/
structure Name where
  base : Nat
  suffix : Nat
deriving DecidableEq, Repr

def uniqFrom (existing : List Name) (base : Nat) : Nat → Nat → Name
  | 0, k => ⟨base, k⟩
  | fuel + 1, k => if existing.contains ⟨base, k⟩ then uniqFrom existing base fuel (k + 1) else ⟨base, k⟩
/-- `addDetailUniqueName`: `name`, `name-1`, `name-2`, … — the first one not taken -/
def uniq (existing : List Name) (base : Nat) : Name := uniqFrom existing base existing.length 0
def addUnique (existing : List Name) (base : Nat) : List Name := existing ++ [uniq existing base]

inductive Api | assertThat | assert_that | expectThat
deriving DecidableEq, Repr
/-- what the result is told in the end: addSuccess / addFailure / addError / addSkip / addExpectedFailure /
addUnexpectedSuccess -/
inductive Outcome | success | failure | error | skip | xfail | uxsuccess
deriving DecidableEq, Repr

/-- what a stage of the test (the rest of the body after the call, `tearDown`, a cleanup) does:
return, `self.skipTest(..)`, `self.expectFailure(..)` around a failing / a passing predicate
(`_ExpectedFailure` / `_UnexpectedSuccess`), `self.fail(..)`, `raise ValueError`, `raise KeyboardInterrupt` -/
inductive Act | ret | skip | xfail | uxsuccess | failure | error | interrupt
deriving DecidableEq, Repr

/-- the exceptions `RunTest` collects in `_exceptions`, by the handler that claims them
(`intr`: claimed by none, it has to propagate) -/
inductive Exn | skip | xfail | uxsuccess | fail | err | intr
deriving DecidableEq, Repr

def Act.exn : Act → Option Exn
  | .ret => none | .skip => some .skip | .xfail => some .xfail | .uxsuccess => some .uxsuccess
  | .failure => some .fail | .error => some .err | .interrupt => some .intr

/-- `_report_skip` and `_report_expected_failure`: outcomes that must never mask a problem -/
def Exn.benign : Exn → Bool
  | .skip => true | .xfail => true | _ => false

def Exn.outcome : Exn → Outcome
  | .skip => .skip | .xfail => .xfail | .uxsuccess => .uxsuccess | .fail => .failure | .err => .error
  | .intr => .error          -- last_resort = _report_error, then the exception is re-raised

/-- `RunTest._select_exception`: an exception no handler claims always wins; otherwise the last one that
is not a skip / expected failure; otherwise the last one -/
def selectExn (es : List Exn) : Option Exn :=
  match es.find? (· == .intr) with
  | some e => some e
  | none => match es.reverse.find? (fun e => !e.benign) with
    | some e => some e
    | none => es.getLast?

/-- where the call under test sits: in the test method, or in the test's own `setUp` — after its upcall to the base
`setUp`, or before it (`setUpEarly`: the stage does its own work first and upcalls last) — then the existing details,
the cleanups and `after` belong to `setUp` too, and the test method itself does nothing.  The position relative to the
upcall makes no difference to what the run has to report (the base `setUp` only records that it was called). -/
inductive Place | body | setUp | setUpEarly
deriving DecidableEq, Repr

structure AssertIn where
  api : Api
  existing : List Name               -- details the test already has
  mismatch : Option (List Nat)       -- what match() returned: none = None, some ds = a Mismatch whose get_details() has the names ds
  after : Act := .ret                -- what the test body does after the call (if the call returned)
  tearDown : Act := .ret
  cleanups : List Act := []          -- cleanups registered (in this order) at the start of the body; they run last-in first-out
  place : Place := .body             -- the stage the call (with `existing`, `cleanups`, `after`) sits in
deriving Repr

structure AssertOut where
  raised : Bool                      -- the call raised MismatchError
  continued : Bool                   -- the statement after the call ran
  names : List Name                  -- detail names right after the call
  forceFailure : Bool
  outcome : Outcome                  -- what the test run reports in the end
  propagated : Bool := false         -- `run()` let an exception (KeyboardInterrupt) propagate
deriving DecidableEq, Repr

def somesExn : List (Option Exn) → List Exn
  | [] => []
  | none :: r => somesExn r
  | some e :: r => e :: somesExn r

/-- `setUp` raised (the call sits there and raised, or what `setUp` went on to do raised): `_run_core` then runs
neither the test method nor `tearDown`, only the cleanups -/
def setUpGaveUp (callRaised : Bool) (i : AssertIn) : Bool :=
  i.place != .body && (callRaised || i.after != .ret)

/-- the exceptions of the run in the order `_run_core` collects them: the stage with the call (body or setUp),
tearDown (unless setUp gave up), cleanups (LIFO) and — last, whenever `force_failure` is set, also when setUp gave
up — the `AssertionError("Forced Test Failure")` -/
def stageExns (callRaised : Bool) (i : AssertIn) : List Exn :=
  somesExn ((if callRaised then some Exn.fail else i.after.exn) ::
    (if setUpGaveUp callRaised i then [] else [i.tearDown.exn]) ++ i.cleanups.reverse.map Act.exn)
def runExns (callRaised forceFailure : Bool) (i : AssertIn) : List Exn :=
  stageExns callRaised i ++ (if forceFailure then [Exn.fail] else [])

/-- `_matchHelper` + the three entry points + the rest of `RunTest._run_core` / `_run_prepared_result` -/
def assertModel (i : AssertIn) : AssertOut :=
  let finish (raised : Bool) (names : List Name) (ff : Bool) : AssertOut :=
    let sel := selectExn (runExns raised ff i)
    { raised := raised, continued := !raised, names := names, forceFailure := ff,
      outcome := match sel with | none => .success | some e => e.outcome,
      propagated := sel == some .intr }
  match i.mismatch with
  | none => finish false i.existing false
  | some ds =>
    match i.api with
    | .assert_that => finish true i.existing false          -- plain function: no test to attach details to
    | .assertThat => finish true (ds.foldl addUnique i.existing) false
    | .expectThat => finish false (addUnique (ds.foldl addUnique i.existing) 0) true

/-! ## C07 input / trace -/
inductive Input
  /-- describe-ability of `Annotate.if_message(message, m)` on `v`; the set order is `ka` -/
  | describe (m : M) (v : V) (annotated verbose : Bool)
  /-- `text_repr(s, multiline)`; `np` = the non-printable code points ≥ 128 occurring in `s` -/
  | textRepr (isBytes : Bool) (ml : Option Bool) (np : List Nat) (s : List Nat)
  | assert (a : AssertIn)
  /-- a stock matcher of class `cls` built by the harness with one of the legal shapes of its constructor
  arguments (row / variant of the harness's table: tuple of length 0/1/2, list, set, frozenset, str, bytes,
  None, …) applied to matchee number `matchee` of the harness's pool (tuples included); the Lean side only
  needs the class, to look up how `str()` resolves -/
  | ctor (cls : String) (row variant matchee : Nat) (annotated verbose : Bool)
deriving Repr

inductive Trace
  | describe (str : R) (matched : Verdict) (describe details errStr : R)
  /-- `out = text_repr(s, ml)`, `back = literal_eval(out)`, `rep = repr(s)`, `repBack = literal_eval(rep)` -/
  | textRepr (out : List Nat) (back : Option (List Nat)) (rep : List Nat) (repBack : Option (List Nat))
  | assert (o : AssertOut)
  /-- `str(matcher)`; and, if `match()` returned a mismatch: `describe()`, `get_details()`, `str(MismatchError)` -/
  | ctor (str describe details errStr : R)
deriving Repr

/-- `str()` of an instance of a class of the table (a class the table does not list falls back to its own /
`object`'s `__str__`) -/
def strKnown (cls : String) : R :=
  match strKinds.find? (fun p => p.1 == cls) with
  | some (_, .inherited) => some .notImplementedError
  | _ => none

def withMessage (annotated : Bool) (m : M) : M := if annotated then .annotate m else m

def printableOf (np : List Nat) (c : Nat) : Bool := !np.contains c

def model : Input → Trace
  | .describe m v annotated verbose =>
    let m' := withMessage annotated m
    let r := canon m' (matchImpl true m' v)
    let d : R := if r == .mismatch then descr true m' v else none
    -- str(MismatchError): describe(); verbose adds text_repr/repr of the matchee and str(matcher)
    let e : R := if r == .mismatch then seqR d (if verbose then strM m' else none) else none
    .describe (strM m') r d none e
  | .textRepr b ml np s =>
    let out := TextRepr.textRepr b (printableOf np) ml s
    let rep := TextRepr.pyRepr b (printableOf np) s
    .textRepr out (TextRepr.pyEval b out) rep (TextRepr.pyEval b rep)
  | .assert a => .assert (assertModel a)
  | .ctor cls _ _ _ _ _ => .ctor (strKnown cls) none none none

end TTV.Describe
