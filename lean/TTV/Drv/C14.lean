import TTV.Sexp
import TTV.Model.AsyncRun
import TTV.Spec.C14
/-! Driver glue for C14: codecs between S-expressions and `AsyncRun.Prog` / `AsyncRun.Trace`.

Input : `(timeout (stop …) broken suppress store nObs setUp body tearDown [real])`,
        stage = `((stage …) (side …) beh)` (the cleanups it registers at its start, its side effects, its behaviour),
        side = `(junk d)` | `logerr` | `dropfailed` | `flush` | `expect`,
        beh = `ret` | `(raise k)` | `(fire d)` | `(faild d k)` | `never`, k = `err` | `fail` | `skip` | `ki` | `exit` | `genexit`,
        each also `k-nobool` / `k-nolen` (the exception instance is falsy: the same for the runner)
Trace : `((ev …) stopRequested raised ((name t observers) …) (live …) leftover pending obsRestored realStops finalTime)`,
        name = `setUp` | `body` | `tearDown` | `(cleanup i)`, ev = `startTest` | `success` | `error` | `failure` | `skip` | `stopTest` -/
namespace TTV.Drv.C14
open TTV TTV.Sexp TTV.AsyncRun

def excClass? : String → Option Exc
  | "err" => some .err | "fail" => some .fail | "skip" => some .skip
  | "ki" => some .ki | "exit" => some .ki                  -- KeyboardInterrupt / SystemExit: the same for the runner
  | "genexit" => some .ki                                  -- … and GeneratorExit raised by (or failing the Deferred of) a stage
  | _ => none

/-- `k`, `k-nobool`, `k-nolen`: the truth value of the exception instance (a subclass with `__bool__` returning False / `__len__`
returning 0) is nothing the runner may look at -/
def exc? : Sexp → Option Exc
  | .atom s =>
    match s.splitOn "-" with
    | [k] => excClass? k
    | [k, "nobool"] => excClass? k
    | [k, "nolen"] => excClass? k
    | _ => none
  | _ => none

def beh? : Sexp → Option Beh
  | .atom "ret" => some .ret
  | .list [.atom "ret", v] => (nat? v).map fun _ => .ret           -- returns the value with token `v`: the model never looks at values
  | .list [.atom "same", k] => (nat? k).map fun _ => .ret          -- returns the very Deferred an earlier stage returned: it has fired
                                                                    -- (the runner waited for it), so the stage is over at once
  | .list [.atom "raise", k] => (exc? k).map .raise
  | .list [.atom "fire", d] => (nat? d).map .fire
  | .list [.atom "fire", d, v] => do let _ ← nat? v; (nat? d).map .fire   -- the Deferred fires with the value with token `v`
  | .list [.atom "faild", d, k] => do some (.failD (← nat? d) (← exc? k))
  | .atom "never" => some .never
  | _ => none

def side? : Sexp → Option Side
  | .list [.atom "junk", d] => (nat? d).map .junk
  | .atom "logerr" => some .logerr
  | .list [.atom "logerr", .atom _] => some .logerr       -- the route by which the error reaches Twisted's log: the same for the runner
  | .atom "dropfailed" => some .dropfailed
  | .atom "flush" => some .flush
  | .atom "expect" => some .expect
  | _ => none

/-- stage = `((cleanup stage …) (side …) beh)`, cleanups nested at most `fuel` deep -/
def stageF : Nat → Sexp → Option Stage
  | 0, _ => none
  | n + 1, .list [.list cs, sides, b] => do some (.mk (← cs.mapM (stageF n)) (← list? side? sides) (← beh? b))
  | _ + 1, _ => none

def stage? (s : Sexp) : Option Stage := stageF 64 s

/-- an optional last element says on which reactor the harness ran the program (`real`); the model is the same -/
def input? : Sexp → Option Prog
  | .list (t :: stops :: br :: su :: st :: n :: a :: b :: c :: rest) => do
      if rest.length > 1 then none
      some { timeout := ← nat? t, stops := ← list? nat? stops, broken := ← bool? br, suppress := ← bool? su,
             store := ← bool? st, nObs := ← nat? n, setUp := ← stage? a, body := ← stage? b, tearDown := ← stage? c }
  | _ => none

def ev? : Sexp → Option Ev
  | .atom "startTest" => some .startTest | .atom "success" => some .success | .atom "error" => some .error
  | .atom "failure" => some .failure | .atom "skip" => some .skip | .atom "stopTest" => some .stopTest
  | _ => none
def ofEv : Ev → Sexp
  | .startTest => .atom "startTest" | .success => .atom "success" | .error => .atom "error"
  | .failure => .atom "failure" | .skip => .atom "skip" | .stopTest => .atom "stopTest"

def sname? : Sexp → Option SName
  | .atom "setUp" => some .setUp | .atom "body" => some .body | .atom "tearDown" => some .tearDown
  | .list [.atom "cleanup", i] => (nat? i).map .cleanup
  | _ => none
def ofSName : SName → Sexp
  | .setUp => .atom "setUp" | .body => .atom "body" | .tearDown => .atom "tearDown"
  | .cleanup i => tag "cleanup" [ofNat i]

def logEntry? : Sexp → Option (SName × Nat × Nat)
  | .list [n, t, o] => do some (← sname? n, ← nat? t, ← nat? o)
  | _ => none
def ofLogEntry (e : SName × Nat × Nat) : Sexp := .list [ofSName e.1, ofNat e.2.1, ofNat e.2.2]

def trace? : Sexp → Option Trace
  | .list [evs, sr, ra, st, lv, lo, pe, ob, rs, ft] => do
      some { events := ← list? ev? evs, stopRequested := ← bool? sr, raised := ← bool? ra, stages := ← list? logEntry? st,
             live := ← list? bool? lv, leftover := ← nat? lo, pending := ← nat? pe, obsRestored := ← bool? ob, realStops := ← nat? rs,
             finalTime := ← nat? ft }
  | _ => none
def ofTrace (t : Trace) : Sexp :=
  .list [ofList ofEv t.events, ofBool t.stopRequested, ofBool t.raised, ofList ofLogEntry t.stages, ofList ofBool t.live,
         ofNat t.leftover,
         ofNat t.pending, ofBool t.obsRestored, ofNat t.realStops, ofNat t.finalTime]

def drv : PropDrv Prog Trace :=
  { decI := input?, decT := trace?, encT := ofTrace, model := model, clauses := Spec.C14.clauses }

def handle : List Sexp → Sexp := drv.handle
end TTV.Drv.C14
