import TTV.Sexp
import TTV.Model.Deferred
import TTV.Spec.C20
/-! Driver glue for C20: codecs between S-expressions and `Deferred.Input` / `Deferred.Trace`. -/
namespace TTV.Drv.C20
open TTV TTV.Sexp TTV.Deferred

partial def val? : Sexp → Option Val
  | .atom "none" => some .none
  | .list [.atom "num", n] => (nat? n).map .num
  | .list [.atom "pair", a, b] => do some (.pair (← val? a) (← val? b))
  | .list [.atom "sym", k] => (nat? k).map .sym
  | _ => none
def ofVal : Val → Sexp
  | .none => .atom "none"
  | .num n => tag "num" [ofNat n]
  | .pair a b => tag "pair" [ofVal a, ofVal b]
  | .sym k => tag "sym" [ofNat k]

def res? : Sexp → Option Res
  | .list [.atom "ok", v] => (val? v).map .ok
  | .list [.atom "fail", e] => (nat? e).map .fail
  | _ => none
def ofRes : Res → Sexp
  | .ok v => tag "ok" [ofVal v]
  | .fail e => tag "fail" [ofNat e]

def act? : Sexp → Option Act
  | .atom "keep" => some .keep | .atom "inc" => some .inc | .atom "wait" => some .wait
  | .list [.atom "ret", r, f] => do some (.ret (← res? r) (← bool? f))
  | _ => none

/-- inputs carry plain callbacks and probes only -/
def tag? : Sexp → Option Tag
  | .atom "plain" => some .plain
  | .list [.atom "probe", k] => (nat? k).map .probe
  | _ => none

/-- an errback that does arithmetic on a Failure is outside the alphabet -/
def cb? : Sexp → Option Cb
  | .list [.atom "cb", a, b, t] => do
    let cb : Cb := ⟨← act? a, ← act? b, ← tag? t⟩
    if cb.onFail = .inc then none else some cb
  | _ => none

def vm? : Sexp → Option VM
  | .atom "always" => some .always | .atom "never" => some .never
  | .list [.atom "equals", v] => (val? v).map .equals
  | _ => none
def fm? : Sexp → Option FM
  | .atom "always" => some .always | .atom "never" => some .never
  | .list [.atom "isExc", e] => (nat? e).map .isExc
  | _ => none
def matcher? : Sexp → Option Matcher
  | .atom "noResult" => some .noResult
  | .list [.atom "succeeded", m] => (vm? m).map .succeeded
  | .list [.atom "failed", m] => (fm? m).map .failed
  | _ => none

def op? : Sexp → Option Op
  | .atom "classify" => some .classify | .atom "extract" => some .extract
  | .list [.atom "fire", r] => (res? r).map .fire
  | .list [.atom "add", cb] => (cb? cb).map .add
  | .list [.atom "resume", r] => (res? r).map .resume
  | .list [.atom "match", m] => (matcher? m).map .matchD
  | _ => none

def kind? : Sexp → Option ExcKind
  | .atom "failure" => some .failure | .atom "error" => some .error | .atom "skip" => some .skip
  | _ => none
def ofKind : ExcKind → Sexp
  | .failure => .atom "failure" | .error => .atom "error" | .skip => .atom "skip"

def beh? : Sexp → Option Beh
  | .atom "returnsUnfired" => some .returnsUnfired
  | .list [.atom "returns", v] => (val? v).map .returns
  | .list [.atom "raises", k] => (kind? k).map .raises
  | .list [.atom "returnsFired", k, v] => do some (.returnsFired (← opt? kind? k) (← val? v))
  | _ => none

def input? : Sexp → Option Input
  | .list [.atom "history", ops] => (list? op? ops).map .history
  | .list [.atom "runUser", b] => (beh? b).map .runUser
  -- a realisation hint for the harness (which stage behaves like that; cleanups registered with keyword arguments): the outcome
  -- the model gives does not depend on it
  | .list [.atom "runUser", b, _] => (beh? b).map .runUser
  | _ => none

def extracted? : Sexp → Option Extracted
  | .atom "notFired" => some .notFired
  | .list [.atom "value", v] => (val? v).map .value
  | .list [.atom "raised", e] => (nat? e).map .raised
  | _ => none
def ofExtracted : Extracted → Sexp
  | .notFired => .atom "notFired"
  | .value v => tag "value" [ofVal v]
  | .raised e => tag "raised" [ofNat e]

def obs? : Sexp → Option Obs
  | .atom "added" => some .added
  | .list [.atom "fired", a] => (bool? a).map .fired
  | .list [.atom "resumed", a] => (bool? a).map .resumed
  | .list [.atom "verdict", a, b, c] => do some (.verdict (← bool? a) (← bool? b) (← bool? c))
  | .list [.atom "classes", a, b, c] => do some (.classes (← bool? a) (← bool? b) (← bool? c))
  | .list [.atom "extracted", x] => (extracted? x).map .extracted
  | _ => none
def ofObs : Obs → Sexp
  | .added => .atom "added"
  | .fired a => tag "fired" [ofBool a]
  | .resumed a => tag "resumed" [ofBool a]
  | .verdict a b c => tag "verdict" [ofBool a, ofBool b, ofBool c]
  | .classes a b c => tag "classes" [ofBool a, ofBool b, ofBool c]
  | .extracted x => tag "extracted" [ofExtracted x]

def outcome? : Sexp → Option Outcome
  | .atom "success" => some .success | .atom "notFired" => some .notFired
  | .list [.atom "reported", k] => (kind? k).map .reported
  | _ => none
def ofOutcome : Outcome → Sexp
  | .success => .atom "success" | .notFired => .atom "notFired"
  | .reported k => tag "reported" [ofKind k]

def trace? : Sexp → Option Trace
  | .list [.atom "history", obs, seen, c, l] => do
    some (.history (← list? obs? obs) (← list? (pair? nat? res?) seen) (← bool? c) (← bool? l))
  | .list [.atom "runUser", o] => (outcome? o).map .runUser
  | _ => none
def ofTrace : Trace → Sexp
  | .history obs seen c l => tag "history" [ofList ofObs obs, ofList (ofPair ofNat ofRes) seen, ofBool c, ofBool l]
  | .runUser o => tag "runUser" [ofOutcome o]

def drv : PropDrv Input Trace :=
  { decI := input?, decT := trace?, encT := ofTrace, model := model, clauses := Spec.C20.clauses }

def handle : List Sexp → Sexp := drv.handle
end TTV.Drv.C20
