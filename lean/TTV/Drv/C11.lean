import TTV.Sexp
import TTV.Model.StreamDeco
import TTV.Spec.C11
import TTV.Drv.StreamCodec
/-! Driver glue for C11.
tree  = `sink` | `failfast` | `(copy t…)` | `(tagger (add…) (discard…) t…)` | `(stamp t)` | `(queue code t)`
input = `(tree ((frozen elems)…) (call…))`,  call = `start` | `stop` | `(status event)` (event tags = object index)
trace = `((leafEv…)… ) ((before after)…) (elems…)`,
leafEv = `start` | `stop` | `(fired n)` | `(status event ident endTags)`, ident = `none` | `(some (caller k))` | `(some fresh)` -/
namespace TTV.Drv.C11
open TTV TTV.Sexp TTV.Stream TTV.Stream.Deco TTV.Drv.StreamCodec

partial def tree? : Sexp → Option Dec
  | .atom "sink" => some .sink
  | .atom "failfast" => some .failfast
  | .list (.atom "copy" :: ts) => do some (.copy (← ts.mapM tree?))
  | .list (.atom "tagger" :: a :: d :: ts) => do some (.tagger (← list? nat? a) (← list? nat? d) (← ts.mapM tree?))
  | .list [.atom "stamp", t] => do some (.stamp (← tree? t))
  | .list [.atom "queue", c, t] => do some (.toQueue (← chars? c) (← tree? t))
  | _ => none

def obj? : Sexp → Option TagObj
  | .list [f, es] => do some { frozen := ← bool? f, elems := ← list? nat? es }
  | _ => none

def call? : Sexp → Option Call
  | .atom "start" => some .start
  | .atom "stop" => some .stop
  | .list [.atom "status", e] => (eventOf? nat? e).map .status
  | _ => none

def input? : Sexp → Option Input
  | .list [t, os, cs] => do some { tree := ← tree? t, objs := ← list? obj? os, calls := ← list? call? cs }
  | _ => none

def ident? : Sexp → Option Ident
  | .atom "fresh" => some .fresh
  | .list [.atom "caller", k] => (nat? k).map .caller
  | _ => none
def ofIdent : Ident → Sexp
  | .fresh => .atom "fresh"
  | .caller k => tag "caller" [ofNat k]

def leafEv? : Sexp → Option LeafEv
  | .atom "start" => some .start
  | .atom "stop" => some .stop
  | .list [.atom "fired", n] => (nat? n).map .fired
  | .list [.atom "status", e, i, t] => do some (.status (← event? e) (← opt? ident? i) (← opt? (list? nat?) t))
  | _ => none
def ofLeafEv : LeafEv → Sexp
  | .start => .atom "start"
  | .stop => .atom "stop"
  | .fired n => tag "fired" [ofNat n]
  | .status e i t => tag "status" [ofEvent e, ofOpt ofIdent i, ofOpt (ofList ofNat) t]

def trace? : Sexp → Option Trace
  | .list [a, b, c] => do
      some { leaves := ← list? (list? leafEv?) a
             caller := ← list? (pair? (opt? (list? nat?)) (opt? (list? nat?))) b
             callerEnd := ← list? (list? nat?) c }
  | _ => none
def ofTrace (t : Trace) : Sexp :=
  .list [ofList (ofList ofLeafEv) t.leaves,
         ofList (ofPair (ofOpt (ofList ofNat)) (ofOpt (ofList ofNat))) t.caller,
         ofList (ofList ofNat) t.callerEnd]

def drv : PropDrv Input Trace :=
  { decI := input?, decT := trace?, encT := ofTrace, model := model, clauses := Spec.C11.clauses }

def handle : List Sexp → Sexp := drv.handle
end TTV.Drv.C11
