import TTV.Sexp
import TTV.Model.Describe
import TTV.Spec.C07
import TTV.Drv.C06
/-! Driver glue for C07.  Inputs
  `(describe <m> <v> <annotated> <verbose>)`        matcher / value grammar of `TTV.Drv.C06`
  `(textrepr <isBytes> <ml> (np…) (c…))`             ml = `none` | `(some T|F)`
  `(assert <api> ((base suffix)…) <mismatch> [<after> <tearDown> (<cleanup>…) [<place>]])`   mismatch = `none` | `(some (d…))`,
                                                     acts = ret|skip|xfail|uxsuccess|failure|error|interrupt, place = body|setUp|setUpEarly (in setUp before the upcall)
  `(ctor <class> <row> <variant> <matchee> <annotated> <verbose>)`   a stock matcher built from the harness's table of constructor-argument shapes
Traces
  `(ctor <str> <describe> <details> <errStr>)`
  `(describe <str> <matched> <describe> <details> <errStr>)`   result = `ok` | `(raised Cls)`
  `(textrepr (out…) <back> (repr…) <reprBack>)`                back = `none` | `(some (c…))`
  `(assert <raised> <continued> ((base suffix)…) <forceFailure> <outcome> <propagated>)` -/
namespace TTV.Drv.C07
open TTV TTV.Sexp TTV.Describe
open TTV.Matchers (Verdict ExcCls)

def r? : Sexp → Option R
  | .atom "ok" => some none
  | .list [.atom "raised", c] => (C06.excCls? c).map some
  | _ => none
def ofR : R → Sexp
  | none => .atom "ok"
  | some c => tag "raised" [C06.ofExcCls c]

def name? : Sexp → Option Name
  | .list [b, s] => do some ⟨← nat? b, ← nat? s⟩
  | _ => none
def ofName (n : Name) : Sexp := .list [ofNat n.base, ofNat n.suffix]

def api? : Sexp → Option Api
  | .atom "assertThat" => some .assertThat | .atom "assert_that" => some .assert_that
  | .atom "expectThat" => some .expectThat
  | _ => none
def outcome? : Sexp → Option Outcome
  | .atom "success" => some .success | .atom "failure" => some .failure | .atom "error" => some .error
  | .atom "skip" => some .skip | .atom "xfail" => some .xfail | .atom "uxsuccess" => some .uxsuccess
  | _ => none
def ofOutcome : Outcome → Sexp
  | .success => .atom "success" | .failure => .atom "failure" | .error => .atom "error"
  | .skip => .atom "skip" | .xfail => .atom "xfail" | .uxsuccess => .atom "uxsuccess"
def act? : Sexp → Option Act
  | .atom "ret" => some .ret | .atom "skip" => some .skip | .atom "xfail" => some .xfail
  | .atom "uxsuccess" => some .uxsuccess | .atom "failure" => some .failure | .atom "error" => some .error
  | .atom "interrupt" => some .interrupt
  | _ => none

def place? : Sexp → Option Place
  | .atom "body" => some .body | .atom "setUp" => some .setUp | .atom "setUpEarly" => some .setUpEarly
  | _ => none

def input? : Sexp → Option Input
  | .list [.atom "describe", m, v, a, vb] => do
      some (.describe (← C06.m? m) (← C06.v? v) (← bool? a) (← bool? vb))
  | .list [.atom "textrepr", b, ml, np, s] => do
      some (.textRepr (← bool? b) (← opt? bool? ml) (← list? nat? np) (← list? nat? s))
  | .list [.atom "ctor", .atom cls, r, v, m, a, vb] => do
      some (.ctor cls (← nat? r) (← nat? v) (← nat? m) (← bool? a) (← bool? vb))
  | .list [.atom "assert", api, ex, mm] => do
      some (.assert { api := ← api? api, existing := ← list? name? ex, mismatch := ← opt? (list? nat?) mm })
  | .list [.atom "assert", api, ex, mm, af, td, cs] => do
      some (.assert { api := ← api? api, existing := ← list? name? ex, mismatch := ← opt? (list? nat?) mm,
                      after := ← act? af, tearDown := ← act? td, cleanups := ← list? act? cs })
  | .list [.atom "assert", api, ex, mm, af, td, cs, pl] => do
      some (.assert { api := ← api? api, existing := ← list? name? ex, mismatch := ← opt? (list? nat?) mm,
                      after := ← act? af, tearDown := ← act? td, cleanups := ← list? act? cs, place := ← place? pl })
  | _ => none

def trace? : Sexp → Option Trace
  | .list [.atom "describe", s, m, d, g, e] => do
      some (.describe (← r? s) (← C06.verdict? m) (← r? d) (← r? g) (← r? e))
  | .list [.atom "textrepr", o, b, r, rb] => do
      some (.textRepr (← list? nat? o) (← opt? (list? nat?) b) (← list? nat? r) (← opt? (list? nat?) rb))
  | .list [.atom "ctor", s, d, g, e] => do some (.ctor (← r? s) (← r? d) (← r? g) (← r? e))
  | .list [.atom "assert", r, c, ns, ff, o, pr] => do
      some (.assert { raised := ← bool? r, continued := ← bool? c, names := ← list? name? ns,
                      forceFailure := ← bool? ff, outcome := ← outcome? o, propagated := ← bool? pr })
  | _ => none

def ofTrace : Trace → Sexp
  | .describe s m d g e => tag "describe" [ofR s, C06.ofVerdict m, ofR d, ofR g, ofR e]
  | .textRepr o b r rb => tag "textrepr" [ofList ofNat o, ofOpt (ofList ofNat) b, ofList ofNat r, ofOpt (ofList ofNat) rb]
  | .ctor s d g e => tag "ctor" [ofR s, ofR d, ofR g, ofR e]
  | .assert o => tag "assert" [ofBool o.raised, ofBool o.continued, ofList ofName o.names, ofBool o.forceFailure,
                               ofOutcome o.outcome, ofBool o.propagated]

def drv : PropDrv Input Trace :=
  { decI := input?, decT := trace?, encT := ofTrace, model := model, clauses := Spec.C07.clauses }

def handle : List Sexp → Sexp := drv.handle
end TTV.Drv.C07
