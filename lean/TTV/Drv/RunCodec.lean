import TTV.Sexp
import TTV.Model.RunTest
/-! S-expression codecs for M-Run (`Run.Input`, `List Run.Trace`), shared by C01, C02, C03, C05. -/
namespace TTV.Drv.RunCodec
open TTV TTV.Sexp TTV.Run

partial def cls? : Sexp → Option Cls
  | .atom "base" => some .base | .atom "exc" => some .exc | .atom "skip" => some .skip
  | .atom "failure" => some .failure | .atom "xfail" => some .xfail | .atom "uxs" => some .uxs
  | .atom "ki" => some .ki | .atom "sysexit" => some .sysexit
  | .list [.atom "user", i, p] => do some (.user (← nat? i) (← cls? p))
  | _ => none
def ofCls : Cls → Sexp
  | .base => .atom "base" | .exc => .atom "exc" | .skip => .atom "skip" | .failure => .atom "failure"
  | .xfail => .atom "xfail" | .uxs => .atom "uxs" | .ki => .atom "ki" | .sysexit => .atom "sysexit"
  | .user i p => tag "user" [ofNat i, ofCls p]

def exc? : Sexp → Option Exc
  | .list [c, t] => do some ⟨← cls? c, ← nat? t⟩
  | _ => none
def ofExc (e : Exc) : Sexp := .list [ofCls e.cls, ofNat e.tag]

def outcome? : Sexp → Option Outcome
  | .atom "success" => some .success | .atom "failure" => some .failure | .atom "error" => some .error
  | .atom "skip" => some .skip | .atom "xfail" => some .xfail | .atom "uxs" => some .uxs
  | _ => none
def ofOutcome : Outcome → Sexp
  | .success => .atom "success" | .failure => .atom "failure" | .error => .atom "error"
  | .skip => .atom "skip" | .xfail => .atom "xfail" | .uxs => .atom "uxs"

def reporter? : Sexp → Option Reporter
  | .list [.atom "std", o] => (outcome? o).map .std
  | .list [.atom "user", i, o] => do some (.user (← nat? i) (← outcome? o))
  | _ => none

def dname? : Sexp → Option DName
  | .list (b :: ss) => do some ⟨← nat? b, ← ss.mapM nat?⟩
  | _ => none
def ofDName (n : DName) : Sexp := .list (ofNat n.base :: n.sufs.map ofNat)

def uc? : Sexp → Option UC
  | .list [i, l] => do some ⟨← nat? i, ← bool? l⟩
  | _ => none

def content? : Sexp → Option Content
  | .list [.atom "user", i, l] => do some (.user ⟨← nat? i, ← bool? l⟩)
  | .list [.atom "frozen", i, v] => do some (.frozen (← nat? i) (← nat? v))
  | .list [.atom "tb", e] => (exc? e).map .tb
  | .list [.atom "expectation", m] => (nat? m).map .expectation
  | .list [.atom "reason", r] => (nat? r).map .reason
  | _ => none
def ofContent : Content → Sexp
  | .user c => tag "user" [ofNat c.id, ofBool c.lazy]
  | .frozen i v => tag "frozen" [ofNat i, ofNat v]
  | .tb e => tag "tb" [ofExc e]
  | .expectation m => tag "expectation" [ofNat m]
  | .reason r => tag "reason" [ofNat r]

def nucs? : Sexp → Option (List (DName × UC)) := list? (pair? dname? uc?)

def term? : Sexp → Option Term
  | .atom "ret" => some .ret
  | .list [.atom "raise1", e] => (exc? e).map .raise1
  | .list [.atom "raiseMulti", es, me] => do some (.raiseMulti (← list? exc? es) (← exc? me))
  | .list [.atom "assertFail", e, ds] => do some (.assertFail (← exc? e) (← nucs? ds))
  | .list [.atom "expectFailure", r, eo, x] => do some (.expectFailure (← nat? r) (← opt? exc? eo) (← exc? x))
  | .list [.atom "fixtureFail", ds, e, ces, se] => do some (.fixtureFail (← nucs? ds) (← exc? e) (← list? exc? ces) (← exc? se))
  | _ => none

mutual
partial def act? : Sexp → Option Act
  | .list [.atom "cleanup", s] => (stage? s).map .cleanup
  | .list [.atom "addDetail", n, c] => do some (.addDetail (← dname? n) (← uc? c))
  | .list [.atom "expect", m, ds] => do some (.expect (← nat? m) (← nucs? ds))
  | .list [.atom "patch", a, v] => do some (.patch (← nat? a) (← nat? v))
  | .list [.atom "useFixture", f, ds, s] => do some (.useFixture (← nat? f) (← nucs? ds) (← stage? s))
  | _ => none
partial def stage? : Sexp → Option Stage
  | .list [.atom "stage", i, .list acts, t] => do some (.mk (← nat? i) (← acts.mapM act?) (← term? t))
  | _ => none
end

def flavour? : Sexp → Option Flavour
  | .atom "ext" => some .ext | .atom "tt" => some .tt | .atom "none_" => some .none_
  | .atom "py27" => some .py27 | .atom "py26" => some .py26 | .atom "twisted" => some .twisted
  | .atom "stream" => some .stream
  | _ => none

def attrs? : Sexp → Option (List (Nat × Nat)) := list? (pair? nat? nat?)

def program? : Sexp → Option Program
  | .list [.atom "prog", sk, xf, su, bo, td, hs, nh, at0, fl] => do
      some { skipDeco := ← opt? nat? sk, xfailDeco := ← bool? xf, setUp := ← stage? su, body := ← stage? bo,
             tearDown := ← stage? td, userHandlers := ← list? (pair? cls? reporter?) hs, nOnExc := ← nat? nh,
             attrs0 := ← attrs? at0, flavour := ← flavour? fl }
  | _ => none

/-- the optional third component carries *realisation hints* for the harness (which of several Python
realisations of the same model behaviour to use, e.g. a cleanup registered through a fixture whose
`getDetails()` raises); they do not change the model's behaviour and are ignored here -/
def input? : Sexp → Option Input
  | .list [p, n] => do some { prog := ← program? p, runs := ← nat? n }
  | .list [p, n, _hints] => do some { prog := ← program? p, runs := ← nat? n }
  | _ => none

def details? : Sexp → Option Details := list? (pair? dname? content?)
def ofDetails (d : Details) : Sexp := ofList (ofPair ofDName ofContent) d

def ev? : Sexp → Option Ev
  | .atom "startTestRun" => some .startTestRun | .atom "stopTestRun" => some .stopTestRun
  | .atom "startTest" => some .startTest | .atom "stopTest" => some .stopTest
  | .list [.atom "outcome", o, d] => do some (.outcome (← outcome? o) (← details? d))
  | .list [.atom "stage", i] => (nat? i).map .stage
  | .list [.atom "onExc", h, e] => do some (.onExc (← nat? h) (← exc? e))
  | _ => none
def ofEv : Ev → Sexp
  | .startTestRun => .atom "startTestRun" | .stopTestRun => .atom "stopTestRun"
  | .startTest => .atom "startTest" | .stopTest => .atom "stopTest"
  | .outcome o d => tag "outcome" [ofOutcome o, ofDetails d]
  | .stage i => tag "stage" [ofNat i]
  | .onExc h e => tag "onExc" [ofNat h, ofExc e]

def trace? : Sexp → Option Trace
  | .list [evs, r, ff, st, at_] => do
      some { events := ← list? ev? evs, raised := ← opt? exc? r, ffAfter := ← bool? ff,
             stackAfter := ← nat? st, attrsAfter := ← attrs? at_ }
  | _ => none
def ofTrace (t : Trace) : Sexp :=
  .list [ofList ofEv t.events, ofOpt ofExc t.raised, ofBool t.ffAfter, ofNat t.stackAfter,
         ofList (ofPair ofNat ofNat) t.attrsAfter]

def traces? : Sexp → Option (List Trace) := list? trace?
def ofTraces (ts : List Trace) : Sexp := ofList ofTrace ts

end TTV.Drv.RunCodec
