import TTV.Sexp
/-! Driver glue for C17 — stub, replaced when the property's model is built. -/
namespace TTV.Drv.C17
open TTV

def handle (_ : List Sexp) : Sexp := .atom "unimplemented"
end TTV.Drv.C17
