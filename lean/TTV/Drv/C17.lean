import TTV.Sexp
import TTV.Model.Result
import TTV.Model.ResC17
import TTV.Spec.C17
import TTV.Drv.Res
/-! Driver glue for C17. -/
namespace TTV.Drv.C17
open TTV TTV.Sexp TTV.Result TTV.ResC17 TTV.Drv.Res

def input? (s : Sexp) : Option Input := (shapeHist? s).map fun p => { shape := p.1, hist := p.2 }

def trace? : Sexp → Option Trace
  | .list [c, s] => do
      some { cur := ← list? tags? c, seen := ← list? (list? (pair? nat? tags?)) s }
  | _ => none
def ofTrace (t : Trace) : Sexp :=
  .list [ofList ofTags t.cur, ofList (ofList (ofPair ofNat ofTags)) t.seen]

def classes (i : Input) : List String :=
  if Spec.C17.taggerBelowBuffer i then ["taggerBelowBuffer"] else []

def drv : PropDrv Input Trace :=
  { decI := input?, decT := trace?, encT := ofTrace, model := model, clauses := Spec.C17.clauses, classes := classes }

def handle : List Sexp → Sexp := drv.handle
end TTV.Drv.C17
