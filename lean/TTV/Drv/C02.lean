import TTV.Sexp
import TTV.Drv.RunCodec
import TTV.Spec.C02
/-! Driver glue for C02 (model M-Run, codecs in RunCodec). -/
namespace TTV.Drv.C02
open TTV TTV.Run

def drv : PropDrv Input (List Trace) :=
  { decI := RunCodec.input?, decT := RunCodec.traces?, encT := RunCodec.ofTraces, model := model,
    clauses := Spec.C02.clauses,
    -- inputs outside the well-formedness hypothesis make every clause vacuous: flagged so that the harness can count them
    classes := fun i => if Spec.Run.wf i.prog then [] else ["not-wf"] }

def handle : List Sexp → Sexp := drv.handle
end TTV.Drv.C02
