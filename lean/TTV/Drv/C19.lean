import TTV.Sexp
import TTV.Model.Suite
import TTV.Spec.C19
/-! Driver glue for C19: codecs between S-expressions and `Suite.Input` / `Suite.Trace`. -/
namespace TTV.Drv.C19
open TTV TTV.Sexp TTV.Suite

def kind? : Sexp → Option Kind
  | .atom "plain" => some .plain | .atom "custom" => some .custom
  | .atom "csort" => some .csort | .atom "cfilter" => some .cfilter
  -- the real `testtools.testsuite.FixtureSuite`: a TestSuite subclass with `sort_tests` (= the documented idiom) and without
  -- `filter_by_ids`, i.e. the model's `csort`; the token only tells the harness which class to build
  | .atom "fixture" => some .csort
  | _ => none
def ofKind : Kind → Sexp
  | .plain => .atom "plain" | .custom => .atom "custom" | .csort => .atom "csort" | .cfilter => .atom "cfilter"

/-- `(case n)` | `(<kind> child…)` -/
partial def tree? : Sexp → Option T
  | .list [.atom "case", n] => (nat? n).map .case
  | .list (k :: cs) => do some (.suite (← kind? k) (← cs.mapM tree?))
  | _ => none
partial def ofTree : T → Sexp
  | .case n => tag "case" [ofNat n]
  | .suite k cs => .list (ofKind k :: cs.map ofTree)

def input? : Sexp → Option Input
  | .list [t, ids] => do some { tree := ← tree? t, ids := ← list? nat? ids }
  | _ => none

def trace? : Sexp → Option Trace
  | .list [a, b, c, d, e, f, g] => do
      some { iter := ← list? nat? a, filtered := ← tree? b, filtIter := ← list? nat? c,
             sorted := ← opt? tree? d, listed := ← list? nat? e, loaded := ← list? nat? f, sortFilt := ← opt? (list? nat?) g }
  | _ => none
def ofTrace (t : Trace) : Sexp :=
  .list [ofList ofNat t.iter, ofTree t.filtered, ofList ofNat t.filtIter, ofOpt ofTree t.sorted,
         ofList ofNat t.listed, ofList ofNat t.loaded, ofOpt (ofList ofNat) t.sortFilt]

def drv : PropDrv Input Trace :=
  { decI := input?, decT := trace?, encT := ofTrace, model := model, clauses := Spec.C19.clauses }

def handle : List Sexp → Sexp := drv.handle
end TTV.Drv.C19
