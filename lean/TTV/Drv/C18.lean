import TTV.Sexp
import TTV.Model.StreamRouter
import TTV.Spec.C18
import TTV.Drv.StreamCodec
/-! Driver glue for C18.
input = `(hasFallback fbFlag (op…) (script…))` (the scripts may be left out); script = `(sink kind ((act…)…))`, act = `raise` | an add op; op = `start` | `stop` | `(prefix sink chars consume flag)` | `(id sink tid? flag)` |
`(bad sink flag)` | `(status event)` | `(trip (chars…) event)`
trace = `((item…)…) (res…)`: per operation what was observed; item = `(del sink sinkEv nested)` | `(radd op)` | `(exc X)`; sinkEv = `start` | `stop` | `(status event)`; res = `ok` | `(raised X)` | `(arrived event)` -/
namespace TTV.Drv.C18
open TTV TTV.Sexp TTV.Stream TTV.Stream.Router TTV.Drv.StreamCodec

def op? : Sexp → Option Op
  | .atom "start" => some .start
  | .atom "stop" => some .stop
  | .list [.atom "prefix", s, p, c, f] => do some (.addPrefix (← nat? s) (← chars? p) (← bool? c) (← bool? f))
  | .list [.atom "id", s, t, f] => do some (.addId (← nat? s) (← opt? nat? t) (← bool? f))
  | .list [.atom "bad", s, f] => do some (.addBad (← nat? s) (← bool? f))
  | .list [.atom "status", e] => (event? e).map .status
  | .list [.atom "trip", cs, e] => do some (.roundTrip (← list? chars? cs) (← event? e))
  | _ => none

def addOp? (s : Sexp) : Option Op :=
  match op? s with
  | some (.addPrefix a b c d) => some (.addPrefix a b c d)
  | some (.addId a b c) => some (.addId a b c)
  | some (.addBad a b) => some (.addBad a b)
  | _ => none

def act? : Sexp → Option Act
  | .atom "raise" => some .raise
  | s => (addOp? s).map .add

def kind? : Sexp → Option Kind
  | .atom "start" => some .start | .atom "stop" => some .stop | .atom "status" => some .status
  | _ => none

/-- `(sink kind (entry…))`, entry = `(act…)` -/
def script? : Sexp → Option Script
  | .list [a, b, c] => do some { sink := ← nat? a, kind := ← kind? b, entries := ← list? (list? act?) c }
  | _ => none

def input? : Sexp → Option Input
  | .list [a, b, c] => do some { hasFallback := ← bool? a, fbFlag := ← bool? b, ops := ← list? op? c, scripts := [] }
  | .list [a, b, c, d] => do
      some { hasFallback := ← bool? a, fbFlag := ← bool? b, ops := ← list? op? c, scripts := ← list? script? d }
  | _ => none

def ofOp : Op → Sexp
  | .start => .atom "start"
  | .stop => .atom "stop"
  | .addPrefix s p c f => tag "prefix" [ofNat s, ofChars p, ofBool c, ofBool f]
  | .addId s t f => tag "id" [ofNat s, ofOpt ofNat t, ofBool f]
  | .addBad s f => tag "bad" [ofNat s, ofBool f]
  | .status e => tag "status" [ofEvent e]
  | .roundTrip cs e => tag "trip" [ofList ofChars cs, ofEvent e]

def sinkEv? : Sexp → Option SinkEv
  | .atom "start" => some .start
  | .atom "stop" => some .stop
  | .list [.atom "status", e] => (event? e).map .status
  | _ => none
def ofSinkEv : SinkEv → Sexp
  | .start => .atom "start"
  | .stop => .atom "stop"
  | .status e => tag "status" [ofEvent e]

def res? : Sexp → Option Res
  | .atom "ok" => some .ok
  | .list [.atom "raised", .atom x] => some (.raised x)
  | .list [.atom "arrived", e] => (event? e).map .arrived
  | _ => none
def ofRes : Res → Sexp
  | .ok => .atom "ok"
  | .raised x => tag "raised" [.atom x]
  | .arrived e => tag "arrived" [ofEvent e]

def item? : Sexp → Option Item
  | .list [.atom "del", x, ev, n] => do some (.del (← nat? x) (← sinkEv? ev) (← bool? n))
  | .list [.atom "radd", o] => (addOp? o).map .radd
  | .list [.atom "exc", .atom x] => some (.exc x)
  | _ => none
def ofItem : Item → Sexp
  | .del x ev n => tag "del" [ofNat x, ofSinkEv ev, ofBool n]
  | .radd o => tag "radd" [ofOp o]
  | .exc x => tag "exc" [.atom x]

def trace? : Sexp → Option Trace
  | .list [a, b] => do some { segments := ← list? (list? item?) a, results := ← list? res? b }
  | _ => none
def ofTrace (t : Trace) : Sexp := .list [ofList (ofList ofItem) t.segments, ofList ofRes t.results]

def drv : PropDrv Input Trace :=
  { decI := input?, decT := trace?, encT := ofTrace, model := model, clauses := Spec.C18.clauses }

def handle : List Sexp → Sexp := drv.handle
end TTV.Drv.C18
