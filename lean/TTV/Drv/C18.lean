import TTV.Sexp
import TTV.Model.StreamRouter
import TTV.Spec.C18
import TTV.Drv.StreamCodec
/-! Driver glue for C18.
input = `(hasFallback fbFlag (op…))`; op = `start` | `stop` | `(prefix sink chars consume flag)` | `(id sink tid? flag)` |
`(bad sink flag)` | `(status event)` | `(trip (chars…) event)`
trace = `((sink sinkEv)…) (res…)`; sinkEv = `start` | `stop` | `(status event)`; res = `ok` | `(raised X)` | `(arrived event)` -/
namespace TTV.Drv.C18
open TTV TTV.Sexp TTV.Stream TTV.Stream.Router TTV.Drv.StreamCodec

def op? : Sexp → Option Op
  | .atom "start" => some .start
  | .atom "stop" => some .stop
  | .list [.atom "prefix", s, p, c, f] => do some (.addPrefix (← nat? s) (← chars? p) (← bool? c) (← bool? f))
  | .list [.atom "id", s, t, f] => do some (.addId (← nat? s) (← opt? nat? t) (← bool? f))
  | .list [.atom "bad", s, f] => do some (.addBad (← nat? s) (← bool? f))
  | .list [.atom "status", e] => (event? e).map .status
  | .list [.atom "trip", cs, e] => do some (.roundTrip (← list? chars? cs) (← event? e))
  | _ => none

def input? : Sexp → Option Input
  | .list [a, b, c] => do some { hasFallback := ← bool? a, fbFlag := ← bool? b, ops := ← list? op? c }
  | _ => none

def sinkEv? : Sexp → Option SinkEv
  | .atom "start" => some .start
  | .atom "stop" => some .stop
  | .list [.atom "status", e] => (event? e).map .status
  | _ => none
def ofSinkEv : SinkEv → Sexp
  | .start => .atom "start"
  | .stop => .atom "stop"
  | .status e => tag "status" [ofEvent e]

def res? : Sexp → Option Res
  | .atom "ok" => some .ok
  | .list [.atom "raised", .atom x] => some (.raised x)
  | .list [.atom "arrived", e] => (event? e).map .arrived
  | _ => none
def ofRes : Res → Sexp
  | .ok => .atom "ok"
  | .raised x => tag "raised" [.atom x]
  | .arrived e => tag "arrived" [ofEvent e]

def trace? : Sexp → Option Trace
  | .list [a, b] => do some { deliveries := ← list? (pair? nat? sinkEv?) a, results := ← list? res? b }
  | _ => none
def ofTrace (t : Trace) : Sexp := .list [ofList (ofPair ofNat ofSinkEv) t.deliveries, ofList ofRes t.results]

def drv : PropDrv Input Trace :=
  { decI := input?, decT := trace?, encT := ofTrace, model := model, clauses := Spec.C18.clauses }

def handle : List Sexp → Sexp := drv.handle
end TTV.Drv.C18
