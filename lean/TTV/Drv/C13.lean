import TTV.Sexp
import TTV.Model.ConcSuite
import TTV.Spec.C13
import TTV.Drv.C12
/-! Driver glue for C13: codecs between S-expressions and `Conc.SInput` / `Conc.STrace`.

input  = `(history (run…) hints?)` (1..3 runs on one suite object) or one run; run = `(flavour workers mkRaise intr mfaults tb sched)`, flavour = `suite`|`stream`,
         worker = `(tests boom faults)` | `(tests boom faults polls)`, test = `(kind (tag…))` | `(kind (tag…) ((id kind tags omitted|explicitNone|(given n))…))`, mkRaise/intr = `none`|`(some n)`
trace  = `(runs (t…))` for a history of several runs, else one run's trace `(log sink result spawned joined live runs flags died finished)`
         sink entry = `((w id kind tags instant) hasTimestamp raised)`, tags/instant = `none`|`(some …)`, kind = `(st <status>)` | `(file T|F)`,
         result = `none` | `returned` | `(raised interrupt|makeTests|injected)`; `log` as in C12 -/
namespace TTV.Drv.C13
open TTV TTV.Sexp TTV.Conc TTV.Drv.C12

def flavour? : Sexp → Option Flavour
  | .atom "suite" => some .suite | .atom "stream" => some .stream | _ => none

def status? : Sexp → Option Status
  | .atom "inprogress" => some .inprogress | .atom "success" => some .success | .atom "fail" => some .fail
  | .atom "skip" => some .skip | .atom "xfail" => some .xfail | .atom "uxsuccess" => some .uxsuccess
  | .atom "exists" => some .exists | _ => none
def ofStatus : Status → Sexp
  | .inprogress => .atom "inprogress" | .success => .atom "success" | .fail => .atom "fail"
  | .skip => .atom "skip" | .xfail => .atom "xfail" | .uxsuccess => .atom "uxsuccess" | .exists => .atom "exists"

def skind? : Sexp → Option SKind
  | .list [.atom "st", s] => (status? s).map .st
  | .list [.atom "file", b] => (bool? b).map .file
  | _ => none
def ofSkind : SKind → Sexp
  | .st s => tag "st" [ofStatus s]
  | .file b => tag "file" [ofBool b]

def tsMode? : Sexp → Option TsMode
  | .atom "omitted" => some .omitted
  | .atom "explicitNone" => some .none
  | .list [.atom "given", n] => (nat? n).map .given
  | _ => none

def nev? : Sexp → Option NEv
  | .list [i, k, tags, ts] => do some { id := ← nat? i, kind := ← skind? k, tags := ← opt? (list? nat?) tags, ts := ← tsMode? ts }
  | _ => none

/-- `(kind (tag…))` = a TestResult-API test; `(kind (tag…) (event…))` = a native stream emitter -/
def wtest? : Sexp → Option WTest
  | .list [k, tags] => do some { kind := ← kind? k, tags := ← list? nat? tags }
  | .list [k, tags, evs] => do some { kind := ← kind? k, tags := ← list? nat? tags, native := some (← list? nev? evs) }
  | _ => none

def worker? : Sexp → Option Worker
  | .list [ts, b, f] => do some { tests := ← list? wtest? ts, boom := ← bool? b, faults := ← list? nat? f }
  | .list [ts, b, f, p] => do some { tests := ← list? wtest? ts, boom := ← bool? b, faults := ← list? nat? f, polls := ← bool? p }
  | _ => none

/-- the eighth component: realisation hints for the harness (atoms, ignored here) and, optionally, `(routeCodes (c0 c1 …))` -
the route code of each worker of the stream flavour as a small number, repetitions allowed -/
def routes? : Sexp → List Nat
  | .list hs => (hs.findSome? fun
      | .list [.atom "routeCodes", cs] => list? nat? cs
      | _ => none).getD []
  | _ => []

def input? : Sexp → Option SInput
  | .list [fl, ws, mk, intr, mf, tb, sched] => do
      some { flavour := ← flavour? fl, workers := ← list? worker? ws, mkRaise := ← opt? nat? mk, intr := ← opt? nat? intr,
             mfaults := ← list? nat? mf, tb := ← nat? tb, sched := ← list? nat? sched }
  -- an eighth component carries *realisation hints* for the harness (route codes None / '', empty test id, a pass-through
  -- wrap_result): they do not change what the model predicts; `(routeCodes (…))` among them does: see `routes?`
  | .list [fl, ws, mk, intr, mf, tb, sched, hints] => do
      some { flavour := ← flavour? fl, workers := ← list? worker? ws, mkRaise := ← opt? nat? mk, intr := ← opt? nat? intr,
             mfaults := ← list? nat? mf, tb := ← nat? tb, sched := ← list? nat? sched, routes := routes? hints }
  | _ => none

def sev? : Sexp → Option SEv
  | .list [w, i, k, tags, ts] => do
      some { w := ← nat? w, id := ← tid? i, kind := ← skind? k, tags := ← opt? (list? nat?) tags, ts := ← opt? nat? ts }
  | _ => none
def ofSev (e : SEv) : Sexp := .list [ofNat e.w, ofTid e.id, ofSkind e.kind, ofOpt (ofList ofNat) e.tags, ofOpt ofNat e.ts]

def cause? : Sexp → Option Cause
  | .atom "interrupt" => some .interrupt | .atom "makeTests" => some .makeTests | .atom "injected" => some .injected | _ => none
def ofCause : Cause → Sexp
  | .interrupt => .atom "interrupt" | .makeTests => .atom "makeTests" | .injected => .atom "injected"

def result? : Sexp → Option (Option MainRes)
  | .atom "none" => some none
  | .atom "returned" => some (some .returned)
  | .list [.atom "raised", c] => (cause? c).map fun c => some (.raised c)
  | _ => none
def ofResult : Option MainRes → Sexp
  | none => .atom "none"
  | some .returned => .atom "returned"
  | some (.raised c) => tag "raised" [ofCause c]

def sinkEntry? : Sexp → Option (SEv × Bool × Bool)
  | .list [e, ts, r] => do some (← sev? e, ← bool? ts, ← bool? r)
  | _ => none
def ofSinkEntry (p : SEv × Bool × Bool) : Sexp := .list [ofSev p.1, ofBool p.2.1, ofBool p.2.2]

def trace? : Sexp → Option STrace
  | .list [log, sink, res, sp, jo, live, runs, flags, died, fin] => do
      some { log := ← list? ev? log, sink := ← list? sinkEntry? sink, result := ← result? res,
             spawned := ← list? nat? sp, joined := ← list? nat? jo, liveAtReturn := ← list? nat? live,
             runs := ← list? nat? runs, flags := ← list? bool? flags, died := ← list? bool? died, finished := ← bool? fin }
  | _ => none
def ofTrace (t : STrace) : Sexp :=
  .list [ofList ofEv t.log, ofList ofSinkEntry t.sink, ofResult t.result, ofList ofNat t.spawned, ofList ofNat t.joined,
         ofList ofNat t.liveAtReturn, ofList ofNat t.runs, ofList ofBool t.flags, ofList ofBool t.died, ofBool t.finished]

/-- a history `(history (run…) hints?)` of runs on one suite object, or a single run (a history of one) -/
def hinput? : Sexp → Option HInput
  | .list [.atom "history", runs] => list? input? runs
  | .list [.atom "history", runs, _hints] => list? input? runs
  | s => (input? s).map fun i => [i]

def htrace? : Sexp → Option HTrace
  | .list [.atom "runs", ts] => list? trace? ts
  | s => (trace? s).map fun t => [t]

def ofHTrace : HTrace → Sexp
  | [t] => ofTrace t
  | ts => tag "runs" [ofList ofTrace ts]

def drv : PropDrv HInput HTrace :=
  { decI := hinput?, decT := htrace?, encT := ofHTrace, model := modelH, clauses := Spec.C13.clausesH }

def handle : List Sexp → Sexp := drv.handle
end TTV.Drv.C13
