import TTV.Sexp
import TTV.Model.Content
import TTV.Spec.C16
/-! Driver glue for C16: codecs between S-expressions and `Content.Input` / `Content.Trace`, and the
known-finding classes.  The input codec enforces the domain of the property (bytes below 256, Unicode
scalar values, chunk size ≥ 1, lower-case token names, distinct parameter names). -/
namespace TTV.Drv.C16
open TTV TTV.Sexp TTV.Content

def bytes? (s : Sexp) : Option Bytes := do
  let b ← list? nat? s
  if b.all (· < 256) then some b else none
def text? (s : Sexp) : Option Text := list? nat? s
def ofNats (b : List Nat) : Sexp := ofList ofNat b

def charset? : Sexp → Option Charset
  | .atom "absent" => some .absent | .atom "utf8" => some .utf8 | .atom "latin1" => some .latin1
  | .atom "ascii" => some .ascii | .atom "opaque" => some .opaque
  | _ => none

def exc? : Sexp → Option Exc
  | .atom "ValueError" => some .valueError | .atom "OSError" => some .osError
  | .atom "UnicodeDecodeError" => some .unicodeDecodeError
  | .atom "IndexError" => some .indexError        -- (the email parser on an RFC 2231 name with a degenerate value, finding nameNotLowerToken)
  | _ => none
def ofExc : Exc → Sexp
  | .valueError => .atom "ValueError" | .osError => .atom "OSError" | .unicodeDecodeError => .atom "UnicodeDecodeError"
  | .indexError => .atom "IndexError"

def streamIn9? : List Sexp → Option StreamIn
  | [f, d0, d1, p0, cs, sk, bn, it, caps] => do
    let i : StreamIn :=
      { isFile := ← bool? f, data0 := ← bytes? d0, data1 := ← opt? bytes? d1, pos0 := ← nat? p0, chunkSize := ← nat? cs,
        seekTo := ← opt? (pair? int? nat?) sk, bufferNow := ← bool? bn, iters := ← nat? it, caps := ← list? nat? caps }
    some i
  | _ => none

/-- the tenth field (`c == c` evaluations after the consumptions) is optional: older corpus entries have nine -/
def streamIn? : List Sexp → Option StreamIn
  | [f, d0, d1, p0, cs, sk, bn, it, caps, eqs] => do
    let i ← streamIn9? [f, d0, d1, p0, cs, sk, bn, it, caps]
    some { i with eqs := ← nat? eqs }
  | l => streamIn9? l

def ct? : List Sexp → Option CT
  | [t, s, ps] => do
    let ct : CT := { type := ← text? t, subtype := ← text? s, params := ← list? (pair? text? text?) ps }
    some ct
  | _ => none

def copyOp? : Sexp → Option CopyOp
  | .atom "copy" => some .copy
  | .atom "readOrig" => some .readOrig
  | .list [.atom "set", cs] => (list? bytes? cs).map .set
  | .list [.atom "readCopy", k] => (nat? k).map .readCopy
  | _ => none

def inputRaw? : Sexp → Option Input
  | .list [.atom "eq", a, b, ca, cb] => do some (.eq (← nat? a) (← nat? b) (← list? bytes? ca) (← list? bytes? cb))
  | .list [.atom "text", s] => (text? s).map .text
  | .list [.atom "json", d, _] => (text? d).map .json
  | .list [.atom "decode", t, cs, chunks, whole, _] => do
      some (.decode (← bool? t) (← charset? cs) (← list? bytes? chunks) (← opt? text? whole))
  | .list (.atom "stream" :: rest) => (streamIn? rest).map .stream
  | .list (.atom "ctype" :: rest) => (ct? rest).map .ctype
  | .list [.atom "ctypeSeq", cts] => (list? (fun x => match x with | .list xs => ct? xs | _ => none) cts).map .ctypeSeq
  | .list [.atom "copy", i, ops] => do some (.copy (← list? bytes? i) (← list? copyOp? ops))
  | _ => none

/-- decode, then keep only inputs of the property's domain (`Input.wf`) -/
def input? (s : Sexp) : Option Input := (inputRaw? s).bind fun i => if i.wf then some i else none

def ev? : Sexp → Option Ev
  | .atom "opened" => some .opened | .atom "closed" => some .closed | .atom "made" => some .made
  | .atom "iter" => some .iter | .atom "done" => some .done
  | .list [.atom "seek", o, w] => do some (.seek (← int? o) (← nat? w))
  | .list [.atom "read", n, g] => do some (.read (← nat? n) (← nat? g))
  | .list [.atom "chunk", b] => (bytes? b).map .chunk
  | .list [.atom "raised", e] => (exc? e).map .raised
  | .list [.atom "eqSelf", b] => (bool? b).map .eqSelf
  | _ => none
def ofEv : Ev → Sexp
  | .opened => .atom "opened" | .closed => .atom "closed" | .made => .atom "made" | .iter => .atom "iter"
  | .done => .atom "done"
  | .seek o w => tag "seek" [ofInt o, ofNat w]
  | .read n g => tag "read" [ofNat n, ofNat g]
  | .chunk b => tag "chunk" [ofNats b]
  | .raised e => tag "raised" [ofExc e]
  | .eqSelf b => tag "eqSelf" [ofBool b]

def params? (s : Sexp) : Option (List (Text × Text)) := list? (pair? (list? nat?) (list? nat?)) s
def ofParams (ps : List (Text × Text)) : Sexp := ofList (ofPair ofNats ofNats) ps

def parsed? : Sexp → Option Parsed
  | .atom "unparsed" => some .unparsed
  | .list [.atom "raised", e] => (exc? e).map .raised
  | .list [.atom "ok", t, s, ps] => do
      some (.ok { type := ← list? nat? t, subtype := ← list? nat? s, params := ← params? ps })
  | _ => none
def ofParsed : Parsed → Sexp
  | .unparsed => .atom "unparsed"
  | .raised e => tag "raised" [ofExc e]
  | .ok ct => tag "ok" [ofNats ct.type, ofNats ct.subtype, ofParams ct.params]

def obs? : Sexp → Option CopyObs
  | .list [c, n] => do some { chunks := ← opt? (list? bytes?) c, evals := ← nat? n }
  | _ => none
def ofObs (o : CopyObs) : Sexp := .list [ofOpt (ofList ofNats) o.chunks, ofNat o.evals]

def trace? : Sexp → Option Trace
  | .list [.atom "eq", a, b, e] => do some (.eq (← list? bytes? a) (← list? bytes? b) (← bool? e))
  | .list [.atom "text", c, t, a] => do some (.text (← list? bytes? c) (← bool? t) (← opt? (list? nat?) a))
  | .list [.atom "json", c, t, l] => do some (.json (← list? bytes? c) (← bool? t) (← bool? l))
  | .list [.atom "decode", a, ae, p, e, w] => do
      some (.decode (← opt? (list? nat?) a) (← opt? exc? ae) (← opt? (list? (list? nat?)) p) (← opt? exc? e) (← opt? (list? nat?) w))
  | .list [.atom "stream", evs, eqEvs] => do some (.stream (← list? ev? evs) (← list? ev? eqEvs))
  | .list [.atom "ctype", r, p] => do some (.ctype (← list? nat? r) (← parsed? p))
  | .list [.atom "ctypeSeq", rs] => (list? (pair? (list? nat?) parsed?) rs).map .ctypeSeq
  | .list [.atom "copy", obs] => (list? obs? obs).map .copy
  | _ => none

def ofTrace : Trace → Sexp
  | .eq a b e => tag "eq" [ofList ofNats a, ofList ofNats b, ofBool e]
  | .text c t a => tag "text" [ofList ofNats c, ofBool t, ofOpt ofNats a]
  | .json c t l => tag "json" [ofList ofNats c, ofBool t, ofBool l]
  | .decode a ae p e w => tag "decode" [ofOpt ofNats a, ofOpt ofExc ae, ofOpt (ofList ofNats) p, ofOpt ofExc e, ofOpt ofNats w]
  | .stream evs eqEvs => tag "stream" [ofList ofEv evs, ofList ofEv eqEvs]
  | .ctype r p => tag "ctype" [ofNats r, ofParsed p]
  | .ctypeSeq rs => tag "ctypeSeq" [ofList (ofPair ofNats ofParsed) rs]
  | .copy obs => tag "copy" [ofList ofObs obs]

/-! known-finding classes (KNOWN_FINDINGS.txt); the predicates live in the model file -/
def ctClasses (ct : CT) : List String :=
  (if charsetComma ct then ["charsetComma"] else []) ++ (if valueCRLF ct then ["valueCRLF"] else [])
    ++ (if valueEncodedWord ct then ["valueEncodedWord"] else []) ++ (if nameNotLowerToken ct then ["nameNotLowerToken"] else [])

def classes : Input → List String
  | .ctype ct => ctClasses ct
  | .ctypeSeq cts => (cts.flatMap fun ct => ctClasses ct.lowered).eraseDups     -- (the generator keeps sequences out of the classes)
  | _ => []

def drv : PropDrv Input Trace :=
  { decI := input?, decT := trace?, encT := ofTrace, model := model, clauses := Spec.C16.clauses, classes := classes }

def handle : List Sexp → Sexp := drv.handle
end TTV.Drv.C16
