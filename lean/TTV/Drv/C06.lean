import TTV.Sexp
import TTV.Model.Matchers
import TTV.Spec.C06
/-! Driver glue for C06: codecs between S-expressions and `Matchers.Input` / `Matchers.Trace`.

Values   `(i n)` `(s c…)` `(b c…)` `none` `(l v…)` `(t v…)` `(d (k v)…)` (keys: see `key?`) `(o tag (a v)…)` `(ei cls arg)` `(ev cls arg)`
         `(fr v)` `(fx cls arg)`
Matchers see `m?` below; sugar: `(containsAll v…)` = `MatchesAll(*map(Contains, items))`,
         `(raisesFn cls…)`/`(raisesInst cls arg)` = `raises(exception)`,
         `(exctypeRe (cls…) <opaque>)` = `MatchesException(type, "regex")`.
Trace    `(first again other pureM pureV)`, verdict = `match` | `mismatch` | `(raised Cls)`. -/
namespace TTV.Drv.C06
open TTV TTV.Sexp TTV.Matchers

def excCls? : Sexp → Option ExcCls
  | .atom "BaseException" => some .baseException | .atom "Exception" => some .exception
  | .atom "TypeError" => some .typeError | .atom "AttributeError" => some .attributeError
  | .atom "ValueError" => some .valueError | .atom "LookupError" => some .lookupError
  | .atom "KeyError" => some .keyError | .atom "AssertionError" => some .assertionError
  | .atom "KeyboardInterrupt" => some .keyboardInterrupt | .atom "SystemExit" => some .systemExit
  | .atom "NotImplementedError" => some .notImplementedError
  | .atom "MetaError" => some .metaError | .atom "MetaSub" => some .metaSub
  | .atom "MetaValueError" => some .metaValueError | .atom "OddError" => some .oddError
  | .atom "StrRaisesError" => some .strRaisesError | .atom "UserInterrupt" => some .userInterrupt
  | .atom "UserExit" => some .userExit
  | .atom "Unstable" => some .unstable
  | .atom "OracleMiss" => some .oracleMiss | .atom "Any" => some .anyCls
  | _ => none
def ofExcCls : ExcCls → Sexp
  | .baseException => .atom "BaseException" | .exception => .atom "Exception"
  | .typeError => .atom "TypeError" | .attributeError => .atom "AttributeError"
  | .valueError => .atom "ValueError" | .lookupError => .atom "LookupError"
  | .keyError => .atom "KeyError" | .assertionError => .atom "AssertionError"
  | .keyboardInterrupt => .atom "KeyboardInterrupt" | .systemExit => .atom "SystemExit"
  | .notImplementedError => .atom "NotImplementedError"
  | .metaError => .atom "MetaError" | .metaSub => .atom "MetaSub"
  | .metaValueError => .atom "MetaValueError" | .oddError => .atom "OddError"
  | .strRaisesError => .atom "StrRaisesError" | .userInterrupt => .atom "UserInterrupt"
  | .userExit => .atom "UserExit"
  | .unstable => .atom "Unstable"
  | .oracleMiss => .atom "OracleMiss" | .anyCls => .atom "Any"

/-- the classes of `MatchesException(<class or tuple of classes>)` / `raises(...)`.  A leading atom `NT` is a realisation hint
for the harness (the tuple is given as a NAMED tuple, i.e. an instance of a tuple subclass): to the model it is the same tuple. -/
def excClasses? : List Sexp → Option (List ExcCls)
  | .atom "NT" :: cs => cs.mapM excCls?
  | cs => cs.mapM excCls?
def excClassList? : Sexp → Option (List ExcCls)
  | .list cs => excClasses? cs
  | _ => none

def exc? (c a : Sexp) : Option Exc := do some ⟨← excCls? c, ← int? a⟩

def ascending : List Nat → Bool
  | a :: b :: rest => a < b && ascending (b :: rest)
  | _ => true

/-- dict keys: a bare number `n` = the one-letter string `chr(97+n)`; `(ki n)` int; `(kb c…)` bytes; `kn` None;
`(kt f…)` tuple whose fields are ints `n` or one-letter strings `(ks c)` -/
def kfield? : Sexp → Option KField
  | .list [.atom "ks", c] => (nat? c).map .str
  | x => (int? x).map .int
def key? : Sexp → Option Key
  | .atom "kn" => some .none
  | .list [.atom "ki", n] => (int? n).map .int
  | .list (.atom "kb" :: cs) => (cs.mapM nat?).map .bytes
  | .list (.atom "kt" :: ns) => (ns.mapM kfield?).map .tup
  | x => (nat? x).map .str

def fieldLt : KField → KField → Bool
  | .int a, .int b => a < b
  | .str a, .str b => a < b
  | .int _, .str _ => true
  | .str _, .int _ => false
def lexLtI : List KField → List KField → Bool
  | [], [] => false
  | [], _ :: _ => true
  | _ :: _, [] => false
  | a :: as, b :: bs => fieldLt a b || (a == b && lexLtI as bs)

/-- the canonical order in which the harness builds dicts (None, ints, strs, bytes, tuples), so that equal
dicts are structurally equal values -/
def keyRank : Key → Nat
  | .none => 0 | .int _ => 1 | .str _ => 2 | .bytes _ => 3 | .tup _ => 4
def keyLt : Key → Key → Bool
  | .int a, .int b => a < b
  | .str a, .str b => a < b
  | .bytes a, .bytes b => lexLt a b
  | .tup a, .tup b => lexLtI a b
  | a, b => keyRank a < keyRank b
def ascendingK : List Key → Bool
  | a :: b :: rest => keyLt a b && ascendingK (b :: rest)
  | _ => true

partial def v? : Sexp → Option V
  | .atom "none" => some .none
  | .list [.atom "i", n] => (int? n).map .int
  | .list (.atom "s" :: cs) => (cs.mapM nat?).map .str
  | .list (.atom "b" :: cs) => (cs.mapM nat?).map .bytes
  | .list (.atom "l" :: xs) => (xs.mapM v?).map .list
  | .list (.atom "t" :: xs) => (xs.mapM v?).map .tuple
  | .list (.atom "d" :: kvs) => do
      let ps ← kvs.mapM (pair? key? v?)
      -- dicts are built with keys in the canonical order (then Python's == is structural equality)
      if ascendingK (ps.map (·.1)) then some (.dict (ps.map (·.1)) (ps.map (·.2))) else none
  | .list (.atom "o" :: t :: kvs) => do
      let ps ← kvs.mapM (pair? nat? v?)
      if ascending (ps.map (·.1)) then some (.obj (← nat? t) (ps.map (·.1)) (ps.map (·.2))) else none
  | .list [.atom "ei", c, a] => (exc? c a).map (.exc · true)
  | .list [.atom "ev", c, a] => (exc? c a).map (.exc · false)
  | .list [.atom "fr", x] => (v? x).map .fnRet
  | .list [.atom "fx", c, a] => (exc? c a).map .fnRaise
  | _ => none

def verdict? : Sexp → Option Verdict
  | .atom "match" => some .match
  | .atom "mismatch" => some .mismatch
  | .list [.atom "raised", c] => (excCls? c).map .raised
  | _ => none
def ofVerdict : Verdict → Sexp
  | .match => .atom "match"
  | .mismatch => .atom "mismatch"
  | .raised c => tag "raised" [ofExcCls c]

def typeTag? : Sexp → Option TypeTag
  | .atom "int" => some .int | .atom "str" => some .str | .atom "bytes" => some .bytes
  | .atom "list" => some .list | .atom "dict" => some .dict | .atom "tuple" => some .tuple
  | .atom "NoneType" => some .noneType | .atom "object" => some .object
  | .list [.atom "obj", k] => (nat? k).map .obj
  | .list [.atom "exc", c] => (excCls? c).map .exc
  | _ => none

def dictKind? : Sexp → Option DictKind
  | .atom "exact" => some .exact | .atom "contains" => some .contains | .atom "containedBy" => some .containedBy
  | _ => none
def preFn? : Sexp → Option PreFn
  | .atom "ident" => some .ident | .atom "wrap" => some .wrap | .atom "len" => some .len | .atom "strOf" => some .strOf
  | _ => none

/-- `(opq id (v verdict)…)` -/
def opaque? : Sexp → Option Leaf
  | .list (.atom "opq" :: k :: rows) => do
      let ps ← rows.mapM (pair? v? verdict?)
      some (.opaque (← nat? k) (ps.map (·.1)) (ps.map (·.2)))
  | _ => none

def msgKind? : Sexp → Option MsgKind
  | .atom "one" => some .one | .atom "zero" => some .zero | .atom "empty" => some .empty | .atom "two" => some .two
  | _ => none

/-- `(pred id msgkind (v verdict)…)` -/
def predicate? : Sexp → Option Leaf
  | .list (.atom "pred" :: k :: mk :: rows) => do
      let ps ← rows.mapM (pair? v? verdict?)
      some (.predicate (← nat? k) (← msgKind? mk) (ps.map (·.1)) (ps.map (·.2)))
  | _ => none

partial def m? : Sexp → Option M
  | .list [.atom "eq", e] => (v? e).map (.leaf ∘ .equals)
  | .list [.atom "ne", e] => (v? e).map (.leaf ∘ .notEquals)
  | .list [.atom "is", e] => (v? e).map (.leaf ∘ .is_)
  | .list [.atom "lt", e] => (v? e).map (.leaf ∘ .lessThan)
  | .list [.atom "gt", e] => (v? e).map (.leaf ∘ .greaterThan)
  | .list (.atom "same" :: es) => (es.mapM v?).map (.leaf ∘ .sameMembers)
  | .list [.atom "starts", e] => (v? e).map (.leaf ∘ .startsWith)
  | .list [.atom "ends", e] => (v? e).map (.leaf ∘ .endsWith)
  | .list [.atom "contains", e] => (v? e).map (.leaf ∘ .contains)
  | .list (.atom "containsAll" :: es) => (es.mapM v?).map fun vs => .all false (vs.map (.leaf ∘ .contains))
  | .list (.atom "isinst" :: ts) => (ts.mapM typeTag?).map (.leaf ∘ .isInstance)
  | .list [.atom "len", n] => (int? n).map (.leaf ∘ .hasLength)
  | .list [.atom "always"] => some (.leaf .always)
  | .list [.atom "never"] => some (.leaf .never)
  | .list (.atom "keys" :: ks) => (ks.mapM key?).map (.leaf ∘ .keysEqual)
  | .list [.atom "exctype", cs] => (excClassList? cs).map (.leaf ∘ .excType)
  | .list [.atom "exctypeV", cs, vm] => do some (.excTypeV (← excClassList? cs) (← m? vm))
  | .list [.atom "exctypeRe", cs, o] => do
      some (.excTypeV (← excClassList? cs) (.after .strOf false (.leaf (← opaque? o))))
  | .list [.atom "excinst", c, a] => (exc? c a).map (.leaf ∘ .excInst)
  | .list [.atom "raisesAny"] => some (.leaf .raisesAny)
  | .list [.atom "raises", em] => (m? em).map .raises
  | .list (.atom "raisesFn" :: cs) => (excClasses? cs).map fun cs => .raises (.leaf (.excType cs))
  | .list [.atom "raisesInst", c, a] => (exc? c a).map fun e => .raises (.leaf (.excInst e))
  | .list (.atom "opq" :: rest) => (opaque? (.list (.atom "opq" :: rest))).map .leaf
  | .list (.atom "pred" :: rest) => (predicate? (.list (.atom "pred" :: rest))).map .leaf
  | .list [.atom "not", m] => (m? m).map .not
  | .list (.atom "all" :: fo :: ms) => do some (.all (← bool? fo) (← ms.mapM m?))
  | .list (.atom "any" :: ms) => (ms.mapM m?).map .any
  | .list [.atom "allmatch", m] => (m? m).map .allMatch
  | .list [.atom "anymatch", m] => (m? m).map .anyMatch
  | .list (.atom "listwise" :: fo :: ms) => do some (.listwise (← bool? fo) (← ms.mapM m?))
  | .list (.atom "setwise" :: ka :: kb :: ms) => do
      let ka ← list? nat? ka
      let kb ← list? nat? kb
      let ms ← ms.mapM m?
      if ka.length == ms.length && kb.length == ms.length then some (.setwise ka kb ms) else none
  | .list (.atom "struct" :: ams) => do
      let ps ← ams.mapM (pair? nat? m?)
      some (.structure (ps.map (·.1)) (ps.map (·.2)))
  | .list (.atom "dict" :: kind :: kms) => do
      let ps ← kms.mapM (pair? key? m?)
      if ascendingK (ps.map (·.1)) then some (.dict (← dictKind? kind) (ps.map (·.1)) (ps.map (·.2))) else none
  | .list [.atom "annot", m] => (m? m).map .annotate
  | .list [.atom "after", f, a, m] => do some (.after (← preFn? f) (← bool? a) (← m? m))
  | _ => none

def input? : Sexp → Option Input
  | .list [m, v] => do some { m := ← m? m, v := ← v? v }
  | _ => none

def trace? : Sexp → Option Trace
  | .list [a, b, c, d, e] => do
      some { first := ← verdict? a, again := ← verdict? b, other := ← verdict? c, pureM := ← bool? d, pureV := ← bool? e }
  | _ => none
def ofTrace (t : Trace) : Sexp :=
  .list [ofVerdict t.first, ofVerdict t.again, ofVerdict t.other, ofBool t.pureM, ofBool t.pureV]

def drv : PropDrv Input Trace :=
  { decI := input?, decT := trace?, encT := ofTrace, model := model, clauses := Spec.C06.clauses }

def handle : List Sexp → Sexp := drv.handle
end TTV.Drv.C06
