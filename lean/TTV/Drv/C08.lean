import TTV.Sexp
import TTV.Model.Result
import TTV.Model.ResC08
import TTV.Spec.C08
import TTV.Drv.Res
/-! Driver glue for C08: codecs between S-expressions and `ResC08.Input` / `ResC08.Trace`. -/
namespace TTV.Drv.C08
open TTV TTV.Sexp TTV.Result TTV.ResC08 TTV.Drv.Res

/-- `(shape history)` or `(shape history faults)`; faulting callbacks only over a linear stack -/
def input? : Sexp → Option Input
  | .list [s, h, f] => do
      let p ← shapeHist? (.list [s, h])
      let fs ← list? nat? f
      if fs.isEmpty || linearTbt p.1 then some { shape := p.1, hist := p.2, faults := fs } else none
  | s => (shapeHist? s).map fun p => { shape := p.1, hist := p.2 }

def tbtCall? : Sexp → Option TbtCall
  | .list [t, s, a, b, g, d] => do
      some { test := ← nat? t, status := ← opt? kind? s, start := ← time? a, stop := ← time? b,
             tags := ← tags? g, details := ← opt? details? d }
  | _ => none
def ofTbtCall (c : TbtCall) : Sexp :=
  .list [ofNat c.test, ofOpt ofKind c.status, ofTime c.start, ofTime c.stop, ofTags c.tags, ofOpt ofDetails c.details]

def leaf? : Sexp → Option LeafTrace
  | .list [l, c] => do some { log := ← list? ev? l, calls := ← list? tbtCall? c }
  | _ => none
def ofLeaf (l : LeafTrace) : Sexp := .list [ofList ofEv l.log, ofList ofTbtCall l.calls]

def drv : PropDrv Input Trace :=
  { decI := input?, decT := list? leaf?, encT := ofList ofLeaf, model := model, clauses := Spec.C08.clauses }

def handle : List Sexp → Sexp := drv.handle
end TTV.Drv.C08
