import TTV.Sexp
/-! Driver glue for C08 — stub, replaced when the property's model is built. -/
namespace TTV.Drv.C08
open TTV

def handle (_ : List Sexp) : Sexp := .atom "unimplemented"
end TTV.Drv.C08
