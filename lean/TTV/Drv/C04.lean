import TTV.Sexp
import TTV.Model.Result
import TTV.Model.ResC04
import TTV.Spec.C04
import TTV.Drv.Res
/-! Driver glue for C04. -/
namespace TTV.Drv.C04
open TTV TTV.Sexp TTV.Result TTV.ResC04 TTV.Drv.Res

def pkind? : Sexp → Option PKind
  | .atom "exit0" => some (.exit (some 0))
  | .atom "exit3" => some (.exit (some 3))
  | .atom "exitNone" => some (.exit none)
  | s => (kind? s).map .out

def input? : Sexp → Option Input
  | .list [s, h, p] => do
      let (sh, hs) ← shapeHist? (.list [s, h])
      let pr ← opt? (pair? bool? (list? pkind?)) p
      some { shape := sh, hist := hs, prog := pr }
  | _ => none

def out? : Sexp → Option Out
  | .atom "running" => some .running
  | .list [.atom "sect", l, t] => do some (.sect (← nat? l) (← nat? t))
  | .list [.atom "ran", n] => (nat? n).map .ran
  | .atom "ok" => some .ok
  | .list [.atom "failed", k] => (nat? k).map .failed
  | _ => none
def ofOut : Out → Sexp
  | .running => .atom "running"
  | .sect l t => tag "sect" [ofNat l, ofNat t]
  | .ran n => tag "ran" [ofNat n]
  | .ok => .atom "ok"
  | .failed k => tag "failed" [ofNat k]

def obs? : Sexp → Option Obs
  | .list [a, b, c, d, e, f] => do
      some { ws := ← bool? a, ss := ← bool? b, ff := ← opt? bool? c, leafStop := ← list? bool? d, leafFF := ← list? bool? e,
             cb := ← list? nat? f }
  | _ => none
def ofObs (o : Obs) : Sexp :=
  .list [ofBool o.ws, ofBool o.ss, ofOpt ofBool o.ff, ofList ofBool o.leafStop, ofList ofBool o.leafFF, ofList ofNat o.cb]

def trace? : Sexp → Option Trace
  | .list [a, b, c, d, e] => do
      some { ff0 := ← opt? bool? a, leafFF := ← list? bool? b, obs := ← list? obs? c,
             texts := ← list? (list? out?) d, exit := ← opt? (pair? nat? (list? out?)) e }
  | _ => none
def ofTrace (t : Trace) : Sexp :=
  .list [ofOpt ofBool t.ff0, ofList ofBool t.leafFF, ofList ofObs t.obs, ofList (ofList ofOut) t.texts,
         ofOpt (ofPair ofNat (ofList ofOut)) t.exit]

def classes (i : Input) : List String :=
  if Spec.C04.sysExitZero i then ["sysExitZero"] else []

def drv : PropDrv Input Trace :=
  { decI := input?, decT := trace?, encT := ofTrace, model := model, clauses := Spec.C04.clauses, classes := classes }

def handle : List Sexp → Sexp := drv.handle
end TTV.Drv.C04
