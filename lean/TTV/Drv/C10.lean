import TTV.Sexp
import TTV.Model.Stream
import TTV.Spec.C10
import TTV.Drv.StreamCodec
/-! Driver glue for C10: input = `(run…)`, run = `(event…)`; trace = `(runTrace…)`,
runTrace = `(dict summary ext)`, summary = `(testsRun errors failures skipped xfails uxsuccesses wasSuccessful)`. -/
namespace TTV.Drv.C10
open TTV TTV.Sexp TTV.Stream TTV.Drv.StreamCodec

def input? (s : Sexp) : Option Input := do some { runs := ← list? (list? event?) s }

def summary? : Sexp → Option Summary
  | .list [a, b, c, d, e, f, g] => do
      some { testsRun := ← nat? a, errors := ← list? nat? b, failures := ← list? nat? c, skipped := ← list? nat? d,
             expectedFailures := ← list? nat? e, unexpectedSuccesses := ← list? nat? f, wasSuccessful := ← bool? g }
  | _ => none
def ofSummary (s : Summary) : Sexp :=
  .list [ofNat s.testsRun, ofList ofNat s.errors, ofList ofNat s.failures, ofList ofNat s.skipped,
         ofList ofNat s.expectedFailures, ofList ofNat s.unexpectedSuccesses, ofBool s.wasSuccessful]

def runTrace? : Sexp → Option RunTrace
  | .list [a, b, c] => do some { dict := ← list? report? a, summary := ← summary? b, ext := ← list? extEv? c }
  | _ => none
def ofRunTrace (t : RunTrace) : Sexp := .list [ofList ofReport t.dict, ofSummary t.summary, ofList ofExtEv t.ext]

def drv : PropDrv Input Trace :=
  { decI := input?, decT := list? runTrace?, encT := ofList ofRunTrace, model := model, clauses := Spec.C10.clauses }

def handle : List Sexp → Sexp := drv.handle
end TTV.Drv.C10
