import TTV.Sexp
import TTV.Model.Stream
import TTV.Spec.C10
import TTV.Drv.StreamCodec
/-! Driver glue for C10: input = `(run…)`, run = `((event…) (fault…))`; trace = `(runTrace…)`,
runTrace = `(dict dictRaised dictStopRaises summary ext extRaised extStopRaises realStarted)`, summary = `(testsRun errors failures skipped xfails uxsuccesses wasSuccessful)`. -/
namespace TTV.Drv.C10
open TTV TTV.Sexp TTV.Stream TTV.Drv.StreamCodec

def run? : Sexp → Option Run
  | .list [es, fs] => do some { events := ← list? event? es, faults := ← list? nat? fs }
  | _ => none

def input? (s : Sexp) : Option Input := do some { runs := ← list? run? s }

def summary? : Sexp → Option Summary
  | .list [a, b, c, d, e, f, g] => do
      some { testsRun := ← nat? a, errors := ← list? nat? b, failures := ← list? nat? c, skipped := ← list? nat? d,
             expectedFailures := ← list? nat? e, unexpectedSuccesses := ← list? nat? f, wasSuccessful := ← bool? g }
  | _ => none
def ofSummary (s : Summary) : Sexp :=
  .list [ofNat s.testsRun, ofList ofNat s.errors, ofList ofNat s.failures, ofList ofNat s.skipped,
         ofList ofNat s.expectedFailures, ofList ofNat s.unexpectedSuccesses, ofBool s.wasSuccessful]

def runTrace? : Sexp → Option RunTrace
  | .list [a, a1, a2, b, c, c1, c2, d] => do
      some { dict := ← list? report? a, dictRaised := ← list? nat? a1, dictStopRaises := ← nat? a2, summary := ← summary? b,
             ext := ← list? extEv? c, extRaised := ← list? nat? c1, extStopRaises := ← nat? c2,
             realStarted := ← list? nat? d }
  | _ => none
def ofRunTrace (t : RunTrace) : Sexp :=
  .list [ofList ofReport t.dict, ofList ofNat t.dictRaised, ofNat t.dictStopRaises, ofSummary t.summary,
         ofList ofExtEv t.ext, ofList ofNat t.extRaised, ofNat t.extStopRaises, ofList ofNat t.realStarted]

def drv : PropDrv Input Trace :=
  { decI := input?, decT := list? runTrace?, encT := ofList ofRunTrace, model := model, clauses := Spec.C10.clauses }

def handle : List Sexp → Sexp := drv.handle
end TTV.Drv.C10
