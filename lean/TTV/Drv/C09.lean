import TTV.Sexp
import TTV.Model.StreamConvert
import TTV.Spec.C09
import TTV.Drv.StreamCodec
/-! Driver glue for C09.
input  = `(explicitStart (run…))`, run = `(test…)`, test = `(id gtags t0 ltags t1 result)`, tags = `none` | `(some ((new…) (gone…)))`
result = `(success D?)` | `(uxsuccess D?)` | `(error P)` | `(failure P)` | `(xfail P)` | `(skip S)`;
         D? = `none` | `(some (detail…))`; P = `err` | `(details detail…)`; S = `none` | `(reason (cp…))` | `(details detail…)`
detail = `(name mime (chunk…))`
trace  = `(mid ext)`, mid = `start` | `stop` | `(status event)` -/
namespace TTV.Drv.C09
open TTV TTV.Sexp TTV.Stream TTV.Stream.Convert TTV.Drv.StreamCodec

def detailIn? : Sexp → Option DetailIn
  | .list [a, b, c] => do some { name := ← nat? a, mime := ← nat? b, chunks := ← list? (list? nat?) c }
  | _ => none

def errPayload? : Sexp → Option ErrPayload
  | .atom "err" => some .err
  | .list (.atom "details" :: ds) => do some (.details (← ds.mapM detailIn?))
  | _ => none

def skipPayload? : Sexp → Option SkipPayload
  | .atom "none" => some .none
  | .list [.atom "reason", r] => do some (.reason (← list? nat? r))
  | .list (.atom "details" :: ds) => do some (.details (← ds.mapM detailIn?))
  | _ => none

def result? : Sexp → Option Result
  | .list [.atom "success", d] => do some (.success (← opt? (list? detailIn?) d))
  | .list [.atom "uxsuccess", d] => do some (.uxsuccess (← opt? (list? detailIn?) d))
  | .list [.atom "error", p] => (errPayload? p).map .error
  | .list [.atom "failure", p] => (errPayload? p).map .failure
  | .list [.atom "xfail", p] => (errPayload? p).map .xfail
  | .list [.atom "skip", p] => (skipPayload? p).map .skip
  | _ => none

def test? : Sexp → Option TestIn
  | .list [a, b, c, d, e, f] => do
      some { id := ← nat? a, gtags := ← opt? (pair? (list? nat?) (list? nat?)) b, t0 := ← opt? nat? c,
             ltags := ← opt? (pair? (list? nat?) (list? nat?)) d, t1 := ← opt? nat? e, result := ← result? f }
  | _ => none

def input? : Sexp → Option Convert.Input
  | .list [a, b] => do some { explicitStart := ← bool? a, runs := ← list? (list? test?) b }
  | _ => none

def streamEv? : Sexp → Option StreamEv
  | .atom "start" => some .start
  | .atom "stop" => some .stop
  | .list [.atom "status", e] => (event? e).map .status
  | _ => none
def ofStreamEv : StreamEv → Sexp
  | .start => .atom "start"
  | .stop => .atom "stop"
  | .status e => tag "status" [ofEvent e]

def trace? : Sexp → Option Convert.Trace
  | .list [a, b] => do some { mid := ← list? streamEv? a, ext := ← list? extEv? b }
  | _ => none
def ofTrace (t : Convert.Trace) : Sexp := .list [ofList ofStreamEv t.mid, ofList ofExtEv t.ext]

def drv : PropDrv Convert.Input Convert.Trace :=
  { decI := input?, decT := trace?, encT := ofTrace, model := model, clauses := Spec.C09.clauses }

def handle : List Sexp → Sexp := drv.handle
end TTV.Drv.C09
