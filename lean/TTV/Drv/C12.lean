import TTV.Sexp
import TTV.Model.Conc
import TTV.Spec.C12
/-! Driver glue for C12: codecs between S-expressions and `Conc.Input` / `Conc.Trace`.

input  = `(threads sched [hints])`, thread = `(ops faults [failfast])`,
op     = `(time none|(some n))` | `(tags (n…) (n…))` | `(startTest id)` | `(stopTest id)` | `(outcome kind id)`
         | `startTestRun` | `stopTestRun` | `stop` | `done` | `shouldStop`,     id = n | `broken`
trace  = `(log exc finished)`, event = `(i acq)` | `(i rel)` | `(i call <call> T|F)`,
call   = `(time none|wall|n)` | `(startTest id)` | `(stopTest id)` | `(tags (…) (…))` | `(outcome kind id)` | control atom -/
namespace TTV.Drv.C12
open TTV TTV.Sexp TTV.Conc

def tid? : Sexp → Option TId
  | .atom "broken" => some .broken
  | s => (nat? s).map .t
def ofTid : TId → Sexp
  | .broken => .atom "broken"
  | .t n => ofNat n

def kind? : Sexp → Option Kind
  | .atom "success" => some .success | .atom "error" => some .error | .atom "failure" => some .failure
  | .atom "skip" => some .skip | .atom "xfail" => some .xfail | .atom "uxsuccess" => some .uxsuccess
  | _ => none
def ofKind : Kind → Sexp
  | .success => .atom "success" | .error => .atom "error" | .failure => .atom "failure"
  | .skip => .atom "skip" | .xfail => .atom "xfail" | .uxsuccess => .atom "uxsuccess"

def ctl? : Sexp → Option Ctl
  | .atom "startTestRun" => some .startTestRun | .atom "stopTestRun" => some .stopTestRun
  | .atom "stop" => some .stop | .atom "done" => some .done | .atom "shouldStop" => some .shouldStop
  | _ => none
def ofCtl : Ctl → Sexp
  | .startTestRun => .atom "startTestRun" | .stopTestRun => .atom "stopTestRun"
  | .stop => .atom "stop" | .done => .atom "done" | .shouldStop => .atom "shouldStop"

def time? : Sexp → Option Time
  | .atom "none" => some .unset
  | .atom "wall" => some .wall
  | s => (nat? s).map .at
def ofTime : Time → Sexp
  | .unset => .atom "none" | .wall => .atom "wall" | .at n => ofNat n

def op? : Sexp → Option Op
  | .list [.atom "time", t] => (opt? nat? t).map .time
  | .list [.atom "tags", a, b] => do some (.tags (← list? nat? a) (← list? nat? b))
  | .list [.atom "startTest", i] => (tid? i).map .startTest
  | .list [.atom "stopTest", i] => (tid? i).map .stopTest
  | .list [.atom "outcome", k, i] => do some (.outcome (← kind? k) (← tid? i))
  | s => (ctl? s).map .ctl

def call? : Sexp → Option Call
  | .list [.atom "time", t] => (time? t).map .time
  | .list [.atom "tags", a, b] => do some (.tags (← list? nat? a) (← list? nat? b))
  | .list [.atom "startTest", i] => (tid? i).map .startTest
  | .list [.atom "stopTest", i] => (tid? i).map .stopTest
  | .list [.atom "outcome", k, i] => do some (.outcome (← kind? k) (← tid? i))
  | s => (ctl? s).map .ctl
def ofCall : Call → Sexp
  | .time t => tag "time" [ofTime t]
  | .tags a b => tag "tags" [ofList ofNat a, ofList ofNat b]
  | .startTest i => tag "startTest" [ofTid i]
  | .stopTest i => tag "stopTest" [ofTid i]
  | .outcome k i => tag "outcome" [ofKind k, ofTid i]
  | .ctl c => ofCtl c

def ev? : Sexp → Option Ev
  | .list [i, .atom "acq"] => (nat? i).map (·, .acq)
  | .list [i, .atom "rel"] => (nat? i).map (·, .rel)
  | .list [i, .atom "call", c, r] => do some (← nat? i, .call (← call? c) (← bool? r))
  | .list [i, .atom "tryacq", ok] => do some (← nat? i, .tryAcq (← bool? ok))
  | _ => none
def ofEv : Ev → Sexp
  | (i, .acq) => .list [ofNat i, .atom "acq"]
  | (i, .rel) => .list [ofNat i, .atom "rel"]
  | (i, .call c r) => .list [ofNat i, .atom "call", ofCall c, ofBool r]
  | (i, .tryAcq ok) => .list [ofNat i, .atom "tryacq", ofBool ok]

def thread? : Sexp → Option Thread
  | .list [ops, faults] => do some { ops := ← list? op? ops, faults := ← list? nat? faults }
  | .list [ops, faults, ff] => do some { ops := ← list? op? ops, faults := ← list? nat? faults, failfast := ← bool? ff }
  | _ => none

def input? : Sexp → Option Input
  | .list [ts, sched] => do some { threads := ← list? thread? ts, sched := ← list? nat? sched }
  -- a third component carries *realisation hints* for the harness (shared test objects, empty test id, positional
  -- arguments, err instead of details, two targets behind one semaphore): they do not change what the model predicts
  | .list [ts, sched, _hints] => do some { threads := ← list? thread? ts, sched := ← list? nat? sched }
  | _ => none

def trace? : Sexp → Option Trace
  | .list [log, exc, fin, sems, sem] => do
      some { log := ← list? ev? log, exc := ← list? (list? bool?) exc, finished := ← bool? fin, sems := ← list? nat? sems, sem := ← nat? sem }
  | _ => none
def ofTrace (t : Trace) : Sexp :=
  .list [ofList ofEv t.log, ofList (ofList ofBool) t.exc, ofBool t.finished, ofList ofNat t.sems, ofNat t.sem]

def drv : PropDrv Input Trace :=
  { decI := input?, decT := trace?, encT := ofTrace, model := model, clauses := Spec.C12.clauses }

def handle : List Sexp → Sexp := drv.handle
end TTV.Drv.C12
