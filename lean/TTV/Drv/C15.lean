import TTV.Sexp
import TTV.Model.Spinner
import TTV.Spec.C15
/-! Driver glue for C15: codecs between S-expressions and `Spinner.Input` / `Spinner.Trace`.

Input : `(debug (step …))`, step = `(run T ((d act) …) (op …) term [n])` (n = `_OBLIGATORY_REACTOR_ITERATIONS`, default 0) | `clear` | `(setsig s h)`, T = n | `neg` (a timeout
        the reactor rejects),
        op = `(later d act)` | `(now act)`, term = `(ret v)` | `(raise e)` | `deferred`,
        act = `(fire v)` | `(fail e)` | `stop` | `noop` | `addsel` | `(setsig s h)` | `(reenter T|F)`
Trace : `(obs …)`, obs = `(run result ((t lbl) …) (result …) (junk …) pending sels running stopRestored (sig …) (sig …) elapsed)`
        | `(cleared (junk …))` | `(sigs (sig …))`, lbl = n | `timeout`, junk = `(call lbl)` | `(sel n)` -/
namespace TTV.Drv.C15
open TTV TTV.Sexp TTV.Reactor TTV.Spinner

/-- child = `noop` | `addsel` | `(spawn d child)`; nested at most `fuel` deep -/
def childF : Nat → Sexp → Option Child
  | 0, _ => none
  | _ + 1, .atom "noop" => some .noop
  | _ + 1, .atom "addsel" => some .addSel
  | n + 1, .list [.atom "spawn", d, c] => do some (.spawn (← nat? d) (← childF n c))
  | _ + 1, _ => none

def act? : Sexp → Option Act
  | .list [.atom "fire", v] => (nat? v).map .fire
  | .list [.atom "fail", e] => (nat? e).map .fail
  | .atom "stop" => some .stop
  | .atom "noop" => some .noop
  | .atom "addsel" => some .addSel
  | .list [.atom "setsig", s, h] => do some (.setSig (← nat? s) (← nat? h))
  | .list [.atom "reenter", b] => (bool? b).map .reenter
  | .list [.atom "spawn", d, c] => do some (.spawn (← nat? d) (← childF 16 c))
  | .list [.atom "fireold", k, v] => do some (.late false (← nat? k) (← nat? v))
  | .list [.atom "failold", k, e] => do some (.late true (← nat? k) (← nat? e))
  | _ => none

def op? : Sexp → Option Op
  | .list [.atom "later", d, a] => do some (.later (← nat? d) (← act? a))
  | .list [.atom "now", a] => (act? a).map .now
  | _ => none

def term? : Sexp → Option Term
  | .list [.atom "ret", v] => (nat? v).map .ret
  | .list [.atom "raise", e] => (nat? e).map .raise
  | .atom "deferred" => some .deferred
  | _ => none

def isSpawn : Act → Bool
  | .spawn _ _ => true
  | _ => false

/-- the domain of `spawn` (see `Act.spawn`): only in runs whose `f` returns or raises synchronously, and only as a delayed call -/
def wellFormed (sc : Scen) : Bool :=
  let delayedSpawn := sc.pre.any (fun p => isSpawn p.2) || sc.body.any (fun | .later _ a => isSpawn a | .now _ => false)
  let nowSpawn := sc.body.any (fun | .now a => isSpawn a | .later _ _ => false)
  !nowSpawn && (!delayedSpawn || sc.term != .deferred)

def scen? (t pre body term : Sexp) (oblig : Nat) : Option Scen := do
  let sc : Scen ← match t with
    | .atom "neg" => do some { timeout := 0, bad := true, oblig := oblig, pre := ← list? (pair? nat? act?) pre, body := ← list? op? body, term := ← term? term }
    | t => do some { timeout := ← nat? t, oblig := oblig, pre := ← list? (pair? nat? act?) pre, body := ← list? op? body, term := ← term? term }
  if wellFormed sc then some sc else none

def step? : Sexp → Option Step
  | .list [.atom "run", t, pre, body, term] => (scen? t pre body term 0).map .run
  | .list [.atom "run", t, pre, body, term, n] => do some (.run (← scen? t pre body term (← nat? n)))
  | .atom "clear" => some .clearJunk
  | .list [.atom "setsig", s, h] => do some (.setSig (← nat? s) (← nat? h))
  | .atom "swap" => some .swap
  | _ => none

/-- an optional third element says on which reactor the harness ran the history (`real`); the model is the same -/
def input? : Sexp → Option Input
  | .list [d, steps] => do some { debug := ← bool? d, steps := ← list? step? steps }
  | .list [d, steps, .atom _] => do some { debug := ← bool? d, steps := ← list? step? steps }
  | _ => none

def res? : Sexp → Option Res
  | .list [.atom "value", v] => (nat? v).map .value
  | .list [.atom "raised", e] => (nat? e).map .raised
  | .atom "timeout" => some .timeout
  | .atom "noresult" => some .noresult
  | .atom "reentry" => some .reentry
  | .atom "stalejunk" => some .stalejunk
  | .atom "rejected" => some .rejected
  | _ => none
def ofRes : Res → Sexp
  | .value v => tag "value" [ofNat v]
  | .raised e => tag "raised" [ofNat e]
  | .timeout => .atom "timeout"
  | .noresult => .atom "noresult"
  | .reentry => .atom "reentry"
  | .stalejunk => .atom "stalejunk"
  | .rejected => .atom "rejected"

def lbl? : Sexp → Option Lbl
  | .atom "timeout" => some .timeout
  | x => (nat? x).map .user
def ofLbl : Lbl → Sexp
  | .timeout => .atom "timeout"
  | .user n => ofNat n

def junk? : Sexp → Option Junk
  | .list [.atom "call", l] => (lbl? l).map .call
  | .list [.atom "sel", n] => (nat? n).map .sel
  | _ => none
def ofJunk : Junk → Sexp
  | .call l => tag "call" [ofLbl l]
  | .sel n => tag "sel" [ofNat n]

def obs? : Sexp → Option Obs
  | .list [.atom "run", r, ev, re, j, p, s, run, sr, sb, sa, el] => do
      some (.run { result := ← res? r, events := ← list? (pair? nat? lbl?) ev, reentries := ← list? res? re,
                   junk := ← list? junk? j, pending := ← nat? p, sels := ← nat? s, running := ← bool? run,
                   stopRestored := ← bool? sr, sigBefore := ← list? nat? sb, sigAfter := ← list? nat? sa,
                   elapsed := ← nat? el })
  | .list [.atom "cleared", j] => (list? junk? j).map .cleared
  | .list [.atom "sigs", l] => (list? nat? l).map .sigs
  | .atom "swapped" => some .swapped
  | _ => none
def ofObs : Obs → Sexp
  | .run o => tag "run" [ofRes o.result, ofList (ofPair ofNat ofLbl) o.events, ofList ofRes o.reentries,
                         ofList ofJunk o.junk, ofNat o.pending, ofNat o.sels, ofBool o.running, ofBool o.stopRestored,
                         ofList ofNat o.sigBefore, ofList ofNat o.sigAfter, ofNat o.elapsed]
  | .cleared j => tag "cleared" [ofList ofJunk j]
  | .sigs l => tag "sigs" [ofList ofNat l]
  | .swapped => .atom "swapped"

def drv : PropDrv Input Trace :=
  { decI := input?, decT := list? obs?, encT := ofList ofObs, model := model, clauses := Spec.C15.clauses }

def handle : List Sexp → Sexp := drv.handle
end TTV.Drv.C15
