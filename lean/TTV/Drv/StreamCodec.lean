import TTV.Sexp
import TTV.Model.StreamTypes
/-! S-expression codecs shared by the stream family (C09, C10, C11, C18). -/
namespace TTV.Drv.StreamCodec
open TTV TTV.Sexp TTV.Stream

def status? : Sexp → Option Status
  | .atom "inprogress" => some .inprogress | .atom "exists" => some .exist | .atom "xfail" => some .xfail
  | .atom "uxsuccess" => some .uxsuccess | .atom "success" => some .success | .atom "fail" => some .fail
  | .atom "skip" => some .skip | .atom "unknown" => some .unknown
  | _ => none
def ofStatus : Status → Sexp
  | .inprogress => .atom "inprogress" | .exist => .atom "exists" | .xfail => .atom "xfail"
  | .uxsuccess => .atom "uxsuccess" | .success => .atom "success" | .fail => .atom "fail"
  | .skip => .atom "skip" | .unknown => .atom "unknown"

def outcome? : Sexp → Option Outcome
  | .atom "success" => some .success | .atom "failure" => some .failure | .atom "error" => some .error
  | .atom "skip" => some .skip | .atom "xfail" => some .xfail | .atom "uxsuccess" => some .uxsuccess
  | _ => none
def ofOutcome : Outcome → Sexp
  | .success => .atom "success" | .failure => .atom "failure" | .error => .atom "error"
  | .skip => .atom "skip" | .xfail => .atom "xfail" | .uxsuccess => .atom "uxsuccess"

def ts? : Sexp → Option Ts
  | .atom "now" => some .now
  | x => (nat? x).map .t
def ofTs : Ts → Sexp
  | .now => .atom "now"
  | .t n => ofNat n

/-- `(tid status tags runnable fname fbytes eof mime route ts)` -/
def eventOf? {TG : Type} (tg? : Sexp → Option TG) : Sexp → Option (EventOf TG)
  | .list [a, b, c, d, e, f, g, h, i, j] => do
      some { testId := ← opt? nat? a, status := ← opt? status? b, tags := ← opt? tg? c, runnable := ← bool? d,
             fileName := ← opt? nat? e, fileBytes := ← opt? (list? nat?) f, eof := ← bool? g,
             mime := ← opt? nat? h, route := ← opt? chars? i, timestamp := ← opt? ts? j }
  | _ => none
def ofEventOf {TG : Type} (ofTg : TG → Sexp) (e : EventOf TG) : Sexp :=
  .list [ofOpt ofNat e.testId, ofOpt ofStatus e.status, ofOpt ofTg e.tags, ofBool e.runnable,
         ofOpt ofNat e.fileName, ofOpt (ofList ofNat) e.fileBytes, ofBool e.eof, ofOpt ofNat e.mime,
         ofOpt ofChars e.route, ofOpt ofTs e.timestamp]

def event? : Sexp → Option Event := eventOf? (list? nat?)
def ofEvent : Event → Sexp := ofEventOf (ofList ofNat)

/-- `(name mime bytes)` -/
def detail? : Sexp → Option Detail
  | .list [a, b, c] => do some { name := ← nat? a, mime := ← nat? b, bytes := ← list? nat? c }
  | _ => none
def ofDetail (d : Detail) : Sexp := .list [ofNat d.name, ofNat d.mime, ofList ofNat d.bytes]

/-- `(id tags details status ts0 ts1)` -/
def report? : Sexp → Option Report
  | .list [a, b, c, d, e, f] => do
      some { id := ← nat? a, tags := ← list? nat? b, details := ← list? detail? c, status := ← status? d,
             ts0 := ← opt? ts? e, ts1 := ← opt? ts? f }
  | _ => none
def ofReport (r : Report) : Sexp :=
  .list [ofNat r.id, ofList ofNat r.tags, ofList ofDetail r.details, ofStatus r.status, ofOpt ofTs r.ts0, ofOpt ofTs r.ts1]

def extEv? : Sexp → Option ExtEv
  | .list [.atom "startTestRun"] => some .startTestRun
  | .list [.atom "stopTestRun"] => some .stopTestRun
  | .list [.atom "time", t] => (ts? t).map .time
  | .list [.atom "tags", n, g] => do some (.tags (← list? nat? n) (← list? nat? g))
  | .list [.atom "startTest", n] => (nat? n).map .startTest
  | .list [.atom "stopTest", n] => (nat? n).map .stopTest
  | .list [.atom "outcome", o, n, ds] => do some (.outcome (← outcome? o) (← nat? n) (← list? detail? ds))
  | _ => none
def ofExtEv : ExtEv → Sexp
  | .startTestRun => tag "startTestRun" []
  | .stopTestRun => tag "stopTestRun" []
  | .time t => tag "time" [ofTs t]
  | .tags n g => tag "tags" [ofList ofNat n, ofList ofNat g]
  | .startTest n => tag "startTest" [ofNat n]
  | .stopTest n => tag "stopTest" [ofNat n]
  | .outcome o n ds => tag "outcome" [ofOutcome o, ofNat n, ofList ofDetail ds]

end TTV.Drv.StreamCodec
