import TTV.Sexp
import TTV.Model.Result
/-! Codecs shared by the M-Res properties (C04, C08, C17): shapes, calls, events. -/
namespace TTV.Drv.Res
open TTV TTV.Sexp TTV.Result

def tags? (s : Sexp) : Option TagSet := do
  let xs ← list? nat? s
  if xs.all (· < 64) then some (TagSet.ofList xs) else none
def ofTags (s : TagSet) : Sexp := ofList ofNat (TagSet.toList s)

def kind? : Sexp → Option Kind
  | .atom "success" => some .success | .atom "error" => some .error | .atom "failure" => some .failure
  | .atom "skip" => some .skip | .atom "xfail" => some .xfail | .atom "uxsuccess" => some .uxsuccess
  | _ => none
def ofKind : Kind → Sexp
  | .success => .atom "success" | .error => .atom "error" | .failure => .atom "failure"
  | .skip => .atom "skip" | .xfail => .atom "xfail" | .uxsuccess => .atom "uxsuccess"

def content? : Sexp → Option Content
  | .list [.atom "text", t] => (chars? t).map .text
  | .list [.atom "binary", t] => (chars? t).map .binary
  | .atom "tb" => some .tb
  | _ => none
def ofContent : Content → Sexp
  | .text t => tag "text" [ofChars t]
  | .binary t => tag "binary" [ofChars t]
  | .tb => .atom "tb"

/-- a details dict, kept sorted by name (the canonical form in which both sides print it); `Call.ok` checks
that names are unique and a detail called `reason` is text -/
def details? (s : Sexp) : Option Details := do
  let d ← list? (pair? chars? content?) s
  some (sortDetails d)
/-- printed sorted by name -/
def ofDetails (d : Details) : Sexp := ofList (ofPair ofChars ofContent) (sortDetails d)

def exc? : Sexp → Option Exc
  | .atom "real" => some .real | .atom "synth" => some .synth
  | .list [.atom "str", m] => (chars? m).map .str
  | _ => none
def ofExc : Exc → Sexp
  | .real => .atom "real" | .synth => .atom "synth" | .str m => tag "str" [ofChars m]

def arg? : Sexp → Option Arg
  | .atom "none" => some .none
  | .list [.atom "exc", e] => (exc? e).map .exc
  | .list [.atom "reason", r] => (chars? r).map .reason
  | .list [.atom "details", d] => (details? d).map .details
  | _ => none
def ofArg : Arg → Sexp
  | .none => .atom "none"
  | .exc e => tag "exc" [ofExc e]
  | .reason r => tag "reason" [ofChars r]
  | .details d => tag "details" [ofDetails d]

def time? : Sexp → Option TimeV
  | .atom "none" => some .none | .atom "wall" => some .wall
  | .list [.atom "at", n] => (nat? n).map .at
  | _ => none
def ofTime : TimeV → Sexp
  | .none => .atom "none" | .wall => .atom "wall" | .at n => tag "at" [ofNat n]

def call? : Sexp → Option Call
  | .list [.atom "startTestRun"] => some .startTestRun
  | .list [.atom "stopTestRun"] => some .stopTestRun
  | .list [.atom "startTest", t] => (nat? t).map .startTest
  | .list [.atom "stopTest", t] => (nat? t).map .stopTest
  | .list [.atom "add", k, t, a] => do some (.add (← kind? k) (← nat? t) (← arg? a))
  | .list [.atom "tags", n, g] => do some (.tags (← tags? n) (← tags? g))
  | .list [.atom "time", d] => (time? d).map .time
  | .list [.atom "stop"] => some .stop
  | .list [.atom "done"] => some .done
  | .list [.atom "progress"] => some .progress
  | .list [.atom "setFailfast", b] => (bool? b).map .setFailfast
  | _ => none
def ofCall : Call → Sexp
  | .startTestRun => tag "startTestRun" [] | .stopTestRun => tag "stopTestRun" []
  | .startTest t => tag "startTest" [ofNat t] | .stopTest t => tag "stopTest" [ofNat t]
  | .add k t a => tag "add" [ofKind k, ofNat t, ofArg a]
  | .tags n g => tag "tags" [ofTags n, ofTags g]
  | .time d => tag "time" [ofTime d]
  | .stop => tag "stop" [] | .done => tag "done" [] | .progress => tag "progress" []
  | .setFailfast b => tag "setFailfast" [ofBool b]

def ev? : Sexp → Option Ev
  | .list [c, t] => do some { call := ← call? c, ctags := ← tags? t }
  | _ => none
def ofEv (e : Ev) : Sexp := .list [ofCall e.call, ofTags e.ctags]

def flavour? : Sexp → Option Flavour
  | .atom "py26" => some .py26 | .atom "py27" => some .py27 | .atom "twisted" => some .twisted | .atom "ext" => some .ext
  | _ => none

partial def shape? : Sexp → Option Shape
  | .list [.atom "sink", f] => (flavour? f).map .sink
  | .list [.atom "tt", b] => (bool? b).map .tt
  | .list [.atom "text", b] => (bool? b).map .text
  | .list [.atom "tbt"] => some .tbt
  | .list [.atom "etod", c] => (shape? c).map .etod
  | .list [.atom "deco", c] => (shape? c).map .deco
  | .list [.atom "sff"] => some .sff
  | .list [.atom "fsink", l, b, f] => do some (.fsink (← bool? l) (← bool? b) (← flavour? f))
  | .list [.atom "tagger", n, g, c] => do some (.tagger (← tags? n) (← tags? g) (← shape? c))
  -- (a fifth component is a realisation hint of the harness - how the constructor arguments are supplied; the model's Tagger carries values)
  | .list [.atom "tagger", n, g, c, _] => do some (.tagger (← tags? n) (← tags? g) (← shape? c))
  | .list [.atom "tfr", c] => (shape? c).map .tfr
  | .list [.atom "e2s", c] => (shape? c).map .e2s
  | .list (.atom "multi" :: cs) => do some (.multi (← cs.mapM shape?))
  | _ => none

/-- `(shape (call …))`, well-formed shape, admissible calls -/
def shapeHist? : Sexp → Option (Shape × List Call)
  | .list [s, h] => do
      let sh ← shape? s
      let hs ← list? call? h
      if sh.wf && hs.all Call.ok then some (sh, hs) else none
  | _ => none

end TTV.Drv.Res
