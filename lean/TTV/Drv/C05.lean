import TTV.Sexp
import TTV.Drv.RunCodec
import TTV.Spec.C05
/-! Driver glue for C05 (model M-Run, codecs in RunCodec). -/
namespace TTV.Drv.C05
open TTV TTV.Run

def drv : PropDrv Input (List Trace) :=
  { decI := RunCodec.input?, decT := RunCodec.traces?, encT := RunCodec.ofTraces, model := model,
    clauses := Spec.C05.clauses,
    classes := fun i => (if Spec.C05.lateCollision i then ["lateCollision"] else []) ++
      (if Spec.Run.wf i.prog then [] else ["not-wf"]) }

def handle : List Sexp → Sexp := drv.handle
end TTV.Drv.C05
