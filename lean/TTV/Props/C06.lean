import Batteries.Data.List.Basic
import TTV.Model.Matchers
import TTV.Spec.C06
/-! # C06 — matcher verdicts obey their declared semantics compositionally

Property theorems (kept apart from the model `TTV.Matchers` and the specification `TTV.Spec.C06`).
All statements are for **every** matcher expression (any depth and fan-out, arbitrary verdict tables for the
opaque leaves), every value and both set-iteration orders.

* `C06_sound_partial`          : in the documented domain `match()` returns the documented verdict — outside finding D5
* `C06_sound_setwiseFree`      : the same at full strength for every expression without `MatchesSetwise`
* `C06_deterministic_partial`  : the verdict does not depend on the set-iteration order — outside D5
* `C06_pure_deterministic`     : same object, same verdict; nothing is modified (by construction of the model)
* `C06_spec_not/all/any/allMatch/transparent`, `C06_sameMembers_perm`, `C06_spec_setwise_assignment` :
  what the specification says, as plain propositions (negation, ∧, ∨, ∀, ∃, `List.Perm`, ∃ one-to-one assignment)
* `C06_setwise_witness`        : the model exhibits D5 (`decide`)
* `holds_model_partial`        : the executable spec holds of the model's trace outside the finding class
-/
namespace TTV.Props.C06
open TTV.Matchers TTV.Spec.C06

/-! ## structural equality on values -/
mutual
theorem veq_iff : ∀ a b : V, veq a b = true ↔ a = b
  | .int a, b => by cases b <;> simp [veq]
  | .str a, b => by cases b <;> simp [veq]
  | .bytes a, b => by cases b <;> simp [veq]
  | .none, b => by cases b <;> simp [veq]
  | .list a, b => by cases b <;> simp [veq, veqL_iff a]
  | .dict ka va, b => by cases b <;> simp [veq, veqL_iff va]
  | .obj t ka va, b => by cases b <;> simp [veq, veqL_iff va, and_assoc]
  | .exc e i, b => by cases b <;> simp [veq]
  | .fnRet a, b => by cases b <;> simp [veq, veq_iff a]
  | .fnRaise e, b => by cases b <;> simp [veq]
theorem veqL_iff : ∀ a b : List V, veqL a b = true ↔ a = b
  | [], b => by cases b <;> simp [veqL]
  | x :: xs, b => by cases b <;> simp [veqL, veq_iff x, veqL_iff xs]
end

instance : DecidableEq V := fun a b =>
  if h : veq a b = true then isTrue ((veq_iff a b).mp h) else isFalse (fun e => h ((veq_iff a b).mpr e))

theorem veq_eq_decide (a b : V) : veq a b = decide (a = b) := by
  by_cases h : a = b
  · simp [h, (veq_iff b b).mpr rfl]
  · have : veq a b ≠ true := fun e => h ((veq_iff a b).mp e)
    simp [h, this]

/-! ## `SameMembers`: `list_subtract` both ways  ⇔  same multiplicities  ⇔  `List.Perm` -/
theorem eraseV_eq (x : V) (l : List V) : eraseV x l = l.erase x := by
  induction l with
  | nil => rfl
  | cons a as ih =>
    simp only [eraseV, List.erase_cons, veq_eq_decide, ih]
    by_cases h : a = x <;> simp [h]

theorem listSubtract_eq (a b : List V) : listSubtract a b = b.foldl (fun acc x => acc.erase x) a := by
  unfold listSubtract
  congr 1
  funext acc x
  exact eraseV_eq x acc

theorem count_listSubtract (x : V) (a b : List V) :
    (listSubtract a b).count x = a.count x - b.count x := by
  rw [listSubtract_eq]
  induction b generalizing a with
  | nil => simp
  | cons y ys ih =>
    simp only [List.foldl_cons, ih, List.count_erase, List.count_cons]
    by_cases h : y = x <;> simp [h] <;> omega

theorem listSubtract_isEmpty (a b : List V) :
    (listSubtract a b).isEmpty = true ↔ ∀ x, a.count x ≤ b.count x := by
  rw [List.isEmpty_iff]
  constructor
  · intro h x
    have := count_listSubtract x a b
    rw [h] at this
    simp at this
    omega
  · intro h
    apply List.eq_nil_iff_forall_not_mem.mpr
    intro x hx
    have h1 := count_listSubtract x a b
    have h2 := List.count_pos_iff.mpr hx
    have := h x
    omega

theorem countV_eq (x : V) (l : List V) : countV x l = l.count x := by
  unfold countV
  rw [List.count_eq_length_filter]
  congr 1
  apply List.filter_congr
  intro y _
  rw [veq_eq_decide]
  by_cases h : x = y
  · subst h; simp
  · have : ¬ y = x := fun e => h e.symm
    simp [h, this]

theorem sameCounts_iff (e xs : List V) :
    ((e ++ xs).all fun x => countV x e == countV x xs) = true ↔ ∀ x, e.count x = xs.count x := by
  simp only [List.all_eq_true, beq_iff_eq, countV_eq]
  constructor
  · intro h x
    by_cases hx : x ∈ e ++ xs
    · exact h x hx
    · simp only [List.mem_append, not_or] at hx
      rw [List.count_eq_zero_of_not_mem hx.1, List.count_eq_zero_of_not_mem hx.2]
  · intro h x _
    exact h x

/-- the code's test (both `list_subtract`s empty) is the documented one (equal multiplicities) -/
theorem sameMembers_impl_eq_spec (e xs : List V) :
    ((listSubtract e xs).isEmpty && (listSubtract xs e).isEmpty)
      = ((e ++ xs).all fun x => countV x e == countV x xs) := by
  rw [Bool.eq_iff_iff, Bool.and_eq_true, listSubtract_isEmpty, listSubtract_isEmpty, sameCounts_iff]
  constructor
  · rintro ⟨h1, h2⟩ x
    exact Nat.le_antisymm (h1 x) (h2 x)
  · intro h
    exact ⟨fun x => Nat.le_of_eq (h x), fun x => Nat.le_of_eq (h x).symm⟩

/-! ## replaying loops over Boolean verdicts -/
theorem seqAllAux_bools (fo bad : Bool) (bs : List Bool) :
    seqAllAux fo bad (bs.map Verdict.ofBool) = .ofBool (!bad && bs.all id) := by
  induction bs generalizing bad with
  | nil => cases bad <;> simp [seqAllAux, Verdict.ofBool]
  | cons b bs ih =>
    cases b <;> cases fo <;> cases bad <;> simp [seqAllAux, Verdict.ofBool, ih]

theorem seqAll_bools (fo : Bool) (bs : List Bool) :
    seqAll fo (bs.map Verdict.ofBool) = .ofBool (bs.all id) := by
  simp [seqAll, seqAllAux_bools]

theorem seqAny_bools (bs : List Bool) : seqAny (bs.map Verdict.ofBool) = .ofBool (bs.any id) := by
  induction bs with
  | nil => simp [seqAny, Verdict.ofBool]
  | cons b bs ih => cases b <;> simp [seqAny, Verdict.ofBool, ih]

theorem strictB_some {r : Option Verdict} {b : Bool} (h : strictB r = some b) : r = some (.ofBool b) := by
  match r, h with
  | some .match, h => simp [strictB] at h; simp [← h, Verdict.ofBool]
  | some .mismatch, h => simp [strictB] at h; simp [← h, Verdict.ofBool]

theorem bools_cons {r : Option Verdict} {rs : List (Option Verdict)} {bs : List Bool}
    (h : bools (r :: rs) = some bs) : ∃ b bs', bs = b :: bs' ∧ strictB r = some b ∧ bools rs = some bs' := by
  simp only [bools] at h
  split at h
  · rename_i b bs' hb hbs
    exact ⟨b, bs', by simpa using h.symm, hb, hbs⟩
  · simp at h

/-! ## leaves -/
theorem leaf_sound (l : Leaf) (v : V) (s : Verdict) (h : leafSpec l v = some s) : leafImpl l v = s := by
  cases l with
  | sameMembers e =>
    simp only [leafSpec] at h
    simp only [leafImpl]
    split at h
    · rename_i xs hxs
      simp only [hxs, sameMembers_impl_eq_spec]
      simpa using h
    · simp at h
  | raisesAny =>
    simp only [leafSpec] at h
    simp only [leafImpl]
    split at h <;> simp_all [callV]
  | _ =>
    simp only [leafSpec] at h
    split at h <;> simp_all

/-! ## `MatchesSetwise`: greedy = existence of a one-to-one assignment, when no value matches two matchers -/
theorem pick_found {row : List Verdict} {rem : List Nat} {i : Nat} (h : pick row rem = .found i) :
    i ∈ rem ∧ row.getD i .mismatch = .match := by
  induction rem with
  | nil => simp [pick] at h
  | cons j js ih =>
    simp only [pick] at h
    split at h
    · rename_i hj
      simp only [Pick.found.injEq] at h
      subst h
      exact ⟨List.mem_cons_self, hj⟩
    · simp at h
    · obtain ⟨h1, h2⟩ := ih h
      exact ⟨List.mem_cons_of_mem _ h1, h2⟩

theorem pick_nomatch {row : List Verdict} {rem : List Nat} (h : pick row rem = .absent) :
    ∀ i ∈ rem, row.getD i .mismatch = .mismatch := by
  induction rem with
  | nil => simp
  | cons j js ih =>
    simp only [pick] at h
    split at h
    · simp at h
    · simp at h
    · rename_i hj
      intro i hi
      rcases List.mem_cons.mp hi with rfl | hi
      · exact hj
      · exact ih h i hi

theorem getD_map_ofBool (bs : List Bool) (i : Nat) :
    (bs.map Verdict.ofBool).getD i .mismatch = .ofBool (bs.getD i false) := by
  induction bs generalizing i with
  | nil => simp [Verdict.ofBool]
  | cons b bs ih => cases i <;> simp_all

theorem pick_no_err {bs : List Bool} {rem : List Nat} {c : ExcCls} :
    pick (bs.map Verdict.ofBool) rem ≠ .err c := by
  induction rem with
  | nil => simp [pick]
  | cons j js ih =>
    simp only [pick, getD_map_ofBool]
    cases bs.getD j false <;> simp [Verdict.ofBool, ih]

theorem one_true {bs : List Bool} {i : Nat} (h : bs.getD i false = true) : 1 ≤ (bs.filter id).length := by
  induction bs generalizing i with
  | nil => simp at h
  | cons b bs ih =>
    cases i with
    | zero => simp at h; simp [h]
    | succ i =>
      have := ih (i := i) (by simpa using h)
      cases b <;> simp <;> omega

theorem two_true {bs : List Bool} {i j : Nat} (hij : i ≠ j) (hi : bs.getD i false = true)
    (hj : bs.getD j false = true) : 2 ≤ (bs.filter id).length := by
  induction bs generalizing i j with
  | nil => simp at hi
  | cons b bs ih =>
    cases i with
    | zero =>
      cases j with
      | zero => exact absurd rfl hij
      | succ j =>
        have := one_true (bs := bs) (i := j) (by simpa using hj)
        simp at hi; simp [hi]; omega
    | succ i =>
      cases j with
      | zero =>
        have := one_true (bs := bs) (i := i) (by simpa using hi)
        simp at hj; simp [hj]; omega
      | succ j =>
        have := ih (i := i) (j := j) (by omega) (by simpa using hi) (by simpa using hj)
        cases b <;> simp <;> omega

theorem seqAllAux_all_mismatch (bad : Bool) (l : List Verdict) (h : ∀ r ∈ l, r = Verdict.mismatch)
    (hne : bad = true ∨ l ≠ []) : seqAllAux false bad l = .mismatch := by
  induction l generalizing bad with
  | nil => cases bad <;> simp_all [seqAllAux]
  | cons r rs ih =>
    have hr := h r List.mem_cons_self
    subst hr
    simp only [seqAllAux, Bool.false_eq_true, ↓reduceIte]
    exact ih true (fun r hr => h r (List.mem_cons_of_mem _ hr)) (Or.inl rfl)

theorem zipWith_all_mismatch (f : Nat → V → Verdict) : ∀ (r : List Nat) (n : List V),
    (∀ x ∈ n, ∀ i ∈ r, f i x = .mismatch) → ∀ y ∈ List.zipWith f r n, y = Verdict.mismatch
  | [], _, _, y, hy => by simp at hy
  | _ :: _, [], _, y, hy => by simp at hy
  | i :: r, x :: n, h, y, hy => by
    simp only [List.zipWith_cons_cons, List.mem_cons] at hy
    rcases hy with rfl | hy
    · exact h x List.mem_cons_self i List.mem_cons_self
    · exact zipWith_all_mismatch f r n
        (fun x' hx' i' hi' => h x' (List.mem_cons_of_mem _ hx') i' (List.mem_cons_of_mem _ hi')) y hy

theorem setwiseFinish_spec (rowOf : V → List Verdict) (rem : List Nat) (nm : List V)
    (inv : ∀ x ∈ nm, ∀ i ∈ rem, (rowOf x).getD i .mismatch = .mismatch) :
    setwiseFinish rowOf rem nm = .ofBool (nm.isEmpty && rem.isEmpty) := by
  unfold setwiseFinish
  cases nm with
  | nil => cases rem <;> simp [Verdict.ofBool]
  | cons x nm =>
    cases rem with
    | nil => simp [Verdict.ofBool]
    | cons i rem =>
      simp only [List.isEmpty_cons, Bool.and_self, Bool.false_eq_true, ↓reduceIte, Verdict.ofBool, seqAll]
      apply seqAllAux_all_mismatch
      · apply zipWith_all_mismatch
        intro x' hx' i' hi'
        exact inv x' (List.mem_of_mem_take hx') i' (List.mem_of_mem_take hi')
      · right
        have h1 : min (i :: rem).length (x :: nm).length = (min rem.length nm.length) + 1 := by
          simp only [List.length_cons]; omega
        rw [h1]
        simp

theorem assignB_unique (row : List Bool) (rows : List (List Bool)) (rem : List Nat) (i : Nat)
    (hi : i ∈ rem) (hrow : row.getD i false = true) (huniq : (row.filter id).length < 2) :
    assignB (row :: rows) rem = assignB rows (rem.erase i) := by
  simp only [assignB]
  rw [Bool.eq_iff_iff, List.any_eq_true]
  constructor
  · rintro ⟨j, hj, h⟩
    simp only [Bool.and_eq_true] at h
    by_cases hji : j = i
    · subst hji; exact h.2
    · have := two_true hji h.1 hrow
      omega
  · intro h
    exact ⟨i, hi, by rw [hrow, h]; rfl⟩

theorem assignB_none (row : List Bool) (rows : List (List Bool)) (rem : List Nat)
    (h : ∀ i ∈ rem, row.getD i false = false) : assignB (row :: rows) rem = false := by
  simp only [assignB]
  rw [List.any_eq_false]
  intro i hi
  rw [h i hi]; simp

theorem greedy_spec (rowOf : V → List Verdict) (rowB : V → List Bool) :
    ∀ (xs : List V) (rem : List Nat) (nm : List V),
      (∀ x ∈ xs, rowOf x = (rowB x).map Verdict.ofBool) →
      (∀ x ∈ xs, ((rowB x).filter id).length < 2) →
      (∀ x ∈ nm, ∀ i ∈ rem, (rowOf x).getD i .mismatch = .mismatch) →
      (match greedy rowOf xs rem nm with
        | .ok (r, n) => setwiseFinish rowOf r n
        | .error c => .raised c) = .ofBool (nm.isEmpty && assignB (xs.map rowB) rem)
  | [], rem, nm, _, _, inv => by
    simp only [greedy, List.map_nil, assignB]
    exact setwiseFinish_spec rowOf rem nm inv
  | x :: xs, rem, nm, hrow, huniq, inv => by
    have hx := hrow x List.mem_cons_self
    have hrow' : ∀ y ∈ xs, rowOf y = (rowB y).map Verdict.ofBool :=
      fun y hy => hrow y (List.mem_cons_of_mem _ hy)
    have huniq' : ∀ y ∈ xs, ((rowB y).filter id).length < 2 :=
      fun y hy => huniq y (List.mem_cons_of_mem _ hy)
    simp only [greedy, List.map_cons]
    cases hp : pick (rowOf x) rem with
    | found i =>
      obtain ⟨hi, hm⟩ := pick_found hp
      simp only
      rw [greedy_spec rowOf rowB xs (rem.erase i) nm hrow' huniq'
        (fun y hy j hj => inv y hy j (List.mem_of_mem_erase hj))]
      rw [assignB_unique (rowB x) (xs.map rowB) rem i hi ?_ (huniq x List.mem_cons_self)]
      rw [hx, getD_map_ofBool] at hm
      cases h : (rowB x).getD i false <;> simp_all [Verdict.ofBool]
    | absent =>
      have hn := pick_nomatch hp
      simp only
      rw [greedy_spec rowOf rowB xs rem (nm ++ [x]) hrow' huniq' ?_]
      · rw [assignB_none (rowB x) (xs.map rowB) rem ?_]
        · cases nm <;> simp
        · intro i hi
          have := hn i hi
          rw [hx, getD_map_ofBool] at this
          cases h : (rowB x).getD i false <;> simp_all [Verdict.ofBool]
      · intro y hy j hj
        rcases List.mem_append.mp hy with hy | hy
        · exact inv y hy j hj
        · simp only [List.mem_singleton] at hy
          subst hy
          exact hn j hj
    | err c =>
      rw [hx] at hp
      exact absurd hp pick_no_err

theorem assignB_perm (rows : List (List Bool)) : ∀ {r1 r2 : List Nat}, r1.Perm r2 →
    assignB rows r1 = assignB rows r2 := by
  induction rows with
  | nil =>
    intro r1 r2 h
    simp only [assignB]
    cases r1 <;> cases r2 <;> simp_all
  | cons row rows ih =>
    intro r1 r2 h
    simp only [assignB]
    rw [Bool.eq_iff_iff, List.any_eq_true, List.any_eq_true]
    constructor
    · rintro ⟨i, hi, hh⟩
      refine ⟨i, h.mem_iff.mp hi, ?_⟩
      rw [← ih (h.erase i)]; exact hh
    · rintro ⟨i, hi, hh⟩
      refine ⟨i, h.mem_iff.mpr hi, ?_⟩
      rw [ih (h.erase i)]; exact hh

/-! ## soundness of `matchImpl` w.r.t. the documented semantics, by induction on the expression -/
theorem pyLen_of_pyIter {v : V} {xs : List V} (h : pyIter v = some xs) : pyLen v = some xs.length := by
  cases v <;> simp_all [pyIter, pyLen] <;> (subst h; simp)

theorem map_bools {f : V → Verdict} {g : V → Option Verdict} : ∀ {xs : List V} {bs : List Bool},
    bools (xs.map g) = some bs → (∀ x ∈ xs, ∀ s, g x = some s → f x = s) → xs.map f = bs.map Verdict.ofBool
  | [], bs, h, _ => by simp [bools] at h; simp [← h]
  | x :: xs, bs, h, hs => by
    obtain ⟨b, bs', rfl, hb, hbs⟩ := bools_cons h
    have := hs x List.mem_cons_self _ (strictB_some hb)
    simp only [List.map_cons, this, List.cons.injEq, true_and]
    exact map_bools hbs (fun y hy => hs y (List.mem_cons_of_mem _ hy))

theorem option_map_some {α β : Type} {f : α → β} {o : Option α} {b : β} (h : o.map f = some b) :
    ∃ a, o = some a ∧ f a = b := by
  cases o <;> simp_all

theorem matchCount_bools : ∀ {rs : List (Option Verdict)} {bs : List Bool}, bools rs = some bs →
    matchCount rs = (bs.filter id).length
  | [], bs, h => by simp [bools] at h; subst h; simp [matchCount]
  | r :: rs, bs, h => by
    obtain ⟨b, bs', rfl, hb, hbs⟩ := bools_cons h
    have ih := matchCount_bools hbs
    have hr := strictB_some hb
    subst hr
    unfold matchCount at ih ⊢
    cases b <;> simp [Verdict.ofBool, ih]

theorem allSome_map {α : Type} (d : α) {f : V → Option α} : ∀ {xs : List V} {ys : List α},
    allSome (xs.map f) = some ys →
      ys = xs.map (fun x => (f x).getD d) ∧ ∀ x ∈ xs, f x = some ((f x).getD d)
  | [], ys, h => by simp [allSome] at h; simp [← h]
  | x :: xs, ys, h => by
    simp only [List.map_cons] at h
    cases hx : f x with
    | none => simp [hx, allSome] at h
    | some a =>
      simp only [hx, allSome] at h
      obtain ⟨ys', hys', rfl⟩ := option_map_some h
      obtain ⟨h1, h2⟩ := allSome_map d hys'
      refine ⟨by simp [hx, ← h1], ?_⟩
      intro y hy
      rcases List.mem_cons.mp hy with rfl | hy
      · simp [hx]
      · exact h2 y hy

theorem seqAllAux_noraise (bad : Bool) : ∀ (l : List Verdict), (∀ r ∈ l, ∃ b, r = Verdict.ofBool b) →
    seqAllAux false bad l = .ofBool (!bad && l.all (· == .match))
  | [], _ => by cases bad <;> simp [seqAllAux, Verdict.ofBool]
  | r :: rs, h => by
    obtain ⟨b, rfl⟩ := h r List.mem_cons_self
    have ih := fun bad => seqAllAux_noraise bad rs (fun r hr => h r (List.mem_cons_of_mem _ hr))
    cases b <;> cases bad <;> simp [seqAllAux, Verdict.ofBool, ih]

theorem somes_eq_filterMap (l : List (Option Verdict)) : somes l = l.filterMap id := by
  induction l with
  | nil => rfl
  | cons a l ih => cases a <;> simp [somes, ih]

theorem insertKey_perm {α : Type} (x : Nat × α) (l : List (Nat × α)) :
    (insertKey x l).Perm (x :: l) := by
  induction l with
  | nil => simp [insertKey]
  | cons y ys ih =>
    simp only [insertKey]
    split
    · exact List.Perm.refl _
    · exact (List.Perm.cons y ih).trans (List.Perm.swap x y ys)

theorem sortKey_perm {α : Type} (l : List (Nat × α)) : (sortKey l).Perm l := by
  induction l with
  | nil => simp [sortKey]
  | cons x xs ih => exact (insertKey_perm x _).trans (List.Perm.cons x ih)

theorem orderIdx_perm (keys : List Nat) (n : Nat) : (orderIdx keys n).Perm (List.range n) := by
  unfold orderIdx
  have := (sortKey_perm ((List.range n).map fun i => (keys.getD i 0, i))).map (·.2)
  refine this.trans ?_
  simp [List.map_map, Function.comp_def]

/-- shape of `matchZip`: a position has no result exactly where it has no value -/
theorem matchZip_shape (sel : Bool) : ∀ (ms : List M) (vs : List (Option V)), ms.length = vs.length →
    (matchZip sel ms vs).length = vs.length ∧
    (matchZip sel ms vs).any Option.isNone = vs.any Option.isNone
  | [], [], _ => by simp [matchZip]
  | [], _ :: _, h => by simp at h
  | _ :: _, [], h => by simp at h
  | m :: ms, none :: vs, h => by
    have := matchZip_shape sel ms vs (by simpa using h)
    simp [matchZip, this.1, this.2]
  | m :: ms, some v :: vs, h => by
    have := matchZip_shape sel ms vs (by simpa using h)
    simp [matchZip, this.1, this.2]

theorem setwise_sound (sel : Bool) (ms : List M) (keys : List Nat) (v : V) (s : Verdict)
    (hrow : ∀ x bs, bools (specRow ms x) = some bs → ambRow ms x = false →
      matchRow sel ms x = bs.map Verdict.ofBool)
    (h : (match pyIter v with
      | none => none
      | some xs => (allSome (xs.map fun x => bools (specRow ms x))).map fun matrix =>
          Verdict.ofBool (assignB matrix (List.range ms.length))) = some s)
    (ha : (match pyIter v with
      | none => false
      | some xs => xs.any fun x => decide (2 ≤ matchCount (specRow ms x)) || ambRow ms x) = false) :
    setwiseImpl (fun x => matchRow sel ms x) keys ms.length v = s := by
  unfold setwiseImpl
  cases hv : pyIter v with
  | none => simp [hv] at h
  | some xs =>
    simp only [hv] at h ha ⊢
    obtain ⟨matrix, hm, rfl⟩ := option_map_some h
    obtain ⟨hmat, hrows⟩ := allSome_map [] hm
    rw [List.any_eq_false] at ha
    have key := greedy_spec (fun x => matchRow sel ms x) (fun x => (bools (specRow ms x)).getD []) xs
      (orderIdx keys ms.length) []
      (fun x hx => hrow x _ (hrows x hx) (by have := ha x hx; simp at this; exact this.2))
      (fun x hx => by
        have := ha x hx
        simp only [Bool.or_eq_true, decide_eq_true_eq, not_or, Nat.not_le] at this
        rw [← matchCount_bools (hrows x hx)]
        exact this.1)
      (by simp)
    simp only [List.isEmpty_nil, Bool.true_and] at key
    rw [assignB_perm _ (orderIdx_perm keys ms.length), ← hmat] at key
    rw [← key]
    cases greedy (fun x => matchRow sel ms x) xs (orderIdx keys ms.length) [] with
    | error c => rfl
    | ok p => rfl

theorem keyCond_eq (kind : DictKind) (ks oks : List Nat) :
    keyCond kind ks oks = !(match kind with
      | .exact => oks.any (fun k => !ks.contains k) || ks.any (fun k => !oks.contains k)
      | .contains => ks.any (fun k => !oks.contains k)
      | .containedBy => oks.any (fun k => !ks.contains k)) := by
  cases kind <;> simp only [keyCond, subsetB, Bool.not_or, List.not_any_eq_all_not, Bool.not_not, Bool.and_comm]

mutual
theorem sound (sel : Bool) : ∀ (m : M) (v : V) (s : Verdict),
    spec m v = some s → amb m v = false → matchImpl sel m v = s
  | .leaf l, v, s, h, _ => by
    simp only [spec] at h
    simp only [matchImpl]
    exact leaf_sound l v s h
  | .excTypeV cs vm, v, s, h, ha => by
    simp only [spec] at h
    simp only [amb] at ha
    simp only [matchImpl]
    split at h
    · rename_i e
      simp only at ha ⊢
      split at h
      · rename_i hm
        obtain ⟨b, hb, rfl⟩ := option_map_some h
        simp only [hm, Bool.true_and, ↓reduceIte] at ha ⊢
        exact sound sel vm _ _ (strictB_some hb) ha
      · rename_i hm
        simp only [Bool.not_eq_true] at hm
        simp_all
    · split <;> simp_all
  | .raises em, v, s, h, ha => by
    simp only [spec] at h
    simp only [amb] at ha
    simp only [matchImpl]
    split at h
    · simp_all [callV]
    · rename_i e
      simp only [callV] at ha ⊢
      split at h
      · rename_i hb
        rw [sound sel em _ _ (strictB_some hb) ha]
        simp only [Option.some.injEq] at h
        subst h
        simp [Verdict.ofBool]
      · rename_i hb
        rw [sound sel em _ _ (strictB_some hb) ha]
        simp only [Verdict.ofBool, Bool.false_eq_true, ↓reduceIte]
        simp_all
      · simp at h
    · simp at h
  | .not m, v, s, h, ha => by
    simp only [spec] at h
    simp only [amb] at ha
    simp only [matchImpl]
    obtain ⟨b, hb, rfl⟩ := option_map_some h
    rw [sound sel m v _ (strictB_some hb) ha]
    cases b <;> simp [Verdict.ofBool]
  | .all fo ms, v, s, h, ha => by
    simp only [spec] at h
    simp only [amb] at ha
    simp only [matchImpl]
    obtain ⟨bs, hb, rfl⟩ := option_map_some h
    rw [soundRow sel ms v bs hb ha, seqAll_bools]
  | .any ms, v, s, h, ha => by
    simp only [spec] at h
    simp only [amb] at ha
    simp only [matchImpl]
    obtain ⟨bs, hb, rfl⟩ := option_map_some h
    rw [soundRow sel ms v bs hb ha, seqAny_bools]
  | .allMatch m, v, s, h, ha => by
    simp only [spec] at h
    simp only [amb] at ha
    simp only [matchImpl]
    cases hv : pyIter v with
    | none => simp [hv] at h
    | some xs =>
      simp only [hv] at h ha ⊢
      obtain ⟨bs, hb, rfl⟩ := option_map_some h
      rw [List.any_eq_false] at ha
      rw [map_bools hb (fun x hx s hs => sound sel m x s hs (by simpa using ha x hx)), seqAll_bools]
  | .anyMatch m, v, s, h, ha => by
    simp only [spec] at h
    simp only [amb] at ha
    simp only [matchImpl]
    cases hv : pyIter v with
    | none => simp [hv] at h
    | some xs =>
      simp only [hv] at h ha ⊢
      obtain ⟨bs, hb, rfl⟩ := option_map_some h
      rw [List.any_eq_false] at ha
      rw [map_bools hb (fun x hx s hs => sound sel m x s hs (by simpa using ha x hx)), seqAny_bools]
  | .listwise fo ms, v, s, h, ha => by
    simp only [spec] at h
    simp only [amb] at ha
    simp only [matchImpl]
    cases hv : pyIter v with
    | none => simp [hv] at h
    | some xs =>
      simp only [hv] at h ha ⊢
      obtain ⟨bs, hb, rfl⟩ := option_map_some h
      rw [soundZip sel ms _ bs hb ha]
      simp only [listwiseImpl, pyLen_of_pyIter hv, seqAllAux_bools]
      simp [bne]
  | .setwise ka kb ms, v, s, h, ha => by
    simp only [spec] at h
    simp only [amb] at ha
    simp only [matchImpl]
    exact setwise_sound sel ms _ v s (fun x bs hb hx => soundRow sel ms x bs hb hx) h ha
  | .structure attrs ms, v, s, h, ha => by
    simp only [spec] at h
    simp only [amb] at ha
    simp only [matchImpl]
    split at h
    · simp at h
    · rename_i hc
      simp only [Bool.or_eq_true, bne_iff_ne, ne_eq, not_or, Decidable.not_not, Bool.not_eq_true] at hc
      obtain ⟨bs, hb, rfl⟩ := option_map_some h
      have hz := soundZip sel ms _ bs hb ha
      have hshape := matchZip_shape sel ms (attrs.map (getAttr v)) (by simp [hc.1])
      unfold structImpl
      rw [hshape.2, hc.2, hshape.1]
      simp only [List.length_map, bne_self_eq_false, Bool.or_self, Bool.false_eq_true, ↓reduceIte, seqAll]
      have hperm : (somes ((sortKey (attrs.zip (matchZip sel ms (attrs.map (getAttr v))))).map (·.2))).Perm
          (bs.map Verdict.ofBool) := by
        rw [somes_eq_filterMap, ← hz, somes_eq_filterMap]
        apply List.Perm.filterMap
        refine ((sortKey_perm _).map _).trans ?_
        rw [List.map_snd_zip]
        · simp [hshape.1]
      rw [seqAllAux_noraise false _ (fun r hr => by
        have := hperm.mem_iff.mp hr
        simp only [List.mem_map] at this
        obtain ⟨b, _, rfl⟩ := this
        exact ⟨b, rfl⟩)]
      rw [hperm.all_eq]
      congr 1
      simp only [Bool.not_false, Bool.true_and, List.all_map]
      congr 1
      funext b
      cases b <;> simp [Verdict.ofBool]
  | .dict kind ks ms, v, s, h, ha => by
    simp only [spec] at h
    simp only [amb] at ha
    simp only [matchImpl]
    split at h
    · rename_i oks ovs
      simp only at ha ⊢
      split at h
      · simp at h
      · obtain ⟨bs, hb, rfl⟩ := option_map_some h
        simp only [dictImpl]
        rw [soundZip sel ms _ bs hb ha, seqAllAux_bools, keyCond_eq]
        cases kind <;> rfl
    · simp at h
  | .annotate m, v, s, h, ha => by
    simp only [spec] at h
    simp only [amb] at ha
    simp only [matchImpl]
    exact sound sel m v s h ha
  | .after f a m, v, s, h, ha => by
    simp only [spec] at h
    simp only [amb] at ha
    simp only [matchImpl]
    cases hp : applyPre f v with
    | error c => simp [hp] at h
    | ok w =>
      simp only [hp] at h ha ⊢
      exact sound sel m w s h ha
theorem soundRow (sel : Bool) : ∀ (ms : List M) (v : V) (bs : List Bool),
    bools (specRow ms v) = some bs → ambRow ms v = false → matchRow sel ms v = bs.map Verdict.ofBool
  | [], v, bs, h, _ => by simp [specRow, bools] at h; simp [matchRow, ← h]
  | m :: ms, v, bs, h, ha => by
    simp only [specRow] at h
    simp only [ambRow, Bool.or_eq_false_iff] at ha
    obtain ⟨b, bs', rfl, hb, hbs⟩ := bools_cons h
    simp only [matchRow, List.map_cons]
    rw [sound sel m v _ (strictB_some hb) ha.1, soundRow sel ms v bs' hbs ha.2]
theorem soundZip (sel : Bool) : ∀ (ms : List M) (vs : List (Option V)) (bs : List Bool),
    bools (specZip ms vs) = some bs → ambZip ms vs = false →
      somes (matchZip sel ms vs) = bs.map Verdict.ofBool
  | [], vs, bs, h, _ => by simp [specZip, bools] at h; simp [matchZip, somes, ← h]
  | _ :: _, [], bs, h, _ => by simp [specZip, bools] at h; simp [matchZip, somes, ← h]
  | m :: ms, none :: vs, bs, h, ha => by
    simp only [specZip] at h
    simp only [ambZip] at ha
    simp only [matchZip, somes]
    exact soundZip sel ms vs bs h ha
  | m :: ms, some v :: vs, bs, h, ha => by
    simp only [specZip] at h
    simp only [ambZip, Bool.or_eq_false_iff] at ha
    obtain ⟨b, bs', rfl, hb, hbs⟩ := bools_cons h
    simp only [matchZip, somes, List.map_cons]
    rw [sound sel m v _ (strictB_some hb) ha.1, soundZip sel ms vs bs' hbs ha.2]
end

/-! # The property theorems -/

/-- **C06 (soundness).**  For every matcher expression (any depth, any leaves incl. arbitrary opaque
predicate tables), every value in the documented domain (`spec m v = some s`) and either
set-iteration order: `match()` returns exactly the documented verdict — provided no
`MatchesSetwise` node is reached with a value matching two of its matchers (finding D5).

Full statement (false because of D5, see `C06_setwise_witness`):
`∀ sel m v s, spec m v = some s → matchImpl sel m v = s`. -/
theorem C06_sound_partial (sel : Bool) (m : M) (v : V) (s : Verdict)
    (hdom : spec m v = some s) (hunamb : amb m v = false) : matchImpl sel m v = s :=
  sound sel m v s hdom hunamb

/-- **C06 (determinism across builds / set orders)**, same restriction.
Full statement: `∀ m v, (spec m v).isSome → matchImpl true m v = matchImpl false m v`. -/
theorem C06_deterministic_partial (m : M) (v : V) (s : Verdict)
    (hdom : spec m v = some s) (hunamb : amb m v = false) : matchImpl true m v = matchImpl false m v := by
  rw [sound true m v s hdom hunamb, sound false m v s hdom hunamb]

/- expressions without `MatchesSetwise` -/
mutual
def setwiseFree : M → Bool
  | .leaf _ => true
  | .excTypeV _ vm => setwiseFree vm
  | .raises em => setwiseFree em
  | .not m => setwiseFree m
  | .all _ ms => setwiseFreeL ms
  | .any ms => setwiseFreeL ms
  | .allMatch m => setwiseFree m
  | .anyMatch m => setwiseFree m
  | .listwise _ ms => setwiseFreeL ms
  | .setwise _ _ _ => false
  | .structure _ ms => setwiseFreeL ms
  | .dict _ _ ms => setwiseFreeL ms
  | .annotate m => setwiseFree m
  | .after _ _ m => setwiseFree m
def setwiseFreeL : List M → Bool
  | [] => true
  | m :: ms => setwiseFree m && setwiseFreeL ms
end

mutual
theorem amb_of_setwiseFree : ∀ (m : M) (v : V), setwiseFree m = true → amb m v = false
  | .leaf _, _, _ => by simp [amb]
  | .excTypeV cs vm, v, h => by
    simp only [setwiseFree] at h
    simp only [amb]
    split <;> simp [amb_of_setwiseFree vm _ h]
  | .raises em, v, h => by
    simp only [setwiseFree] at h
    simp only [amb]
    split <;> simp [amb_of_setwiseFree em _ h]
  | .not m, v, h => by simp only [setwiseFree] at h; simp [amb, amb_of_setwiseFree m v h]
  | .all _ ms, v, h => by simp only [setwiseFree] at h; simp [amb, ambRow_of_setwiseFree ms v h]
  | .any ms, v, h => by simp only [setwiseFree] at h; simp [amb, ambRow_of_setwiseFree ms v h]
  | .allMatch m, v, h => by
    simp only [setwiseFree] at h
    simp only [amb]
    split
    · rfl
    · rw [List.any_eq_false]; intro x _; simp [amb_of_setwiseFree m x h]
  | .anyMatch m, v, h => by
    simp only [setwiseFree] at h
    simp only [amb]
    split
    · rfl
    · rw [List.any_eq_false]; intro x _; simp [amb_of_setwiseFree m x h]
  | .listwise _ ms, v, h => by
    simp only [setwiseFree] at h
    simp only [amb]
    split
    · rfl
    · exact ambZip_of_setwiseFree ms _ h
  | .setwise _ _ _, _, h => by simp [setwiseFree] at h
  | .structure _ ms, v, h => by simp only [setwiseFree] at h; simp [amb, ambZip_of_setwiseFree ms _ h]
  | .dict _ _ ms, v, h => by
    simp only [setwiseFree] at h
    simp only [amb]
    split
    · exact ambZip_of_setwiseFree ms _ h
    · rfl
  | .annotate m, v, h => by simp only [setwiseFree] at h; simp [amb, amb_of_setwiseFree m v h]
  | .after f _ m, v, h => by
    simp only [setwiseFree] at h
    simp only [amb]
    split
    · exact amb_of_setwiseFree m _ h
    · rfl
theorem ambRow_of_setwiseFree : ∀ (ms : List M) (v : V), setwiseFreeL ms = true → ambRow ms v = false
  | [], _, _ => by simp [ambRow]
  | m :: ms, v, h => by
    simp only [setwiseFreeL, Bool.and_eq_true] at h
    simp [ambRow, amb_of_setwiseFree m v h.1, ambRow_of_setwiseFree ms v h.2]
theorem ambZip_of_setwiseFree : ∀ (ms : List M) (vs : List (Option V)), setwiseFreeL ms = true →
    ambZip ms vs = false
  | [], vs, _ => by simp [ambZip]
  | _ :: _, [], _ => by simp [ambZip]
  | m :: ms, none :: vs, h => by
    simp only [setwiseFreeL, Bool.and_eq_true] at h
    simp [ambZip, ambZip_of_setwiseFree ms vs h.2]
  | m :: ms, some v :: vs, h => by
    simp only [setwiseFreeL, Bool.and_eq_true] at h
    simp [ambZip, amb_of_setwiseFree m v h.1, ambZip_of_setwiseFree ms vs h.2]
end

/-- **C06 (soundness, full strength)** for every expression that does not contain `MatchesSetwise`:
all stock matchers and combinators, any depth, any value of the documented domain. -/
theorem C06_sound_setwiseFree (sel : Bool) (m : M) (v : V) (s : Verdict)
    (hfree : setwiseFree m = true) (hdom : spec m v = some s) : matchImpl sel m v = s :=
  sound sel m v s hdom (amb_of_setwiseFree m v hfree)

/-- **C06 (determinism and purity of the model)**: calling `match()` again on the same matcher object
gives the same verdict, and nothing is modified — by construction (`matchImpl` is a function of the
expression, the value and the set order, and has no state to modify). -/
theorem C06_pure_deterministic (i : Input) :
    (model i).again = (model i).first ∧ (model i).pureM = true ∧ (model i).pureV = true :=
  ⟨rfl, rfl, rfl⟩

/-! ## what the specification says (readings of `spec` as plain propositions) -/

theorem bools_iff : ∀ {rs : List (Option Verdict)}, (∀ r ∈ rs, ∃ b, r = some (Verdict.ofBool b)) →
    ∃ bs, bools rs = some bs ∧ (bs.all id = true ↔ ∀ r ∈ rs, r = some Verdict.match) ∧
      (bs.any id = true ↔ ∃ r ∈ rs, r = some Verdict.match)
  | [], _ => ⟨[], by simp [bools]⟩
  | r :: rs, h => by
    obtain ⟨b, rfl⟩ := h r List.mem_cons_self
    obtain ⟨bs, hbs, hall, hany⟩ := bools_iff (rs := rs) (fun r hr => h r (List.mem_cons_of_mem _ hr))
    refine ⟨b :: bs, ?_, ?_, ?_⟩
    · cases b <;> simp [bools, strictB, Verdict.ofBool, hbs]
    · cases b <;> simp [Verdict.ofBool, hall]
    · cases b <;> simp [Verdict.ofBool, hany]

theorem specRow_mem : ∀ {ms : List M} {v : V} {r : Option Verdict}, r ∈ specRow ms v ↔ ∃ m ∈ ms, r = spec m v
  | [], v, r => by simp [specRow]
  | m :: ms, v, r => by simp [specRow, specRow_mem (ms := ms)]

/-- `Not` negates. -/
theorem C06_spec_not (m : M) (v : V) (b : Bool) (h : spec m v = some (.ofBool b)) :
    spec (.not m) v = some (.ofBool (!b)) := by
  cases b <;> simp [spec, h, strictB, Verdict.ofBool]

/-- `MatchesAll` is the conjunction of its parts (the empty conjunction matches). -/
theorem C06_spec_all (fo : Bool) (ms : List M) (v : V) (hparts : ∀ m ∈ ms, ∃ b, spec m v = some (.ofBool b)) :
    ∃ b, spec (.all fo ms) v = some (.ofBool b) ∧ (b = true ↔ ∀ m ∈ ms, spec m v = some .match) := by
  obtain ⟨bs, hbs, hall, _⟩ := bools_iff (rs := specRow ms v) (by
    intro r hr
    obtain ⟨m, hm, rfl⟩ := specRow_mem.mp hr
    exact hparts m hm)
  refine ⟨bs.all id, by simp [spec, hbs], ?_⟩
  rw [hall]
  constructor
  · intro h m hm; exact (h _ (specRow_mem.mpr ⟨m, hm, rfl⟩))
  · intro h r hr; obtain ⟨m, hm, rfl⟩ := specRow_mem.mp hr; exact h m hm

/-- `MatchesAny` is the disjunction of its parts (the empty disjunction mismatches). -/
theorem C06_spec_any (ms : List M) (v : V) (hparts : ∀ m ∈ ms, ∃ b, spec m v = some (.ofBool b)) :
    ∃ b, spec (.any ms) v = some (.ofBool b) ∧ (b = true ↔ ∃ m ∈ ms, spec m v = some .match) := by
  obtain ⟨bs, hbs, _, hany⟩ := bools_iff (rs := specRow ms v) (by
    intro r hr
    obtain ⟨m, hm, rfl⟩ := specRow_mem.mp hr
    exact hparts m hm)
  refine ⟨bs.any id, by simp [spec, hbs], ?_⟩
  rw [hany]
  constructor
  · rintro ⟨r, hr, rfl⟩; obtain ⟨m, hm, h⟩ := specRow_mem.mp hr; exact ⟨m, hm, h.symm⟩
  · rintro ⟨m, hm, h⟩; exact ⟨_, specRow_mem.mpr ⟨m, hm, rfl⟩, h⟩

/-- `AllMatch` / `AnyMatch` quantify over the elements of the matchee. -/
theorem C06_spec_allMatch (m : M) (v : V) (xs : List V) (hv : pyIter v = some xs)
    (hparts : ∀ x ∈ xs, ∃ b, spec m x = some (.ofBool b)) :
    (∃ b, spec (.allMatch m) v = some (.ofBool b) ∧ (b = true ↔ ∀ x ∈ xs, spec m x = some .match)) ∧
    (∃ b, spec (.anyMatch m) v = some (.ofBool b) ∧ (b = true ↔ ∃ x ∈ xs, spec m x = some .match)) := by
  obtain ⟨bs, hbs, hall, hany⟩ := bools_iff (rs := xs.map (spec m)) (by
    intro r hr
    obtain ⟨x, hx, rfl⟩ := List.mem_map.mp hr
    exact hparts x hx)
  refine ⟨⟨bs.all id, by simp [spec, hv, hbs], ?_⟩, ⟨bs.any id, by simp [spec, hv, hbs], ?_⟩⟩
  · rw [hall]; simp
  · rw [hany]; simp

/-- `Annotate` keeps the inner verdict; `AfterPreprocessing` is the inner matcher on the transformed value. -/
theorem C06_spec_transparent (m : M) (v w : V) (f : PreFn) (a : Bool) (hf : applyPre f v = .ok w) :
    spec (.annotate m) v = spec m v ∧ spec (.after f a m) v = spec m w := by
  simp [spec, hf]

theorem specZip_mem : ∀ {ms : List M} {xs : List V} {r : Option Verdict},
    r ∈ specZip ms (xs.map some) ↔ ∃ p ∈ ms.zip xs, r = spec p.1 p.2
  | [], xs, r => by simp [specZip]
  | _ :: _, [], r => by simp [specZip]
  | m :: ms, x :: xs, r => by simp [specZip, specZip_mem (ms := ms) (xs := xs)]

/-- `MatchesListwise` is positional with equal length. -/
theorem C06_spec_listwise (fo : Bool) (ms : List M) (v : V) (xs : List V) (hv : pyIter v = some xs)
    (hparts : ∀ p ∈ ms.zip xs, ∃ b, spec p.1 p.2 = some (.ofBool b)) :
    ∃ b, spec (.listwise fo ms) v = some (.ofBool b) ∧
      (b = true ↔ xs.length = ms.length ∧ ∀ p ∈ ms.zip xs, spec p.1 p.2 = some .match) := by
  obtain ⟨bs, hbs, hall, _⟩ := bools_iff (rs := specZip ms (xs.map some)) (by
    intro r hr
    obtain ⟨p, hp, rfl⟩ := specZip_mem.mp hr
    exact hparts p hp)
  refine ⟨xs.length == ms.length && bs.all id, by simp [spec, hv, hbs], ?_⟩
  rw [Bool.and_eq_true, hall, beq_iff_eq]
  constructor
  · rintro ⟨h1, h2⟩; exact ⟨h1, fun p hp => h2 _ (specZip_mem.mpr ⟨p, hp, rfl⟩)⟩
  · rintro ⟨h1, h2⟩
    refine ⟨h1, fun r hr => ?_⟩
    obtain ⟨p, hp, rfl⟩ := specZip_mem.mp hr
    exact h2 p hp

/-- `MatchesDict` / `ContainsDict` / `ContainedByDict`: exact / super / sub key sets. -/
theorem C06_spec_dict_keys (kind : DictKind) (ks oks : List Nat) :
    keyCond kind ks oks = true ↔
      (match kind with
       | .exact => (∀ k ∈ ks, k ∈ oks) ∧ (∀ k ∈ oks, k ∈ ks)
       | .contains => ∀ k ∈ ks, k ∈ oks
       | .containedBy => ∀ k ∈ oks, k ∈ ks) := by
  cases kind <;> simp [keyCond, subsetB]

/-- … with per-key matchers on the common keys. -/
theorem C06_spec_dict (kind : DictKind) (ks : List Nat) (ms : List M) (oks : List Nat) (ovs : List V)
    (bs : List Bool) (hlen : ks.length = ms.length)
    (hparts : bools (specZip ms (ks.map fun k => lookupKey k oks ovs)) = some bs) :
    spec (.dict kind ks ms) (.dict oks ovs) = some (.ofBool (keyCond kind ks oks && bs.all id)) := by
  simp [spec, hlen, hparts]

/-- `SameMembers`: the matchee is a permutation of the expected list (same members, same repetitions). -/
theorem C06_sameMembers_perm (sel : Bool) (e xs : List V) :
    matchImpl sel (.leaf (.sameMembers e)) (.list xs) = .match ↔ e.Perm xs := by
  simp only [matchImpl, leafImpl, pyIter, sameMembers_impl_eq_spec]
  rw [List.perm_iff_count]
  have := sameCounts_iff e xs
  cases h : ((e ++ xs).all fun x => countV x e == countV x xs) <;> simp_all [Verdict.ofBool]

/-- `MatchesSetwise` (specification): a one-to-one assignment `p` of the values to the matcher indices
exists — `p` is a permutation of the indices, value `k` is accepted by matcher `p[k]`. -/
theorem C06_spec_setwise_assignment (rows : List (List Bool)) : ∀ (rem : List Nat),
    assignB rows rem = true ↔
      ∃ p : List Nat, p.Perm rem ∧ List.Forall₂ (fun row i => row.getD i false = true) rows p := by
  induction rows with
  | nil =>
    intro rem
    simp only [assignB, List.isEmpty_iff]
    constructor
    · rintro rfl; exact ⟨[], List.Perm.refl _, List.Forall₂.nil⟩
    · rintro ⟨p, hp, hf⟩
      cases hf
      exact List.perm_nil.mp hp.symm
  | cons row rows ih =>
    intro rem
    simp only [assignB, List.any_eq_true, Bool.and_eq_true]
    constructor
    · rintro ⟨i, hi, hrow, hrest⟩
      obtain ⟨p, hp, hf⟩ := (ih _).mp hrest
      exact ⟨i :: p, (List.Perm.cons i hp).trans (List.perm_cons_erase hi).symm, List.Forall₂.cons hrow hf⟩
    · rintro ⟨p, hp, hf⟩
      cases hf with
      | cons hrow hf =>
        rename_i i p'
        have hi : i ∈ rem := hp.mem_iff.mp List.mem_cons_self
        refine ⟨i, hi, hrow, (ih _).mpr ⟨p', ?_, hf⟩⟩
        exact List.Perm.cons_inv (hp.trans (List.perm_cons_erase hi))

/-! ## the recorded finding D5: the model exhibits the defect -/
def witnessM : M :=
  .setwise [0, 1] [1, 0] [.any [.leaf (.equals (.int 1)), .leaf (.equals (.int 2))], .leaf (.equals (.int 1))]
def witnessV : V := .list [.int 1, .int 2]

/-- `MatchesSetwise(MatchesAny(Equals(1), Equals(2)), Equals(1))` on `[1, 2]`: a one-to-one assignment
exists (documented verdict: match); the code says mismatch when the set iterates `MatchesAny` first and
match when it iterates `Equals(1)` first. -/
theorem C06_setwise_witness :
    amb witnessM witnessV = true ∧ spec witnessM witnessV = some .match ∧
    matchImpl true witnessM witnessV = .mismatch ∧ matchImpl false witnessM witnessV = .match ∧
    holds ⟨witnessM, witnessV⟩ (model ⟨witnessM, witnessV⟩) = false := by
  decide

/-! ## headline -/
/-- The executable specification holds of the model's trace for every input outside the finding class
`ambiguousSetwise`.  Full statement (false because of D5): `∀ i, holds i (model i) = true`. -/
theorem holds_model_partial (i : Input) (h : amb i.m i.v = false) : holds i (model i) = true := by
  simp only [holds, clauses, List.all_cons, List.all_nil, Bool.and_true, Bool.and_eq_true]
  refine ⟨?_, ?_, ?_⟩
  · simp only [cSound, model]
    split
    · rfl
    · rename_i s hs
      rw [sound true i.m i.v s hs h]; simp
  · simp only [cDeterministic, model, beq_self_eq_true, Bool.true_and]
    cases hs : spec i.m i.v with
    | none => simp
    | some s => rw [sound true i.m i.v s hs h, sound false i.m i.v s hs h]; simp
  · simp [cPure, model]

/-! ## non-vacuity -/
-- an unambiguous MatchesSetwise input inside the domain, where the greedy algorithm has to skip a matcher
example : amb (.setwise [0, 1] [1, 0] [.leaf (.equals (.int 1)), .leaf (.equals (.int 2))]) (.list [.int 2, .int 1]) = false
    ∧ spec (.setwise [0, 1] [1, 0] [.leaf (.equals (.int 1)), .leaf (.equals (.int 2))]) (.list [.int 2, .int 1]) = some .match := by
  decide
-- a nested expression inside the domain with verdict mismatch; and a value outside the domain
example : spec (.all false [.leaf (.lessThan (.int 3)), .not (.leaf (.equals (.int 2)))]) (.int 2) = some .mismatch := by decide
example : spec (.leaf (.lessThan (.int 3))) (.str [97]) = none := by decide
-- the propagate rule of Raises
example : spec (.raises (.leaf (.excType [.valueError]))) (.fnRaise ⟨.keyboardInterrupt, 0⟩) = some (.raised .keyboardInterrupt) := by decide
example : setwiseFree (.dict .exact [0] [.allMatch (.leaf .always)]) = true := by decide

end TTV.Props.C06
