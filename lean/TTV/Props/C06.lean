import TTV.Model.Matchers
import TTV.Spec.C06
/-! # C06 — matcher verdicts obey their declared semantics (theorems: see below) -/
namespace TTV.Props.C06
open TTV.Matchers TTV.Spec.C06

end TTV.Props.C06
