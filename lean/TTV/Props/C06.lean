import Batteries.Data.List.Basic
import TTV.Model.Matchers
import TTV.Model.MatchSkel
import TTV.Generated.MatchSrc
import TTV.Spec.C06
/-! # C06 — matcher verdicts obey their declared semantics compositionally

Property theorems (kept apart from the model `TTV.Matchers` and the specification `TTV.Spec.C06`).
All statements are for **every** matcher expression (any depth and fan-out, arbitrary verdict tables for the
opaque leaves), every value and both set-iteration orders.

* `C06_sound`                  : in the documented domain `match()` returns the documented verdict (full strength)
* `C06_deterministic`          : the verdict does not depend on the build / hash-set order of the matchers
* `C06_setwise`                : `MatchesSetwise` matches iff a one-to-one pairing of values and matchers exists
* `C06_pure_deterministic`     : same object, same verdict; nothing is modified (by construction of the model)
* `C06_spec_not/all/any/allMatch/transparent`, `C06_sameMembers_perm`, `C06_keysEqual_perm`, `C06_spec_setwise_assignment` :
  what the specification says, as plain propositions (negation, ∧, ∨, ∀, ∃, `List.Perm`, ∃ one-to-one assignment)
* `C06_setwise_regression`     : the input that exhibited the repaired defect D5 (greedy pairing) matches in both builds
* `holds_model`                : the executable spec holds of the model's trace, for every input
-/
namespace TTV.Props.C06
open TTV.Matchers TTV.Spec.C06

/-! ## structural equality on values -/
mutual
theorem veq_iff : ∀ a b : V, veq a b = true ↔ a = b
  | .int a, b => by cases b <;> simp [veq]
  | .str a, b => by cases b <;> simp [veq]
  | .bytes a, b => by cases b <;> simp [veq]
  | .none, b => by cases b <;> simp [veq]
  | .list a, b => by cases b <;> simp [veq, veqL_iff a]
  | .tuple a, b => by cases b <;> simp [veq, veqL_iff a]
  | .dict ka va, b => by cases b <;> simp [veq, veqL_iff va]
  | .obj t ka va, b => by cases b <;> simp [veq, veqL_iff va, and_assoc]
  | .exc e i, b => by cases b <;> simp [veq]
  | .fnRet a, b => by cases b <;> simp [veq, veq_iff a]
  | .fnRaise e, b => by cases b <;> simp [veq]
theorem veqL_iff : ∀ a b : List V, veqL a b = true ↔ a = b
  | [], b => by cases b <;> simp [veqL]
  | x :: xs, b => by cases b <;> simp [veqL, veq_iff x, veqL_iff xs]
end

instance : DecidableEq V := fun a b =>
  if h : veq a b = true then isTrue ((veq_iff a b).mp h) else isFalse (fun e => h ((veq_iff a b).mpr e))

theorem veq_eq_decide (a b : V) : veq a b = decide (a = b) := by
  by_cases h : a = b
  · simp [h, (veq_iff b b).mpr rfl]
  · have : veq a b ≠ true := fun e => h ((veq_iff a b).mp e)
    simp [h, this]

/-! ## `SameMembers`: `list_subtract` both ways  ⇔  same multiplicities  ⇔  `List.Perm` -/
theorem eraseV_eq (x : V) (l : List V) : eraseV x l = l.erase x := by
  induction l with
  | nil => rfl
  | cons a as ih =>
    simp only [eraseV, List.erase_cons, veq_eq_decide, ih]
    by_cases h : a = x <;> simp [h]

theorem listSubtract_eq (a b : List V) : listSubtract a b = b.foldl (fun acc x => acc.erase x) a := by
  unfold listSubtract
  congr 1
  funext acc x
  exact eraseV_eq x acc

theorem count_listSubtract (x : V) (a b : List V) :
    (listSubtract a b).count x = a.count x - b.count x := by
  rw [listSubtract_eq]
  induction b generalizing a with
  | nil => simp
  | cons y ys ih =>
    simp only [List.foldl_cons, ih, List.count_erase, List.count_cons]
    by_cases h : y = x <;> simp [h] <;> omega

theorem listSubtract_isEmpty (a b : List V) :
    (listSubtract a b).isEmpty = true ↔ ∀ x, a.count x ≤ b.count x := by
  rw [List.isEmpty_iff]
  constructor
  · intro h x
    have := count_listSubtract x a b
    rw [h] at this
    simp at this
    omega
  · intro h
    apply List.eq_nil_iff_forall_not_mem.mpr
    intro x hx
    have h1 := count_listSubtract x a b
    have h2 := List.count_pos_iff.mpr hx
    have := h x
    omega

theorem countV_eq (x : V) (l : List V) : countV x l = l.count x := by
  unfold countV
  rw [List.count_eq_length_filter]
  congr 1
  apply List.filter_congr
  intro y _
  rw [veq_eq_decide]
  by_cases h : x = y
  · subst h; simp
  · have : ¬ y = x := fun e => h e.symm
    simp [h, this]

theorem sameCounts_iff (e xs : List V) :
    ((e ++ xs).all fun x => countV x e == countV x xs) = true ↔ ∀ x, e.count x = xs.count x := by
  simp only [List.all_eq_true, beq_iff_eq, countV_eq]
  constructor
  · intro h x
    by_cases hx : x ∈ e ++ xs
    · exact h x hx
    · simp only [List.mem_append, not_or] at hx
      rw [List.count_eq_zero_of_not_mem hx.1, List.count_eq_zero_of_not_mem hx.2]
  · intro h x _
    exact h x

/-- the code's test (both `list_subtract`s empty) is the documented one (equal multiplicities) -/
theorem sameMembers_impl_eq_spec (e xs : List V) :
    ((listSubtract e xs).isEmpty && (listSubtract xs e).isEmpty)
      = ((e ++ xs).all fun x => countV x e == countV x xs) := by
  rw [Bool.eq_iff_iff, Bool.and_eq_true, listSubtract_isEmpty, listSubtract_isEmpty, sameCounts_iff]
  constructor
  · rintro ⟨h1, h2⟩ x
    exact Nat.le_antisymm (h1 x) (h2 x)
  · intro h
    exact ⟨fun x => Nat.le_of_eq (h x), fun x => Nat.le_of_eq (h x).symm⟩

/-! ## replaying loops over Boolean verdicts -/
theorem seqAllAux_bools (fo bad : Bool) (bs : List Bool) :
    seqAllAux fo bad (bs.map Verdict.ofBool) = .ofBool (!bad && bs.all id) := by
  induction bs generalizing bad with
  | nil => cases bad <;> simp [seqAllAux, Verdict.ofBool]
  | cons b bs ih =>
    cases b <;> cases fo <;> cases bad <;> simp [seqAllAux, Verdict.ofBool, ih]

theorem seqAll_bools (fo : Bool) (bs : List Bool) :
    seqAll fo (bs.map Verdict.ofBool) = .ofBool (bs.all id) := by
  simp [seqAll, seqAllAux_bools]

theorem seqAny_bools (bs : List Bool) : seqAny (bs.map Verdict.ofBool) = .ofBool (bs.any id) := by
  induction bs with
  | nil => simp [seqAny, Verdict.ofBool]
  | cons b bs ih => cases b <;> simp [seqAny, Verdict.ofBool, ih]

theorem strictB_some {r : Option Verdict} {b : Bool} (h : strictB r = some b) : r = some (.ofBool b) := by
  match r, h with
  | some .match, h => simp [strictB] at h; simp [← h, Verdict.ofBool]
  | some .mismatch, h => simp [strictB] at h; simp [← h, Verdict.ofBool]

theorem bools_cons {r : Option Verdict} {rs : List (Option Verdict)} {bs : List Bool}
    (h : bools (r :: rs) = some bs) : ∃ b bs', bs = b :: bs' ∧ strictB r = some b ∧ bools rs = some bs' := by
  simp only [bools] at h
  split at h
  · rename_i b bs' hb hbs
    exact ⟨b, bs', by simpa using h.symm, hb, hbs⟩
  · simp at h

/-! ## leaves -/
theorem leaf_sound (l : Leaf) (v : V) (s : Verdict) (h : leafSpec l v = some s) : leafImpl l v = s := by
  cases l with
  | sameMembers e =>
    simp only [leafSpec] at h
    simp only [leafImpl]
    split at h
    · rename_i xs hxs
      simp only [hxs, sameMembers_impl_eq_spec]
      simpa using h
    · simp at h
  | raisesAny =>
    simp only [leafSpec] at h
    simp only [leafImpl]
    split at h <;> simp_all [callV]
  | _ =>
    simp only [leafSpec] at h
    split at h <;> simp_all

/-! ## soundness of `matchImpl` w.r.t. the documented semantics, by induction on the expression -/
theorem pyLen_of_pyIter {v : V} {xs : List V} (h : pyIter v = some xs) : pyLen v = some xs.length := by
  cases v <;> simp_all [pyIter, pyLen] <;> (subst h; simp)

theorem map_bools {f : V → Verdict} {g : V → Option Verdict} : ∀ {xs : List V} {bs : List Bool},
    bools (xs.map g) = some bs → (∀ x ∈ xs, ∀ s, g x = some s → f x = s) → xs.map f = bs.map Verdict.ofBool
  | [], bs, h, _ => by simp [bools] at h; simp [← h]
  | x :: xs, bs, h, hs => by
    obtain ⟨b, bs', rfl, hb, hbs⟩ := bools_cons h
    have := hs x List.mem_cons_self _ (strictB_some hb)
    simp only [List.map_cons, this, List.cons.injEq, true_and]
    exact map_bools hbs (fun y hy => hs y (List.mem_cons_of_mem _ hy))

theorem option_map_some {α β : Type} {f : α → β} {o : Option α} {b : β} (h : o.map f = some b) :
    ∃ a, o = some a ∧ f a = b := by
  cases o <;> simp_all

theorem allSome_map {α : Type} (d : α) {f : V → Option α} : ∀ {xs : List V} {ys : List α},
    allSome (xs.map f) = some ys →
      ys = xs.map (fun x => (f x).getD d) ∧ ∀ x ∈ xs, f x = some ((f x).getD d)
  | [], ys, h => by simp [allSome] at h; simp [← h]
  | x :: xs, ys, h => by
    simp only [List.map_cons] at h
    cases hx : f x with
    | none => simp [hx, allSome] at h
    | some a =>
      simp only [hx, allSome] at h
      obtain ⟨ys', hys', rfl⟩ := option_map_some h
      obtain ⟨h1, h2⟩ := allSome_map d hys'
      refine ⟨by simp [hx, ← h1], ?_⟩
      intro y hy
      rcases List.mem_cons.mp hy with rfl | hy
      · simp [hx]
      · exact h2 y hy

theorem seqAllAux_noraise (bad : Bool) : ∀ (l : List Verdict), (∀ r ∈ l, ∃ b, r = Verdict.ofBool b) →
    seqAllAux false bad l = .ofBool (!bad && l.all (· == .match))
  | [], _ => by cases bad <;> simp [seqAllAux, Verdict.ofBool]
  | r :: rs, h => by
    obtain ⟨b, rfl⟩ := h r List.mem_cons_self
    have ih := fun bad => seqAllAux_noraise bad rs (fun r hr => h r (List.mem_cons_of_mem _ hr))
    cases b <;> cases bad <;> simp [seqAllAux, Verdict.ofBool, ih]

theorem somes_eq_filterMap (l : List (Option Verdict)) : somes l = l.filterMap id := by
  induction l with
  | nil => rfl
  | cons a l ih => cases a <;> simp [somes, ih]

theorem insertKey_perm {α : Type} (x : Nat × α) (l : List (Nat × α)) :
    (insertKey x l).Perm (x :: l) := by
  induction l with
  | nil => simp [insertKey]
  | cons y ys ih =>
    simp only [insertKey]
    split
    · exact List.Perm.refl _
    · exact (List.Perm.cons y ih).trans (List.Perm.swap x y ys)

theorem sortKey_perm {α : Type} (l : List (Nat × α)) : (sortKey l).Perm l := by
  induction l with
  | nil => simp [sortKey]
  | cons x xs ih => exact (insertKey_perm x _).trans (List.Perm.cons x ih)

/-- shape of `matchZip`: a position has no result exactly where it has no value -/
theorem matchZip_shape (sel : Bool) : ∀ (ms : List M) (vs : List (Option V)), ms.length = vs.length →
    (matchZip sel ms vs).length = vs.length ∧
    (matchZip sel ms vs).any Option.isNone = vs.any Option.isNone
  | [], [], _ => by simp [matchZip]
  | [], _ :: _, h => by simp at h
  | _ :: _, [], h => by simp at h
  | m :: ms, none :: vs, h => by
    have := matchZip_shape sel ms vs (by simpa using h)
    simp [matchZip, this.1, this.2]
  | m :: ms, some v :: vs, h => by
    have := matchZip_shape sel ms vs (by simpa using h)
    simp [matchZip, this.1, this.2]

theorem firstRaise_bools : ∀ (l : List Verdict), (∀ r ∈ l, ∃ b, r = Verdict.ofBool b) → firstRaise l = none
  | [], _ => rfl
  | r :: rs, h => by
    obtain ⟨b, rfl⟩ := h r List.mem_cons_self
    have ih := firstRaise_bools rs (fun x hx => h x (List.mem_cons_of_mem _ hx))
    cases b <;> simp [firstRaise, Verdict.ofBool, ih]

theorem isMatch_ofBool (bs : List Bool) : (bs.map Verdict.ofBool).map Verdict.isMatch = bs := by
  induction bs with
  | nil => rfl
  | cons b bs ih => cases b <;> simp_all [Verdict.ofBool, Verdict.isMatch]

/-- `MatchesSetwise`: when every (value, matcher) pair has a Boolean documented verdict and the parts are
sound, the code's verdict is the documented one: a one-to-one pairing exists -/
theorem setwise_sound (sel : Bool) (ms : List M) (v : V) (s : Verdict)
    (hrow : ∀ x bs, bools (specRow ms x) = some bs → matchRow sel ms x = bs.map Verdict.ofBool)
    (h : (match pyIter v with
      | none => none
      | some xs => (allSome (xs.map fun x => bools (specRow ms x))).map fun matrix =>
          Verdict.ofBool (assignB matrix (List.range ms.length))) = some s) :
    setwiseImpl (fun x => matchRow sel ms x) ms.length v = s := by
  unfold setwiseImpl
  cases hv : pyIter v with
  | none => simp [hv] at h
  | some xs =>
    simp only [hv] at h ⊢
    obtain ⟨matrix, hm, rfl⟩ := option_map_some h
    obtain ⟨hmat, hrows⟩ := allSome_map [] hm
    have hmap : xs.map (fun x => matchRow sel ms x)
        = xs.map (fun x => ((bools (specRow ms x)).getD []).map Verdict.ofBool) := by
      apply List.map_congr_left
      intro x hx
      exact hrow x _ (hrows x hx)
    rw [hmap]
    have hnr : firstRaise (xs.map fun x => ((bools (specRow ms x)).getD []).map Verdict.ofBool).flatten = none := by
      apply firstRaise_bools
      intro r hr
      obtain ⟨row, hrow', hr'⟩ := List.mem_flatten.mp hr
      obtain ⟨x, _, rfl⟩ := List.mem_map.mp hrow'
      obtain ⟨b, _, rfl⟩ := List.mem_map.mp hr'
      exact ⟨b, rfl⟩
    have hisM : ∀ bs : List Bool, bs.map (fun b => (Verdict.ofBool b).isMatch) = bs := by
      intro bs; simpa [List.map_map, Function.comp_def] using isMatch_ofBool bs
    simp only [hnr, List.map_map, Function.comp_def, hisM]
    rw [hmat]

theorem keyCond_eq (kind : DictKind) (ks oks : List Key) :
    keyCond kind ks oks = !(match kind with
      | .exact => oks.any (fun k => !ks.contains k) || ks.any (fun k => !oks.contains k)
      | .contains => ks.any (fun k => !oks.contains k)
      | .containedBy => oks.any (fun k => !ks.contains k)) := by
  cases kind <;> simp only [keyCond, subsetB, Bool.not_or, List.not_any_eq_all_not, Bool.not_not, Bool.and_comm]

mutual
theorem sound (sel : Bool) : ∀ (m : M) (v : V) (s : Verdict),
    spec m v = some s → matchImpl sel m v = s
  | .leaf l, v, s, h => by
    simp only [spec] at h
    simp only [matchImpl]
    exact leaf_sound l v s h
  | .excTypeV cs vm, v, s, h => by
    simp only [spec] at h
    simp only [matchImpl]
    split at h
    · rename_i e
      simp only
      split at h
      · rename_i hm
        obtain ⟨b, hb, rfl⟩ := option_map_some h
        simp only [hm, ↓reduceIte]
        exact sound sel vm _ _ (strictB_some hb)
      · rename_i hm
        simp only [Bool.not_eq_true] at hm
        simp_all
    · simp at h
    · rename_i h1 h2
      simp only [Option.some.injEq] at h
      subst h
      split
      · rename_i e; exact absurd rfl (h1 e)
      · rename_i xs; exact absurd rfl (h2 xs)
      · rfl
  | .raises em, v, s, h => by
    simp only [spec] at h
    simp only [matchImpl]
    split at h
    · simp_all [callV]
    · rename_i e
      simp only [callV]
      split at h
      · rename_i hb
        rw [sound sel em _ _ (strictB_some hb)]
        simp only [Option.some.injEq] at h
        subst h
        simp [Verdict.ofBool]
      · rename_i hb
        rw [sound sel em _ _ (strictB_some hb)]
        simp only [Verdict.ofBool, Bool.false_eq_true, ↓reduceIte]
        simp_all
      · simp at h
    · simp at h
  | .not m, v, s, h => by
    simp only [spec] at h
    simp only [matchImpl]
    obtain ⟨b, hb, rfl⟩ := option_map_some h
    rw [sound sel m v _ (strictB_some hb)]
    cases b <;> simp [Verdict.ofBool]
  | .all fo ms, v, s, h => by
    simp only [spec] at h
    simp only [matchImpl]
    obtain ⟨bs, hb, rfl⟩ := option_map_some h
    rw [soundRow sel ms v bs hb, seqAll_bools]
  | .any ms, v, s, h => by
    simp only [spec] at h
    simp only [matchImpl]
    obtain ⟨bs, hb, rfl⟩ := option_map_some h
    rw [soundRow sel ms v bs hb, seqAny_bools]
  | .allMatch m, v, s, h => by
    simp only [spec] at h
    simp only [matchImpl]
    cases hv : pyIter v with
    | none => simp [hv] at h
    | some xs =>
      simp only [hv] at h ⊢
      obtain ⟨bs, hb, rfl⟩ := option_map_some h
      rw [map_bools hb (fun x _ s hs => sound sel m x s hs), seqAll_bools]
  | .anyMatch m, v, s, h => by
    simp only [spec] at h
    simp only [matchImpl]
    cases hv : pyIter v with
    | none => simp [hv] at h
    | some xs =>
      simp only [hv] at h ⊢
      obtain ⟨bs, hb, rfl⟩ := option_map_some h
      rw [map_bools hb (fun x _ s hs => sound sel m x s hs), seqAny_bools]
  | .listwise fo ms, v, s, h => by
    simp only [spec] at h
    simp only [matchImpl]
    cases hv : pyIter v with
    | none => simp [hv] at h
    | some xs =>
      simp only [hv] at h ⊢
      obtain ⟨bs, hb, rfl⟩ := option_map_some h
      rw [soundZip sel ms _ bs hb]
      simp only [listwiseImpl, pyLen_of_pyIter hv, seqAllAux_bools]
      simp [bne]
  | .setwise ka kb ms, v, s, h => by
    simp only [spec] at h
    simp only [matchImpl]
    exact setwise_sound sel ms v s (fun x bs hb => soundRow sel ms x bs hb) h
  | .structure attrs ms, v, s, h => by
    simp only [spec] at h
    simp only [matchImpl]
    split at h
    · simp at h
    · rename_i hc
      simp only [Bool.or_eq_true, bne_iff_ne, ne_eq, not_or, Decidable.not_not, Bool.not_eq_true] at hc
      obtain ⟨bs, hb, rfl⟩ := option_map_some h
      have hz := soundZip sel ms _ bs hb
      have hshape := matchZip_shape sel ms (attrs.map (getAttr v)) (by simp [hc.1])
      unfold structImpl
      rw [hshape.2, hc.2, hshape.1]
      simp only [List.length_map, bne_self_eq_false, Bool.or_self, Bool.false_eq_true, ↓reduceIte, seqAll]
      have hperm : (somes ((sortKey (attrs.zip (matchZip sel ms (attrs.map (getAttr v))))).map (·.2))).Perm
          (bs.map Verdict.ofBool) := by
        rw [somes_eq_filterMap, ← hz, somes_eq_filterMap]
        apply List.Perm.filterMap
        refine ((sortKey_perm _).map _).trans ?_
        rw [List.map_snd_zip]
        · simp [hshape.1]
      rw [seqAllAux_noraise false _ (fun r hr => by
        have := hperm.mem_iff.mp hr
        simp only [List.mem_map] at this
        obtain ⟨b, _, rfl⟩ := this
        exact ⟨b, rfl⟩)]
      rw [hperm.all_eq]
      congr 1
      simp only [Bool.not_false, Bool.true_and, List.all_map]
      congr 1
      funext b
      cases b <;> simp [Verdict.ofBool]
  | .dict kind ks ms, v, s, h => by
    simp only [spec] at h
    simp only [matchImpl]
    split at h
    · rename_i oks ovs
      simp only
      split at h
      · simp at h
      · obtain ⟨bs, hb, rfl⟩ := option_map_some h
        simp only [dictImpl]
        rw [soundZip sel ms _ bs hb, seqAllAux_bools, keyCond_eq]
        cases kind <;> rfl
    · simp at h
  | .annotate m, v, s, h => by
    simp only [spec] at h
    simp only [matchImpl]
    exact sound sel m v s h
  | .after f a m, v, s, h => by
    simp only [spec] at h
    simp only [matchImpl]
    cases hp : applyPre f v with
    | error c => simp [hp] at h
    | ok w =>
      simp only [hp] at h ⊢
      exact sound sel m w s h
theorem soundRow (sel : Bool) : ∀ (ms : List M) (v : V) (bs : List Bool),
    bools (specRow ms v) = some bs → matchRow sel ms v = bs.map Verdict.ofBool
  | [], v, bs, h => by simp [specRow, bools] at h; simp [matchRow, ← h]
  | m :: ms, v, bs, h => by
    simp only [specRow] at h
    obtain ⟨b, bs', rfl, hb, hbs⟩ := bools_cons h
    simp only [matchRow, List.map_cons]
    rw [sound sel m v _ (strictB_some hb), soundRow sel ms v bs' hbs]
theorem soundZip (sel : Bool) : ∀ (ms : List M) (vs : List (Option V)) (bs : List Bool),
    bools (specZip ms vs) = some bs → somes (matchZip sel ms vs) = bs.map Verdict.ofBool
  | [], vs, bs, h => by simp [specZip, bools] at h; simp [matchZip, somes, ← h]
  | _ :: _, [], bs, h => by simp [specZip, bools] at h; simp [matchZip, somes, ← h]
  | m :: ms, none :: vs, bs, h => by
    simp only [specZip] at h
    simp only [matchZip, somes]
    exact soundZip sel ms vs bs h
  | m :: ms, some v :: vs, bs, h => by
    simp only [specZip] at h
    obtain ⟨b, bs', rfl, hb, hbs⟩ := bools_cons h
    simp only [matchZip, somes, List.map_cons]
    rw [sound sel m v _ (strictB_some hb), soundZip sel ms vs bs' hbs]
end

/-! # The property theorems -/

/-- **C06 (soundness).**  For every matcher expression (any depth; all stock matchers and combinators,
`MatchesSetwise` included; leaves whose meaning lives in another library as arbitrary predicate tables),
every value in the documented domain (`spec m v = some s`) and either build of the expression:
`match()` returns exactly the documented verdict. -/
theorem C06_sound (sel : Bool) (m : M) (v : V) (s : Verdict) (hdom : spec m v = some s) :
    matchImpl sel m v = s :=
  sound sel m v s hdom

/-- **C06 (determinism across builds / hash-set orders)**: in the documented domain the verdict does not
depend on how the set of matchers of a `MatchesSetwise` happens to iterate. -/
theorem C06_deterministic (m : M) (v : V) (hdom : (spec m v).isSome = true) :
    matchImpl true m v = matchImpl false m v := by
  obtain ⟨s, hs⟩ := Option.isSome_iff_exists.mp hdom
  rw [sound true m v s hs, sound false m v s hs]

/-- **C06 (`MatchesSetwise`)**: with every (value, matcher) pair inside the domain, the verdict is a match
exactly when a one-to-one pairing of all values with all matchers exists (`C06_spec_setwise_assignment`
reads `assignB` as the existence of such a pairing). -/
theorem C06_setwise (sel : Bool) (ka kb : List Nat) (ms : List M) (v : V) (xs : List V) (matrix : List (List Bool))
    (hv : pyIter v = some xs) (hm : allSome (xs.map fun x => bools (specRow ms x)) = some matrix) :
    matchImpl sel (.setwise ka kb ms) v = .ofBool (assignB matrix (List.range ms.length)) :=
  sound sel _ v _ (by simp [spec, hv, hm])

/-- **C06 (determinism and purity of the model)**: calling `match()` again on the same matcher object
gives the same verdict, and nothing is modified — by construction (`matchImpl` is a function of the
expression, the value and the set order, and has no state to modify). -/
theorem C06_pure_deterministic (i : Input) :
    (model i).again = (model i).first ∧ (model i).pureM = true ∧ (model i).pureV = true :=
  ⟨rfl, rfl, rfl⟩

/-! ## what the specification says (readings of `spec` as plain propositions) -/

theorem bools_iff : ∀ {rs : List (Option Verdict)}, (∀ r ∈ rs, ∃ b, r = some (Verdict.ofBool b)) →
    ∃ bs, bools rs = some bs ∧ (bs.all id = true ↔ ∀ r ∈ rs, r = some Verdict.match) ∧
      (bs.any id = true ↔ ∃ r ∈ rs, r = some Verdict.match)
  | [], _ => ⟨[], by simp [bools]⟩
  | r :: rs, h => by
    obtain ⟨b, rfl⟩ := h r List.mem_cons_self
    obtain ⟨bs, hbs, hall, hany⟩ := bools_iff (rs := rs) (fun r hr => h r (List.mem_cons_of_mem _ hr))
    refine ⟨b :: bs, ?_, ?_, ?_⟩
    · cases b <;> simp [bools, strictB, Verdict.ofBool, hbs]
    · cases b <;> simp [Verdict.ofBool, hall]
    · cases b <;> simp [Verdict.ofBool, hany]

theorem specRow_mem : ∀ {ms : List M} {v : V} {r : Option Verdict}, r ∈ specRow ms v ↔ ∃ m ∈ ms, r = spec m v
  | [], v, r => by simp [specRow]
  | m :: ms, v, r => by simp [specRow, specRow_mem (ms := ms)]

/-- `Not` negates. -/
theorem C06_spec_not (m : M) (v : V) (b : Bool) (h : spec m v = some (.ofBool b)) :
    spec (.not m) v = some (.ofBool (!b)) := by
  cases b <;> simp [spec, h, strictB, Verdict.ofBool]

/-- `MatchesAll` is the conjunction of its parts (the empty conjunction matches). -/
theorem C06_spec_all (fo : Bool) (ms : List M) (v : V) (hparts : ∀ m ∈ ms, ∃ b, spec m v = some (.ofBool b)) :
    ∃ b, spec (.all fo ms) v = some (.ofBool b) ∧ (b = true ↔ ∀ m ∈ ms, spec m v = some .match) := by
  obtain ⟨bs, hbs, hall, _⟩ := bools_iff (rs := specRow ms v) (by
    intro r hr
    obtain ⟨m, hm, rfl⟩ := specRow_mem.mp hr
    exact hparts m hm)
  refine ⟨bs.all id, by simp [spec, hbs], ?_⟩
  rw [hall]
  constructor
  · intro h m hm; exact (h _ (specRow_mem.mpr ⟨m, hm, rfl⟩))
  · intro h r hr; obtain ⟨m, hm, rfl⟩ := specRow_mem.mp hr; exact h m hm

/-- `MatchesAny` is the disjunction of its parts (the empty disjunction mismatches). -/
theorem C06_spec_any (ms : List M) (v : V) (hparts : ∀ m ∈ ms, ∃ b, spec m v = some (.ofBool b)) :
    ∃ b, spec (.any ms) v = some (.ofBool b) ∧ (b = true ↔ ∃ m ∈ ms, spec m v = some .match) := by
  obtain ⟨bs, hbs, _, hany⟩ := bools_iff (rs := specRow ms v) (by
    intro r hr
    obtain ⟨m, hm, rfl⟩ := specRow_mem.mp hr
    exact hparts m hm)
  refine ⟨bs.any id, by simp [spec, hbs], ?_⟩
  rw [hany]
  constructor
  · rintro ⟨r, hr, rfl⟩; obtain ⟨m, hm, h⟩ := specRow_mem.mp hr; exact ⟨m, hm, h.symm⟩
  · rintro ⟨m, hm, h⟩; exact ⟨_, specRow_mem.mpr ⟨m, hm, rfl⟩, h⟩

/-- `AllMatch` / `AnyMatch` quantify over the elements of the matchee. -/
theorem C06_spec_allMatch (m : M) (v : V) (xs : List V) (hv : pyIter v = some xs)
    (hparts : ∀ x ∈ xs, ∃ b, spec m x = some (.ofBool b)) :
    (∃ b, spec (.allMatch m) v = some (.ofBool b) ∧ (b = true ↔ ∀ x ∈ xs, spec m x = some .match)) ∧
    (∃ b, spec (.anyMatch m) v = some (.ofBool b) ∧ (b = true ↔ ∃ x ∈ xs, spec m x = some .match)) := by
  obtain ⟨bs, hbs, hall, hany⟩ := bools_iff (rs := xs.map (spec m)) (by
    intro r hr
    obtain ⟨x, hx, rfl⟩ := List.mem_map.mp hr
    exact hparts x hx)
  refine ⟨⟨bs.all id, by simp [spec, hv, hbs], ?_⟩, ⟨bs.any id, by simp [spec, hv, hbs], ?_⟩⟩
  · rw [hall]; simp
  · rw [hany]; simp

/-- `Annotate` keeps the inner verdict; `AfterPreprocessing` is the inner matcher on the transformed value. -/
theorem C06_spec_transparent (m : M) (v w : V) (f : PreFn) (a : Bool) (hf : applyPre f v = .ok w) :
    spec (.annotate m) v = spec m v ∧ spec (.after f a m) v = spec m w := by
  simp [spec, hf]

theorem specZip_mem : ∀ {ms : List M} {xs : List V} {r : Option Verdict},
    r ∈ specZip ms (xs.map some) ↔ ∃ p ∈ ms.zip xs, r = spec p.1 p.2
  | [], xs, r => by simp [specZip]
  | _ :: _, [], r => by simp [specZip]
  | m :: ms, x :: xs, r => by simp [specZip, specZip_mem (ms := ms) (xs := xs)]

/-- `MatchesListwise` is positional with equal length. -/
theorem C06_spec_listwise (fo : Bool) (ms : List M) (v : V) (xs : List V) (hv : pyIter v = some xs)
    (hparts : ∀ p ∈ ms.zip xs, ∃ b, spec p.1 p.2 = some (.ofBool b)) :
    ∃ b, spec (.listwise fo ms) v = some (.ofBool b) ∧
      (b = true ↔ xs.length = ms.length ∧ ∀ p ∈ ms.zip xs, spec p.1 p.2 = some .match) := by
  obtain ⟨bs, hbs, hall, _⟩ := bools_iff (rs := specZip ms (xs.map some)) (by
    intro r hr
    obtain ⟨p, hp, rfl⟩ := specZip_mem.mp hr
    exact hparts p hp)
  refine ⟨xs.length == ms.length && bs.all id, by simp [spec, hv, hbs], ?_⟩
  rw [Bool.and_eq_true, hall, beq_iff_eq]
  constructor
  · rintro ⟨h1, h2⟩; exact ⟨h1, fun p hp => h2 _ (specZip_mem.mpr ⟨p, hp, rfl⟩)⟩
  · rintro ⟨h1, h2⟩
    refine ⟨h1, fun r hr => ?_⟩
    obtain ⟨p, hp, rfl⟩ := specZip_mem.mp hr
    exact h2 p hp

/-- `MatchesDict` / `ContainsDict` / `ContainedByDict`: exact / super / sub key sets. -/
theorem C06_spec_dict_keys (kind : DictKind) (ks oks : List Key) :
    keyCond kind ks oks = true ↔
      (match kind with
       | .exact => (∀ k ∈ ks, k ∈ oks) ∧ (∀ k ∈ oks, k ∈ ks)
       | .contains => ∀ k ∈ ks, k ∈ oks
       | .containedBy => ∀ k ∈ oks, k ∈ ks) := by
  cases kind <;> simp [keyCond, subsetB]

/-- … with per-key matchers on the common keys. -/
theorem C06_spec_dict (kind : DictKind) (ks : List Key) (ms : List M) (oks : List Key) (ovs : List V)
    (bs : List Bool) (hlen : ks.length = ms.length)
    (hparts : bools (specZip ms (ks.map fun k => lookupK k oks ovs)) = some bs) :
    spec (.dict kind ks ms) (.dict oks ovs) = some (.ofBool (keyCond kind ks oks && bs.all id)) := by
  simp [spec, hlen, hparts]

/-- `KeysEqual`: the keys of the dict are exactly the expected keys (as multisets — no order on the keys is
needed, they may be of types that cannot be compared with each other). -/
theorem C06_keysEqual_perm (sel : Bool) (ks oks : List Key) (ovs : List V) :
    matchImpl sel (.leaf (.keysEqual ks)) (.dict oks ovs) = .match ↔ ks.Perm oks := by
  simp only [matchImpl, leafImpl, sameKeys]
  rw [List.perm_iff_count]
  have : ((ks ++ oks).all fun k => ks.count k == oks.count k) = true ↔ ∀ k, ks.count k = oks.count k := by
    simp only [List.all_eq_true, beq_iff_eq]
    constructor
    · intro h k
      by_cases hk : k ∈ ks ++ oks
      · exact h k hk
      · simp only [List.mem_append, not_or] at hk
        rw [List.count_eq_zero_of_not_mem hk.1, List.count_eq_zero_of_not_mem hk.2]
    · intro h k _; exact h k
  cases hb : ((ks ++ oks).all fun k => ks.count k == oks.count k) <;> simp_all [Verdict.ofBool]

/-- `SameMembers`: the matchee is a permutation of the expected list (same members, same repetitions). -/
theorem C06_sameMembers_perm (sel : Bool) (e xs : List V) :
    matchImpl sel (.leaf (.sameMembers e)) (.list xs) = .match ↔ e.Perm xs := by
  simp only [matchImpl, leafImpl, pyIter, sameMembers_impl_eq_spec]
  rw [List.perm_iff_count]
  have := sameCounts_iff e xs
  cases h : ((e ++ xs).all fun x => countV x e == countV x xs) <;> simp_all [Verdict.ofBool]

/-- `MatchesSetwise` (specification): a one-to-one assignment `p` of the values to the matcher indices
exists — `p` is a permutation of the indices, value `k` is accepted by matcher `p[k]`. -/
theorem C06_spec_setwise_assignment (rows : List (List Bool)) : ∀ (rem : List Nat),
    assignB rows rem = true ↔
      ∃ p : List Nat, p.Perm rem ∧ List.Forall₂ (fun row i => row.getD i false = true) rows p := by
  induction rows with
  | nil =>
    intro rem
    simp only [assignB, List.isEmpty_iff]
    constructor
    · rintro rfl; exact ⟨[], List.Perm.refl _, List.Forall₂.nil⟩
    · rintro ⟨p, hp, hf⟩
      cases hf
      exact List.perm_nil.mp hp.symm
  | cons row rows ih =>
    intro rem
    simp only [assignB, List.any_eq_true, Bool.and_eq_true]
    constructor
    · rintro ⟨i, hi, hrow, hrest⟩
      obtain ⟨p, hp, hf⟩ := (ih _).mp hrest
      exact ⟨i :: p, (List.Perm.cons i hp).trans (List.perm_cons_erase hi).symm, List.Forall₂.cons hrow hf⟩
    · rintro ⟨p, hp, hf⟩
      cases hf with
      | cons hrow hf =>
        rename_i i p'
        have hi : i ∈ rem := hp.mem_iff.mp List.mem_cons_self
        refine ⟨i, hi, hrow, (ih _).mpr ⟨p', ?_, hf⟩⟩
        exact List.Perm.cons_inv (hp.trans (List.perm_cons_erase hi))

/-! ## the repaired defect D5 (greedy pairing in set-iteration order): regression witnesses -/
def witnessM : M :=
  .setwise [0, 1] [1, 0] [.any [.leaf (.equals (.int 1)), .leaf (.equals (.int 2))], .leaf (.equals (.int 1))]
def witnessV : V := .list [.int 1, .int 2]

/-- `MatchesSetwise(MatchesAny(Equals(1), Equals(2)), Equals(1))` on `[1, 2]`: a one-to-one pairing
exists; the greedy code said mismatch whenever the set iterated `MatchesAny` first.  Both builds match. -/
theorem C06_setwise_regression :
    spec witnessM witnessV = some .match ∧
    matchImpl true witnessM witnessV = .match ∧ matchImpl false witnessM witnessV = .match := by
  decide

/-! ## headline -/
/-- The executable specification holds of the model's trace, for every input. -/
theorem holds_model (i : Input) : holds i (model i) = true := by
  simp only [holds, clauses, List.all_cons, List.all_nil, Bool.and_true, Bool.and_eq_true]
  refine ⟨?_, ?_, ?_⟩
  · simp only [cSound, model]
    split
    · rfl
    · rename_i s hs
      rw [sound true i.m i.v s hs]; simp
  · simp only [cDeterministic, model, beq_self_eq_true, Bool.true_and]
    cases hs : spec i.m i.v with
    | none => simp
    | some s => rw [sound true i.m i.v s hs, sound false i.m i.v s hs]; simp
  · simp [cPure, model]


/-! # source ties: the model is the interpretation of what `harness/pymatch2lean.py` finds in the tree

`TTV.Generated.MatchSrc` is rewritten from `testtools/matchers/*.py` on every run.  Each `C06_src_*` theorem states
(1) the generated data equals the reference data (`decide`), and/or (2) the hand-written `matchImpl` clause is the
interpretation (`TTV.MatchSkel.*I`) of the generated data. -/
section SourceTies
open TTV.MatchSkel TTV.Generated

theorem loopI_refAny (fo any : Bool) (rs : List Verdict) : loopI refAny fo any rs = seqAny rs := by
  unfold refAny
  induction rs generalizing any with
  | nil => simp [loopI, seqAny]
  | cons r rs ih => cases r <;> simp [loopI, firstArm, ResTest.holds, seqAny, ih]

theorem loopI_refAll (fo bad : Bool) (rs : List Verdict) : loopI refAll fo bad rs = seqAllAux fo bad rs := by
  unfold refAll
  induction rs generalizing bad with
  | nil => cases bad <;> simp [loopI, seqAllAux]
  | cons r rs ih => cases r <;> cases fo <;> simp [loopI, firstArm, ResTest.holds, seqAllAux, ih]

theorem loopI_refAllMatch (fo bad : Bool) (rs : List Verdict) : loopI refAllMatch fo bad rs = seqAllAux false bad rs := by
  unfold refAllMatch
  induction rs generalizing bad with
  | nil => cases bad <;> simp [loopI, seqAllAux]
  | cons r rs ih => cases r <;> simp [loopI, firstArm, ResTest.holds, seqAllAux, ih]

theorem loopI_refAnyMatch (fo any : Bool) (rs : List Verdict) : loopI refAnyMatch fo any rs = seqAny rs := by
  unfold refAnyMatch
  induction rs generalizing any with
  | nil => simp [loopI, seqAny]
  | cons r rs ih => cases r <;> simp [loopI, firstArm, ResTest.holds, seqAny, ih]

theorem loopI_refListwise (fo bad : Bool) (rs : List Verdict) : loopI refListwise.loop fo bad rs = seqAllAux fo bad rs := by
  simp only [refListwise]
  induction rs generalizing bad with
  | nil => cases bad <;> simp [loopI, seqAllAux]
  | cons r rs ih => cases r <;> cases fo <;> simp [loopI, firstArm, ResTest.holds, seqAllAux, ih]

/-- the four result loops of `_higherorder.py` as found in the source -/
theorem C06_src_loops :
    MatchSrc.matchesAny = refAny ∧ MatchSrc.matchesAll = refAll ∧ MatchSrc.allMatch = refAllMatch ∧
    MatchSrc.anyMatch = refAnyMatch := by decide

/-- `MatchesAny` / `MatchesAll`: the model's clauses are the source's loops run over the sub-results -/
theorem C06_src_matchesAny (sel : Bool) (ms : List M) (v : V) :
    matchImpl sel (.any ms) v = loopI MatchSrc.matchesAny false false (matchRow sel ms v) := by
  rw [C06_src_loops.1, loopI_refAny]; simp [matchImpl]
theorem C06_src_matchesAll (sel fo : Bool) (ms : List M) (v : V) :
    matchImpl sel (.all fo ms) v = loopI MatchSrc.matchesAll fo false (matchRow sel ms v) := by
  rw [C06_src_loops.2.1, loopI_refAll]; simp [matchImpl, seqAll]
/-- `AllMatch` / `AnyMatch` -/
theorem C06_src_allMatch (sel : Bool) (m : M) (v : V) :
    matchImpl sel (.allMatch m) v = (match pyIter v with
      | none => .raised .typeError
      | some xs => loopI MatchSrc.allMatch false false (xs.map (matchImpl sel m))) := by
  rw [C06_src_loops.2.2.1]; simp only [matchImpl, loopI_refAllMatch, seqAll]
  cases pyIter v <;> rfl
theorem C06_src_anyMatch (sel : Bool) (m : M) (v : V) :
    matchImpl sel (.anyMatch m) v = (match pyIter v with
      | none => .raised .typeError
      | some xs => loopI MatchSrc.anyMatch false false (xs.map (matchImpl sel m))) := by
  rw [C06_src_loops.2.2.2]; simp only [matchImpl, loopI_refAnyMatch]
  cases pyIter v <;> rfl

/-- no class of `testtools/matchers/*.py` overrides truthiness (`__bool__` / `__len__`): a stock mismatch object is truthy, so the
`truthy` / `falsy` tests of the loops above read as `ResTest.holds` says -/
theorem C06_src_mismatch_truthy : MatchSrc.mismatch.truthOverrides = [] := by decide

/-- `Not`, `Annotate`: the test on the inner result and what is returned -/
theorem C06_src_wrappers : MatchSrc.notM = refNot ∧ MatchSrc.annotate = refAnnotate ∧
    MatchSrc.afterPreprocessing = refAfter ∧ MatchSrc.matchesPredicate = refPredicate ∧
    MatchSrc.matchesPredicateWithParams = refPredicate := by decide
theorem C06_src_not (sel : Bool) (m : M) (v : V) :
    matchImpl sel (.not m) v = wrapI MatchSrc.notM (matchImpl sel m v) := by
  rw [C06_src_wrappers.1]
  simp only [matchImpl]
  cases matchImpl sel m v <;> simp [wrapI, refNot, ResTest.holds, WrapRet.verdict]
theorem C06_src_annotate (sel : Bool) (m : M) (v : V) :
    matchImpl sel (.annotate m) v = wrapI MatchSrc.annotate (matchImpl sel m v) := by
  rw [C06_src_wrappers.2.1]
  simp only [matchImpl]
  cases matchImpl sel m v <;> simp [wrapI, refAnnotate, ResTest.holds, WrapRet.verdict]

/-- `_BinaryComparison.match` and the operator table of its five subclasses -/
theorem C06_src_binary_table : MatchSrc.binaryComparison = refBin := by decide
theorem C06_src_binary (e v : V) :
    leafImpl (.equals e) v = binI MatchSrc.binaryComparison "Equals" e v ∧
    leafImpl (.notEquals e) v = binI MatchSrc.binaryComparison "NotEquals" e v ∧
    leafImpl (.is_ e) v = binI MatchSrc.binaryComparison "Is" e v ∧
    leafImpl (.lessThan e) v = binI MatchSrc.binaryComparison "LessThan" e v ∧
    leafImpl (.greaterThan e) v = binI MatchSrc.binaryComparison "GreaterThan" e v := by
  rw [C06_src_binary_table]
  refine ⟨?_, ?_, ?_, ?_, ?_⟩ <;> simp [leafImpl, binI, rowOf, refBin, cmpI]
  · cases pyLt v e <;> rfl
  · cases pyLt e v <;> rfl

/-- `MatchesListwise`: the length check comes first and is collected, then the positional loop -/
theorem C06_src_listwise_skel : MatchSrc.matchesListwise = refListwise := by decide
theorem C06_src_listwise (fo : Bool) (n : Nat) (rs : List Verdict) (v : V) :
    listwiseImpl fo n rs v = (match pyLen v with
      | none => .raised .typeError
      | some len => loopI MatchSrc.matchesListwise.loop fo (len != n) rs) := by
  rw [C06_src_listwise_skel]
  simp only [listwiseImpl, loopI_refListwise]
  cases pyLen v <;> rfl

/-- `MatchesStructure` (attributes in sorted order, each read before anything is matched, then `MatchesListwise`),
`MatchesSetwise` (every occurrence of a matcher counts, value-major acceptance matrix tested with `is None`, an
augmenting-path pairing, a mismatch iff something is left over), `ContainsAll` -/
theorem C06_src_datastructures : MatchSrc.matchesStructure = refStructure ∧ MatchSrc.matchesSetwise = refSetwise ∧
    MatchSrc.containsAll = refContainsAll := by decide

/-- the dict matchers: which of extra / missing / differences each class reports, in which order; no short-circuit;
a part is kept iff truthy; `KeysEqual` decides by both subtractions -/
theorem C06_src_dict_skel : MatchSrc.dictMatchers = refDict := by decide
theorem C06_src_dict (kind : DictKind) (ks : List Key) (diffs : List (Option Verdict)) (oks : List Key) (ovs : List V) :
    dictImpl kind ks diffs (.dict oks ovs) =
      seqAllAux false
        (dictOwnI (dictRow MatchSrc.dictMatchers (dictClass kind))
          (oks.any fun k => !ks.contains k) (ks.any fun k => !oks.contains k))
        (somes diffs) := by
  rw [C06_src_dict_skel]
  cases kind <;> simp [dictImpl, dictOwnI, dictRow, refDict, dictClass]

/-- the remaining leaves of `_basic.py`: `Contains` (which exceptions of `in` mean "not contained"), `SameMembers`
(both subtractions empty), `StartsWith` / `EndsWith` / `MatchesRegex` / `IsInstance` (the deciding call and its sense) -/
theorem C06_src_leaves : MatchSrc.containsM = refContains ∧ MatchSrc.sameMembers = refSameMembers ∧
    MatchSrc.startsWith = refStartsWith ∧ MatchSrc.endsWith = refEndsWith ∧ MatchSrc.matchesRegex = refRegex ∧
    MatchSrc.isInstanceM = refIsInstance := by decide

/-- `MatchesException.match` (the ladder of tests, in order) and `Raises.match` (call inside `try`, "returned" is a
mismatch, `except BaseException`, the matcher guard, "matched" = falsy mismatch, the propagate rule) -/
theorem C06_src_exception : MatchSrc.matchesException = refMatchesException ∧ MatchSrc.raisesM = refRaises := by decide

/-- `Warnings.match`: records inside `catch_warnings(record=True)`, installs the action "always" before the call (every warning
the callable emits reaches the list, repeats included; the caller's filters are restored by the block), hands the recorded list to
the matcher, or mismatches iff the list is empty; `IsDeprecated` = a list of exactly one `DeprecationWarning` -/
theorem C06_src_warnings : MatchSrc.warningsM = refWarnings := by decide

end SourceTies

/-! ## non-vacuity -/
-- the only perfect pairing is not the greedy one in either order: 1↦Equals(1), 2↦Any(1,2), 3↦Any(2,3)
example : spec (.setwise [0, 1, 2] [1, 0, 2]
      [.any [.leaf (.equals (.int 1)), .leaf (.equals (.int 2))], .any [.leaf (.equals (.int 2)), .leaf (.equals (.int 3))],
       .leaf (.equals (.int 1))]) (.list [.int 1, .int 2, .int 3]) = some .match := by decide
-- no pairing: two values for one accepting matcher
example : spec (.setwise [0, 1] [1, 0] [.leaf (.equals (.int 1)), .leaf .never]) (.list [.int 1, .int 1]) = some .mismatch := by decide
-- a nested expression inside the domain with verdict mismatch; and a value outside the domain
example : spec (.all false [.leaf (.lessThan (.int 3)), .not (.leaf (.equals (.int 2)))]) (.int 2) = some .mismatch := by decide
example : spec (.leaf (.lessThan (.int 3))) (.str [97]) = none := by decide
-- dict matchers over keys that cannot be ordered with each other (1, 'a', None, b'k', (1, 2))
example : spec (.dict .exact [.none, .int 1, .str 0] [.leaf .always, .leaf (.equals (.int 5)), .leaf .never])
    (.dict [.int 1, .str 0, .tup [.int 1, .str 0], .tup [.str 0, .int 1]] [.int 5, .int 0, .none, .none]) = some .mismatch := by decide
example : matchImpl true (.leaf (.keysEqual [.str 0, .int 1])) (.dict [.int 1, .str 0] [.int 0, .int 0]) = .match := by decide
-- the propagate rule of Raises
example : spec (.raises (.leaf (.excType [.valueError]))) (.fnRaise ⟨.keyboardInterrupt, 0⟩) = some (.raised .keyboardInterrupt) := by decide

end TTV.Props.C06
