import TTV.Model.Content
import TTV.Spec.C16
import TTV.Lemmas.ContentDecode
import TTV.Lemmas.ContentUtf8
import TTV.Lemmas.ContentStream
import TTV.Lemmas.ContentCT
import TTV.Lemmas.ContentCopy
import TTV.Lemmas.ContentSkel
import TTV.Generated.ContentSrc
/-! # C16 — Content is lossless and independent of chunking

Property theorems (kept apart from the model `TTV/Model/Content.lean`; helper lemmas in `TTV/Lemmas/Content*.lean`).
Everything is for **all** texts, byte strings, chunkings, chunk sizes ≥ 1, seek offsets, origins, histories.

* `holds_model_partial`   : the executable spec `Spec.C16.holds` is true of the model's trace for every input of the
                            domain outside the known-finding classes (content types only; every other clause holds
                            unconditionally: `holds_model_no_ctype`)
* `C16_bytes`, `C16_eq_iff`                    : bytes = what the source yields; equality = type and bytes
* `C16_text_roundtrip*`, `C16_encoder_is_core` : `text_content` round trip, for every chunking of the encoding
* `C16_chunk_independent*`                     : `as_text` of any lawful incremental decoder does not depend on the chunking;
                                                 Latin-1, ASCII and the UTF-8 machine are lawful; the machine is RFC 3629
* `C16_iter_chunks`, `C16_stream_*`            : `_iter_chunks` / `content_from_stream/file`
* `C16_ct_roundtrip_partial` + witnesses       : `ContentType` render / parse
* `C16_snapshot*`                              : `_copy_content`
-/
namespace TTV.Props.C16
open TTV.Content TTV.Spec.C16
open TTV.Lemmas.ContentDecode TTV.Lemmas.ContentUtf8 TTV.Lemmas.ContentStream TTV.Lemmas.ContentCT TTV.Lemmas.ContentCopy

/-! ## bytes and equality -/

/-- C16 (bytes): `iter_bytes()` of a Content yields exactly what its source yields. -/
theorem C16_bytes (ctA ctB : Nat) (a b : List Bytes) :
    ∃ e, model (.eq ctA ctB a b) = .eq a b e := ⟨_, rfl⟩

/-- C16 (equality): two Contents are equal iff their types are equal and their bytes, joined, are equal —
however each of them is chunked. -/
theorem C16_eq_iff (ctA ctB : Nat) (a b : List Bytes) :
    model (.eq ctA ctB a b) = .eq a b true ↔ (ctA = ctB ∧ a.flatten = b.flatten) := by
  simp [model]

/-! ## `as_text` is independent of the chunking -/

/-- C16 (chunk independence): for ANY lawful incremental decoder — feeding `a` then `b` is feeding `a ++ b` —
`as_text` over any chunking (empty chunks, cuts inside multi-byte sequences) is the decoding of the joined
bytes in one go; a decode error of one is a decode error of the other. -/
theorem C16_chunk_independent {σ : Type} (D : Decoder σ) (h : Lawful D) (chunks : List Bytes) :
    asText D chunks = decodeAll D chunks.flatten := asText_eq_decodeAll D h chunks

/-- two chunkings of the same bytes give the same text -/
theorem C16_chunk_independent_two {σ : Type} (D : Decoder σ) (h : Lawful D) (c₁ c₂ : List Bytes)
    (hb : c₁.flatten = c₂.flatten) : asText D c₁ = asText D c₂ := by
  rw [C16_chunk_independent D h, C16_chunk_independent D h, hb]

/-- every decoder driven by a per-byte transition function is lawful … -/
theorem C16_step_decoder_lawful {σ : Type} (init : σ) (step : σ → Nat → Option (σ × Text)) (flush : σ → Option Text) :
    Lawful { init := init, feed := feedBytes step, flush := flush } := lawful_of_step init step flush

/-- … in particular ISO-8859-1 (the default when no charset is declared), ASCII and the UTF-8 machine -/
theorem C16_latin1_lawful : Lawful latin1 := latin1_lawful
theorem C16_ascii_lawful : Lawful ascii := ascii_lawful
theorem C16_utf8_lawful : Lawful utf8 := utf8_lawful

/-- the UTF-8 machine never holds more than three pending bytes -/
theorem C16_utf8_pending_le_three (s s' : U8) (b : Nat) (o : Text) (hs : s.need ≤ 3)
    (h : u8step s b = some (s', o)) : s'.need ≤ 3 := by
  unfold u8step at h
  repeat' split at h
  all_goals first
    | (simp only [Option.some.injEq, Prod.mk.injEq] at h; obtain ⟨rfl, _⟩ := h; simp [U8.start]; try omega)
    | cases h

/-- whole-string decoding with the three modelled codecs is the reference decoding: ISO-8859-1 maps every
byte to the code point of the same number, ASCII refuses bytes above 127, and the UTF-8 machine (run over all
the bytes and flushed) is exactly RFC 3629: shortest forms only, no surrogates, nothing above U+10FFFF,
truncated input is an error. -/
theorem C16_latin1_is_reference (b : Bytes) : decodeAll latin1 b = latin1Ref b := decodeAll_latin1 b
theorem C16_ascii_is_reference (b : Bytes) : decodeAll ascii b = asciiRef b := decodeAll_ascii b
theorem C16_utf8_machine_is_rfc3629 (b : Bytes) : decodeAll utf8 b = utf8Ref b := decodeAll_utf8 b

/-- the reference decoder accepts exactly the encodings of texts over Unicode scalar values -/
theorem C16_utf8_reference_exact (b : Bytes) (s : Text) :
    utf8Ref b = some s ↔ (utf8Encode s = b ∧ s.all validCp = true) := by
  constructor
  · exact utf8Ref_some b s
  · rintro ⟨rfl, hv⟩; exact utf8Ref_utf8Encode s hv

/-- so `as_text()` of a `text/*; charset=utf8` content, chunked in any way, is the RFC 3629 decoding of its bytes -/
theorem C16_as_text_utf8 (chunks : List Bytes) : asText utf8 chunks = utf8Ref chunks.flatten := by
  rw [C16_chunk_independent utf8 utf8_lawful, decodeAll_utf8]

/-- and without a charset parameter it is the ISO-8859-1 reading of the bytes -/
theorem C16_as_text_default (chunks : List Bytes) (whole : Option Text) :
    decodeModel true .absent chunks whole = decodeModel true .latin1 chunks whole
    ∧ asText latin1 chunks = latin1Ref chunks.flatten := by
  refine ⟨rfl, ?_⟩
  rw [C16_chunk_independent latin1 latin1_lawful, decodeAll_latin1]

/-- what `as_text()` returned in a decode trace -/
def astextOf : Trace → Option Text
  | .decode a _ _ _ _ => a
  | _ => none

/-- C16 (as_text, every codec): `as_text()` joins the bytes and decodes them once (`/repo` <commit>), so its result is a function
of the joined bytes alone - for the three modelled codecs their reference decoding, for any other codec whatever its one-shot
decoder answers (the oracle value) - and two chunkings of the same bytes cannot give different texts, WHATEVER the codec.
(For `iter_text()` the same needs the incremental decoder to be lawful: `C16_chunk_independent`.) -/
theorem C16_as_text_whole (isText : Bool) (cs : Charset) (c₁ c₂ : List Bytes) (oracle : Option Text)
    (h : c₁.flatten = c₂.flatten) :
    astextOf (decodeModel isText cs c₁ oracle) = astextOf (decodeModel isText cs c₂ oracle)
    ∧ (isText = true → astextOf (decodeModel isText cs c₁ oracle) = wholeRef cs c₁.flatten oracle) := by
  cases isText <;> cases cs <;> simp [decodeModel, astextOf, wholeRef, h, decodeAll_latin1, decodeAll_utf8, decodeAll_ascii]

/-! ## `text_content` -/

/-- the model's encoder is core Lean's UTF-8 encoder (`String.utf8EncodeChar`) -/
theorem C16_encoder_is_core (c : Char) : encodeCp c.toNat = (String.utf8EncodeChar c).map UInt8.toNat :=
  encodeCp_eq_core c

/-- C16 (text round trip): for every text over Unicode scalar values (astral characters, combining marks and NUL
included) `text_content(s).as_text() = s` — and the same for every other chunking of the encoded bytes. -/
theorem C16_text_roundtrip (s : Text) (hs : s.all validCp = true) :
    model (.text s) = .text [utf8Encode s] true (some s) := by
  simp only [model]
  rw [C16_as_text_utf8]
  simp [utf8Ref_utf8Encode s hs]

theorem C16_text_roundtrip_any_chunking (s : Text) (hs : s.all validCp = true) (chunks : List Bytes)
    (hc : chunks.flatten = utf8Encode s) : asText utf8 chunks = some s := by
  rw [C16_as_text_utf8, hc, utf8Ref_utf8Encode s hs]

/-- strings over `Char` (Lean's type of Unicode scalar values) -/
theorem C16_text_roundtrip_chars (s : List Char) (chunks : List Bytes)
    (hc : chunks.flatten = utf8Encode (s.map Char.toNat)) : asText utf8 chunks = some (s.map Char.toNat) := by
  apply C16_text_roundtrip_any_chunking _ _ _ hc
  simp only [List.all_map, List.all_eq_true]
  intro c _
  rw [Function.comp_apply, validCp_iff]
  rcases c.valid with h | h
  · left; exact h
  · right; exact ⟨Nat.succ_le_of_lt h.1, h.2⟩

/-! ## `_iter_chunks`, `content_from_stream`, `content_from_file` -/

/-- C16 (chunk loop): for every chunk size ≥ 1 and EVERY short-read plan (a raw stream may return fewer bytes than
asked for before end of file; each read returns at least one byte while data remains) the loop "read until an
empty read" terminates — every non-empty read consumes a byte — and its chunks are non-empty, at most
`chunk_size` long, and concatenate to exactly the remaining bytes (no off-by-one when the length is a multiple,
nothing dropped after a short read). -/
theorem C16_iter_chunks (n : Nat) (hn : 1 ≤ n) (caps : List Nat) (hc : caps.all (1 ≤ ·) = true) (rem : Bytes) :
    (chunks n caps rem).flatten = rem ∧ ∀ c ∈ chunks n caps rem, c ≠ [] ∧ c.length ≤ n :=
  ⟨chunks_flatten n hn caps hc rem, chunks_good n caps rem⟩

/-- a short read is not taken for end of file: after a read that returned fewer than `chunk_size` bytes while more
remain, the loop reads again (instance of the above; this is what the seeded regression C16-b broke) -/
example : chunks 4 [3] [1, 2, 3, 4, 5, 6, 7, 8, 9] = [[1, 2, 3], [4, 5, 6, 7], [8, 9]] := by decide

/-- C16 (stream, sizes): in the log of every scenario every chunk handed to the consumer is non-empty and at most
`chunk_size` long. -/
theorem C16_stream_chunk_sizes (i : StreamIn) : ∀ c, Ev.chunk c ∈ streamModel i → c ≠ [] ∧ c.length ≤ i.chunkSize := by
  intro c h
  rcases mem_streamModel h with h | h | h | h | ⟨x, hx, h1, h2⟩ | ⟨x, h⟩
  · cases h
  · cases h
  · cases h
  · cases h
  · cases hx; exact ⟨h1, h2⟩
  · cases h

/-- C16 (stream, bytes): whenever the requested seek is one the stream accepts, the first consumption — and every
consumption of a file or buffered content — completes without error and its chunks concatenate to the bytes from
the (clamped) seek position to end of file, for both stream kinds, all origins, `buffer_now` or not, and every
short-read plan of the stream. -/
theorem C16_stream_bytes (i : StreamIn) (hn : 1 ≤ i.chunkSize) (hc : i.caps.all (1 ≤ ·) = true) (p : Nat)
    (hp : startPos i = some p) :
    let cons := consumptions (streamModel i)
    let good := fun seg : List Ev => seg.any isDone = true ∧ seg.any isRaised = false
      ∧ (seg.filterMap chunkOf).flatten = (dataOf i).drop p
    (∀ seg ∈ cons.take 1, good seg) ∧ ((i.isFile = true ∨ i.bufferNow = true) → ∀ seg ∈ cons, good seg) := by
  have h := model_chunkConcat i hn hc []
  simp only [cChunkConcat, expected, hp, Option.map_some, Bool.and_eq_true] at h
  have hgood : ∀ seg, segOk ((dataOf i).drop p) seg = true →
      seg.any isDone = true ∧ seg.any isRaised = false ∧ (seg.filterMap chunkOf).flatten = (dataOf i).drop p := by
    intro seg hs
    simp only [segOk, Bool.and_eq_true, Bool.not_eq_true', beq_iff_eq] at hs
    exact ⟨hs.1.1, hs.1.2, hs.2⟩
  obtain ⟨_, h2⟩ := h
  constructor
  · intro seg hseg
    split at h2
    · exact hgood seg (List.all_eq_true.mp h2 seg (List.mem_of_mem_take hseg))
    · exact hgood seg (List.all_eq_true.mp h2 seg hseg)
  · intro hfb seg hseg
    have : (i.isFile || i.bufferNow) = true := by rcases hfb with h | h <;> simp [h]
    rw [if_pos this] at h2
    exact hgood seg (List.all_eq_true.mp h2 seg hseg)

/-- C16 (re-evaluation; seed C16-f): a content made from a stream (not a file, not buffered) WITH a seek offset the stream accepts
seeks again every time its bytes are asked for: EVERY consumption completes without error and yields the bytes from the position its
seek leads to, the stream standing where the previous evaluation left it. -/
theorem C16_reeval (i : StreamIn) (hn : 1 ≤ i.chunkSize) (hc : i.caps.all (1 ≤ ·) = true) (off : Int) (wh p : Nat)
    (hf : i.isFile = false) (hb : i.bufferNow = false) (hsk : i.seekTo = some (off, wh)) (hp : startPos i = some p) :
    reevalOk i off wh i.pos0 (consumptions (streamModel i)) = true := by
  have h := model_reeval i hn hc []
  simpa [cReeval, hsk, hp, hf, hb, posBefore] using h

/-- … and when the offset counts from the start or the end of the data (`seek_whence` 0 or 2) that is the SAME byte string every
time: the bytes from the requested offset to the end of the data, in the first, second, … consumption alike. -/
theorem C16_reeval_abs (i : StreamIn) (hn : 1 ≤ i.chunkSize) (hc : i.caps.all (1 ≤ ·) = true) (off : Int) (wh p : Nat)
    (hf : i.isFile = false) (hb : i.bufferNow = false) (hsk : i.seekTo = some (off, wh)) (hw : wh ≠ 1) (hp : startPos i = some p) :
    ∀ seg ∈ consumptions (streamModel i), seg.any isDone = true ∧ seg.any isRaised = false
      ∧ (seg.filterMap chunkOf).flatten = (dataOf i).drop p := by
  have h := C16_reeval i hn hc off wh p hf hb hsk hp
  rw [reevalOk_abs hw] at h
  have hp0 : seekFrom i off wh 0 = p := by
    have h2 := seekRes_seekFrom (s := ⟨dataOf i, i.pos0⟩) hf hsk hp rfl
    have h3 := seekRes_startPos (s := ⟨dataOf i, i.pos0⟩) rfl (Or.inr rfl) hp
    rw [h3] at h2
    have : p = seekFrom i off wh i.pos0 := by simpa using h2
    rw [this]
    simp only [seekFrom]
    by_cases h0 : wh = 0 <;> simp [h0, hw]
  rw [hp0] at h
  intro seg hseg
  have hs := List.all_eq_true.mp h seg hseg
  simp only [segOk, Bool.and_eq_true, Bool.not_eq_true', beq_iff_eq] at hs
  exact ⟨hs.1.1, hs.1.2, hs.2⟩

/-- C16 (`c == c`): a content whose every evaluation is asked for the same bytes - a file (opened afresh), a buffered content, a
stream content with a seek offset counted from the start or the end - equals itself every time it is compared, however often it was
consumed before. -/
theorem C16_eq_self (i : StreamIn) (hn : 1 ≤ i.chunkSize) (hc : i.caps.all (1 ≤ ·) = true) (p : Nat) (hp : startPos i = some p)
    (hcfg : i.isFile = true ∨ i.bufferNow = true ∨ absSeek i = true) :
    (streamEqModel i).filterMap eqAnswer = List.replicate i.eqs true := by
  have h := model_eqSelf i hn hc []
  have hc' : (i.isFile || i.bufferNow || absSeek i) = true := by rcases hcfg with h | h | h <;> simp [h]
  simpa [cEqSelf, expected, hp, hc'] using h

/-- C16 (lazy): without `buffer_now` nothing is read, sought or opened before the content is iterated (the log
starts with `made`); with `buffer_now` every read happens at construction (no stream event after `made`). -/
theorem C16_stream_lazy (i : StreamIn) :
    (i.bufferNow = false → ∃ rest, streamModel i = Ev.made :: rest) ∧
    (i.bufferNow = true → ∀ e ∈ (streamModel i).dropWhile (!isMade ·), isIO e = false) := by
  constructor
  · intro h; exact ⟨_, streamModel_lazy h⟩
  · intro h e he
    have := model_lazy i []
    simp only [cLazy, h, if_true, List.all_eq_true] at this
    simpa using this e he

/-! ## content types -/

/-- the known-finding classes of `KNOWN_FINDINGS.txt` -/
def inFinding (ct : CT) : Bool := charsetComma ct || valueCRLF ct || valueEncodedWord ct || nameNotLowerToken ct

/-- the domain of the property (any token as a parameter name) minus the class `nameNotLowerToken` is the domain the round trip
is proved on: lower-case token names -/
theorem wf_of_wide {ct : CT} (hw : ct.wfWide = true) (hn : nameNotLowerToken ct = false) : ct.wf = true := by
  simp only [CT.wfWide, Bool.and_eq_true, Bool.not_eq_true'] at hw
  simp only [nameNotLowerToken, List.any_eq_false, Bool.not_eq_true, Bool.not_eq_false] at hn
  simp only [CT.wf, Bool.and_eq_true, Bool.not_eq_true', List.all_eq_true]
  exact ⟨⟨⟨hw.1.1.1, hw.1.1.2⟩, fun p hp => by simpa using hn p hp⟩, hw.2⟩

/- Full statement (false of the code, findings charset-comma / param-crlf / param-encoded-word):
   ∀ ct, ct.wf → ctypeModel ct = .ctype (render ct) (.ok { ct with params := sortParams ct.params }) -/
/-- C16 (content type round trip), outside the finding classes: for lower-case token type, subtype and
parameter names and ANY values without line breaks (quotes, backslashes, separators, NUL, non-ASCII included)
rendering with `__repr__` and re-parsing gives the same type, subtype and parameter dict. -/
theorem C16_ct_roundtrip_partial (ct : CT) (hw : ct.wfWide = true) (hf : inFinding ct = false) :
    model (.ctype ct) = .ctype (render ct) (.ok { ct with params := sortParams ct.params }) := by
  simp only [inFinding, Bool.or_eq_false_iff] at hf
  exact ctypeModel_roundtrip ct (wf_of_wide hw hf.2) hf.1.1.2 hf.1.1.1

/-- `ContentType("text", "plain", {"charset": "a,b"})` -/
def ctComma : CT := ⟨[116, 101, 120, 116], [112, 108, 97, 105, 110], [(charsetName, [97, 44, 98])]⟩
/-- `ContentType("a", "b", {"k": "x\ny"})` -/
def ctNewline : CT := ⟨[97], [98], [([107], [120, 10, 121])]⟩
/-- `ContentType("a", "b", {"k": 'x\y"z; =,/é', "a-b": "", "a": " "})` -/
def ctHard : CT := ⟨[97], [98], [([107], [120, 92, 121, 34, 122, 59, 32, 61, 44, 47, 233]), ([97, 45, 98], []), ([97], [32])]⟩

/-- finding charset-comma: the model reproduces the truncation (`charset="a,b"` comes back as `a`) -/
theorem C16_charsetComma_witness :
    ctComma.wf = true ∧ charsetComma ctComma = true ∧
      parseCT (render ctComma) = .ok ⟨ctComma.type, ctComma.subtype, [(charsetName, [97])]⟩ := by
  refine ⟨by decide, by decide, ?_⟩
  rw [parseCT_render ctComma (by decide) (by decide)]
  simp [sortedPairs, ctComma, fixCharset, charsetName, chComma, lowerName, lower, lowerC]

/-- finding param-crlf: the model reproduces the `ValueError` -/
theorem C16_valueCRLF_witness :
    ctNewline.wf = true ∧ valueCRLF ctNewline = true ∧ parseCT (render ctNewline) = .raised .valueError := by
  refine ⟨by decide, by decide, ?_⟩
  have : (render ctNewline).any lineBreak = true := by
    rw [render_eq]
    simp [sortedPairs, ctNewline, joinParams, renderParam, quoteValue, lineBreak, chSlash, chSemi, chSpace, chEq, chQuote, chBackslash]
  simp [parseCT, this]

/-- `ContentType("a", "b", {"K": "v"})` -/
def ctUpperName : CT := ⟨[97], [98], [([75], [118])]⟩

/-- finding param-name: an upper-case parameter name is in the property's domain, and comes back lower-cased -/
theorem C16_nameNotLowerToken_witness :
    ctUpperName.wfWide = true ∧ nameNotLowerToken ctUpperName = true ∧
      parseCT (render ctUpperName) = .ok ⟨[97], [98], [([107], [118])]⟩ := by
  refine ⟨by decide, by decide, ?_⟩
  rw [parseCT_render ctUpperName (by decide) (by decide)]
  simp [sortedPairs, ctUpperName, fixCharset, charsetName, lowerName, lower, lowerC]

/-- non-vacuity: a value full of characters that need care is in the domain and outside the classes -/
example : ctHard.wfWide = true ∧ inFinding ctHard = false := by decide

/-! ## `_copy_content` -/

/-- C16 (snapshot): for every history of source changes, copies and reads, each copy evaluates the source exactly
once (at copy time) and reading the k-th copy returns what the source held when that copy was made. -/
theorem C16_snapshot (init : List Bytes) (ops : List CopyOp) :
    cSnapshot (.copy init ops) (model (.copy init ops)) = true := model_snapshot init ops

/-- readable instance: copy, then any number of later changes of the source, then read the copy -/
theorem C16_snapshot_after_changes (cur : List Bytes) (later : List (List Bytes)) :
    (copyRun ⟨cur, []⟩ ([CopyOp.copy] ++ later.map CopyOp.set ++ [CopyOp.readCopy 0])).getLast? = some ⟨some cur, 0⟩ := by
  have : ∀ (l : List (List Bytes)) (c : List Bytes),
      (copyRun ⟨c, [cur]⟩ (l.map CopyOp.set ++ [CopyOp.readCopy 0])).getLast? = some ⟨some cur, 0⟩ := by
    intro l
    induction l with
    | nil => intro c; simp [copyRun, copyStep]
    | cons x xs ih =>
      intro c
      simp only [List.map_cons, List.cons_append, copyRun, copyStep]
      rw [List.getLast?_cons_of_ne_nil]
      · exact ih x
      · cases xs <;> simp [copyRun]
  simp only [List.singleton_append, List.cons_append, copyRun, copyStep, List.nil_append]
  rw [List.getLast?_cons_of_ne_nil]
  · exact this later cur
  · intro h
    have := congrArg List.length h
    simp [copyRun_length] at this

/-! ## the executable specification holds of the model -/

/-- every clause but the content-type round trip holds for every input of the domain -/
theorem holds_model_no_ctype (i : Input) (hw : i.wf = true) (hc : ∀ ct, i ≠ .ctype ct) (hs : ∀ cts, i ≠ .ctypeSeq cts) :
    holds i (model i) = true := by
  cases i with
  | eq ctA ctB a b => simp [holds, clauses, model, cShape, cBytes, cEq, cText, cJson, cChunking, cAsText, cCharset, cChunkSizes, cChunkConcat, cReeval, cEqSelf, cLazy, cCtRoundtrip, cCtHistory, cSnapshot]
  | text s =>
    have hs : s.all validCp = true := hw
    simp [holds, clauses, C16_text_roundtrip s hs, cShape, cBytes, cEq, cText, cJson, cChunking, cAsText, cCharset, cChunkSizes, cChunkConcat, cReeval, cEqSelf, cLazy, cCtRoundtrip, cCtHistory, cSnapshot, utf8Ref_utf8Encode s hs]
  | json d =>
    have hs : d.all validCp = true := hw
    simp [holds, clauses, model, cShape, cBytes, cEq, cText, cJson, cChunking, cAsText, cCharset, cChunkSizes, cChunkConcat, cReeval, cEqSelf, cLazy, cCtRoundtrip, cCtHistory, cSnapshot, utf8Ref_utf8Encode d hs]
  | decode isText cs chunks whole =>
    have h1 : (iterText latin1 chunks).map List.flatten = decodeAll latin1 chunks.flatten := C16_chunk_independent latin1 latin1_lawful chunks
    have h2 : (iterText utf8 chunks).map List.flatten = decodeAll utf8 chunks.flatten := C16_chunk_independent utf8 utf8_lawful chunks
    have h3 : (iterText ascii chunks).map List.flatten = decodeAll ascii chunks.flatten := C16_chunk_independent ascii ascii_lawful chunks
    cases isText <;> cases cs <;>
      simp [holds, clauses, model, decodeModel, cShape, cBytes, cEq, cText, cJson, cChunking, cAsText, cCharset, cChunkSizes,
        cChunkConcat, cReeval, cEqSelf, cLazy, cCtRoundtrip, cCtHistory, cSnapshot, wholeRef, h1, h2, h3, decodeAll_latin1, decodeAll_utf8, decodeAll_ascii] <;>
      cases whole <;> simp
  | stream i =>
    have hwf : i.wf = true := hw
    simp only [StreamIn.wf, Bool.and_eq_true, decide_eq_true_eq] at hwf
    have hn : 1 ≤ i.chunkSize := hwf.1.1
    simp [holds, clauses, model, cShape, cBytes, cEq, cText, cJson, cChunking, cAsText, cCharset, cCtRoundtrip, cCtHistory, cSnapshot,
      model_chunkSizes i, model_chunkConcat i hn hwf.2, model_lazy i, model_reeval i hn hwf.2, model_eqSelf i hn hwf.2]
  | ctype ct => exact absurd rfl (hc ct)
  | ctypeSeq cts => exact absurd rfl (hs cts)
  | copy init ops =>
    simp [holds, clauses, model, cShape, cBytes, cEq, cText, cJson, cChunking, cAsText, cCharset, cChunkSizes, cChunkConcat, cReeval, cEqSelf, cLazy, cCtRoundtrip, cCtHistory, model_snapshot init ops]

/-- which inputs fall in a known-finding class (as `TTV.Drv.C16.classes`) -/
def noFinding : Input → Bool
  | .ctype ct => !inFinding ct
  | .ctypeSeq cts => cts.all fun ct => !inFinding ct.lowered
  | _ => true

theorem zip_map_self {α β : Type} (f : α → β) : ∀ (l : List α) (q : α × β), q ∈ l.zip (l.map f) → q.2 = f q.1
  | [], q, h => by simp at h
  | a :: l, q, h => by
    simp only [List.map_cons, List.zip_cons_cons, List.mem_cons] at h
    rcases h with rfl | h
    · rfl
    · exact zip_map_self f l q h

theorem valueCRLF_lowered (ct : CT) : valueCRLF ct.lowered = valueCRLF ct := by
  simp [valueCRLF, CT.lowered, List.any_map, Function.comp_def]

/-- C16 (history independence): content types parsed one after the other in one process — in any letter case, a type again
after a variant of it — each come back as themselves: type, subtype and parameter names lower-cased (they are
case-insensitive), parameter values exactly as given.  (The model has no state; that the code has none either is what the
correspondence check on such sequences establishes.) -/
theorem C16_ct_history_independent (cts : List CT) (hw : cts.all CT.wfU = true)
    (hf : cts.all (fun ct => !inFinding ct.lowered) = true) :
    model (.ctypeSeq cts) = .ctypeSeq (cts.map fun ct => (render ct, .ok { ct.lowered with params := sortParams ct.lowered.params })) := by
  simp only [model]
  congr 1
  apply List.map_congr_left
  intro ct hct
  have h1 := List.all_eq_true.mp hw ct hct
  have h2 := List.all_eq_true.mp hf ct hct
  simp only [inFinding, Bool.not_eq_true', Bool.or_eq_false_iff] at h2
  exact ctypePair_lowered ct h1 (by rw [← valueCRLF_lowered]; exact h2.1.1.2) h2.1.1.1

/- Full statement `∀ i, i.wf → holds i (model i) = true` is false: the model reproduces the defects of the finding
   classes (`C16_charsetComma_witness`, `C16_valueCRLF_witness`). -/
/-- headline: the executable specification is true of the model's trace for every input of the domain outside
the known-finding classes -/
theorem holds_model_partial (i : Input) (hw : i.wf = true) (hf : noFinding i = true) : holds i (model i) = true := by
  cases i with
  | ctype ct =>
    have hf' : inFinding ct = false := by simpa [noFinding] using hf
    have := C16_ct_roundtrip_partial ct hw hf'
    simp [holds, clauses, this, cShape, cBytes, cEq, cText, cJson, cChunking, cAsText, cCharset, cChunkSizes, cChunkConcat, cReeval, cEqSelf, cLazy, cCtRoundtrip, cCtHistory, cSnapshot]
  | ctypeSeq cts =>
    have h := C16_ct_history_independent cts hw (by simpa [noFinding] using hf)
    simp only [holds, clauses, h, List.all_cons, List.all_nil, cShape, cBytes, cEq, cText, cJson, cChunking, cAsText, cCharset, cChunkSizes,
      cChunkConcat, cReeval, cEqSelf, cLazy, cCtRoundtrip, cSnapshot, cCtHistory, Bool.true_and, Bool.and_true, List.length_map, beq_self_eq_true]
    rw [List.all_eq_true]
    intro q hq
    have := zip_map_self (fun ct : CT => (render ct, Parsed.ok { ct.lowered with params := sortParams ct.lowered.params })) cts q hq
    simp [this]
  | _ => exact holds_model_no_ctype _ hw (by intro ct h; cases h) (by intro cts h; cases h)

/-! ## tie to the source
`TTV.Generated.ContentSrc` is produced by `harness/pycontent2lean.py` from `testtools/content.py`, `content_type.py` and
`testresult/real.py` on every run; `TTV.ContentSkel.*I` interpret that data over the model. -/

/-- the model's `iterText` is the interpretation of the statements of `Content._iter_text` as found in the source — the
encoding looked up with default ISO-8859-1, a NEW incremental decoder made in this very call (so nothing survives from an
earlier use of the Content), one piece per chunk, the final flush, its result yielded when non-empty — for every decoder
and every chunking -/
theorem C16_src_iter_text {σ : Type} (D : Decoder σ) (chunks : List Bytes) :
    ContentSkel.iterTextI D chunks Generated.ContentSrc.iterText = some (iterText D chunks)
      ∧ ContentSkel.defaultOf Generated.ContentSrc.iterText = some .iso8859_1 := by
  have e : Generated.ContentSrc.iterText = ContentSkel.refIterText := by decide
  rw [e]; exact ⟨ContentSkel.iterTextI_ref D chunks, ContentSkel.defaultOf_ref⟩

/-- the one-shot decoder the model uses for a charset (`oracle` answers for codecs that are not modelled) -/
def modelWhole (cs : Charset) (oracle : Option Text) (b : Bytes) : Option Text :=
  match cs with
  | .absent | .latin1 => decodeAll latin1 b
  | .utf8 => decodeAll utf8 b
  | .ascii => decodeAll ascii b
  | .opaque => oracle

/-- what the model says `as_text()` gives (text or exception) is the interpretation of `Content.as_text` as found in the source:
a non-text type is refused, the charset is looked up with default ISO-8859-1, the bytes are JOINED and decoded ONCE - for every
charset, chunking and oracle (evaluated on the generated steps) -/
theorem C16_src_as_text (isText : Bool) (cs : Charset) (chunks : List Bytes) (oracle : Option Text) :
    ContentSkel.asTextI isText (modelWhole cs oracle) chunks Generated.ContentSrc.asText false
      = (match decodeModel isText cs chunks oracle with | .decode a e _ _ _ => some (a, e) | _ => none)
    ∧ ContentSkel.defaultOfAsText Generated.ContentSrc.asText = some .iso8859_1 := by
  refine ⟨?_, by decide⟩
  cases isText <;> cases cs <;>
    simp [ContentSkel.asTextI, Generated.ContentSrc.asText, decodeModel, modelWhole] <;>
    (try (split <;> simp_all))

/-- `content_from_reader` as found in the source: with `buffer_now` the reader is evaluated once, at construction, into a LIST
of its chunks which every later `iter_bytes()` replays (as `streamModel` does); without it the reader is evaluated each time -/
theorem C16_src_content_from_reader (bufferNow : Bool) (cs : List Bytes) :
    ContentSkel.readerI bufferNow cs Generated.ContentSrc.contentFromReader .evaluateEachTime
      = some (if bufferNow then .buffered cs else .evaluateEachTime) := by
  -- evaluated on the generated steps (so the order of the content-type default and the buffering, which do not interact, is free)
  cases bufferNow <;> simp [ContentSkel.readerI, Generated.ContentSrc.contentFromReader]

/-- `content_from_stream` and `content_from_file` as found in the source hand `content_from_reader` a FUNCTION whose every call makes a
new `_iter_chunks` generator (for a file: opens it, reads, closes): each evaluation of the content is the model's `readAll` - seek
again, read to the end -, which is what `lazyIters` / `lazyEqs` run once per consumption / operand.  (Seed C16-f captured one generator
object instead: only the first evaluation read anything.) -/
theorem C16_src_from_source (i : StreamIn) (s : Stream) (consumer : Bool) :
    (ContentSkel.makeI (if i.isFile then Generated.ContentSrc.contentFromFile else Generated.ContentSrc.contentFromStream) none).bind
      (ContentSkel.evalReaderI i s consumer) = some (readAll i s consumer) := by
  cases h : i.isFile <;>
    simp [Generated.ContentSrc.contentFromFile, Generated.ContentSrc.contentFromStream, ContentSkel.makeI, ContentSkel.evalReaderI, h]

/-- the model's `chunks` is the interpretation of `_iter_chunks` as found in the source: the optional seek first, then the read
loop in one of its two shapes — `chunk = read(); while chunk: yield chunk; chunk = read()` or the same loop rotated, `while True:
chunk = read(); if not chunk: break; yield chunk` (that both mean `chunks` is proved, not assumed by the translator) — for every
chunk size, short-read plan and remaining bytes -/
theorem C16_src_iter_chunks (n : Nat) (caps : List Nat) (rem : Bytes) :
    ContentSkel.chunksI Generated.ContentSrc.iterChunks n caps rem = some (chunks n caps rem) := by
  have e : Generated.ContentSrc.iterChunks = ContentSkel.refChunks
      ∨ Generated.ContentSrc.iterChunks = ContentSkel.refChunksRotated := by decide
  rcases e with e | e
  · rw [e]; exact ContentSkel.chunksI_ref n caps rem
  · rw [e]; exact ContentSkel.chunksI_refRotated n caps rem

/-- the model's `render` (with `quoteValue`) is the interpretation of `ContentType.__repr__` and `_quote` as found in the
source: `type/subtype`, then — only when there are parameters — `"; "` and the sorted items `k="<v with \ and " escaped>"`
joined by `"; "` -/
theorem C16_src_repr (ct : CT) : ContentSkel.renderI Generated.ContentSrc.reprCT ct = render ct := by
  have e : Generated.ContentSrc.reprCT = ContentSkel.refRepr := by decide
  rw [e]; exact ContentSkel.renderI_ref ct

/-- the model's `fixCharset` is the interpretation of the work-around at the end of `_make_content_type` as found in the
source: only the `charset` parameter is cut, at its first comma -/
theorem C16_src_charset_fix (ps : List (Text × Text)) :
    ContentSkel.fixI Generated.ContentSrc.charsetFix ps = fixCharset ps := by
  have e : Generated.ContentSrc.charsetFix = ContentSkel.refFix := by decide
  rw [e]; exact ContentSkel.fixI_ref ps

end TTV.Props.C16
