import TTV.Model.Stream
import TTV.Spec.C10
import TTV.Lemmas.ConsumerSrc
import TTV.Generated.ConsumerSrc
/-! # C10 — stream consumers account for every test exactly once

All statements are for **every** finite list of `status` events (any ids, route codes, statuses, tags,
attachments, timestamps; no length bound).
-/
namespace TTV.Props.C10
open TTV.Stream TTV.Spec.C10

/-! ## the tables extracted from the code agree with the property's reading -/
theorem isFinal_eq (e : Event) : isFinal e = evFinal e := by
  unfold isFinal evFinal
  cases h : e.status with
  | none => simp [finalStatus, Generated.Stream.interim]
  | some s => cases s <;> simp [finalStatus, Generated.Stream.interim]

theorem counted_eq (s : Status) : Generated.Stream.counted s = (s != .exist) := by cases s <;> rfl
theorem bucket_eq (s : Status) : Generated.Stream.bucket s = specBucket s := by cases s <;> rfl
theorem statusMap_eq (s : Status) : Generated.Stream.statusMap s = specOutcome s := by cases s <;> rfl

/-! ## `report` is what the record accumulation computes -/
theorem lastSome_snoc {α : Type} (xs : List (Option α)) (x : Option α) :
    lastSome (xs ++ [x]) = match x with | some a => some a | none => lastSome xs := by
  cases x <;> simp [lastSome, List.filterMap_append]

theorem mem_firsts_aux (acc xs : List Nat) (y : Nat) :
    y ∈ xs.foldl (fun acc x => if x ∈ acc then acc else acc ++ [x]) acc ↔ y ∈ acc ∨ y ∈ xs := by
  induction xs generalizing acc with
  | nil => simp
  | cons x xs ih =>
    simp only [List.foldl_cons, ih]
    by_cases h : x ∈ acc
    · simp only [h, if_true, List.mem_cons]
      constructor
      · rintro (h1 | h1)
        · exact Or.inl h1
        · exact Or.inr (Or.inr h1)
      · rintro (h1 | h1 | h1)
        · exact Or.inl h1
        · subst h1; exact Or.inl h
        · exact Or.inr h1
    · simp only [h, if_false, List.mem_append, List.mem_cons, List.not_mem_nil, or_false]
      constructor
      · rintro ((h1 | h1) | h1)
        · exact Or.inl h1
        · exact Or.inr (Or.inl h1)
        · exact Or.inr (Or.inr h1)
      · rintro (h1 | h1 | h1)
        · exact Or.inl (Or.inl h1)
        · exact Or.inl (Or.inr h1)
        · exact Or.inr h1

theorem mem_firsts (xs : List Nat) (y : Nat) : y ∈ firsts xs ↔ y ∈ xs := by
  have := mem_firsts_aux [] xs y
  simpa [firsts] using this

theorem nodup_firsts_aux (acc xs : List Nat) (h : acc.Nodup) :
    (xs.foldl (fun acc x => if x ∈ acc then acc else acc ++ [x]) acc).Nodup := by
  induction xs generalizing acc with
  | nil => simpa
  | cons x xs ih =>
    simp only [List.foldl_cons]
    apply ih
    by_cases hx : x ∈ acc
    · simpa [hx] using h
    · simp only [hx, if_false]
      rw [List.nodup_append]
      refine ⟨h, by simp, ?_⟩
      intro a ha b hb
      simp at hb
      subst hb
      intro hab; subst hab; exact hx ha

theorem nodup_firsts (xs : List Nat) : (firsts xs).Nodup := nodup_firsts_aux [] xs (by simp)

theorem firsts_snoc (xs : List Nat) (x : Nat) :
    firsts (xs ++ [x]) = if x ∈ xs then firsts xs else firsts xs ++ [x] := by
  have hm := mem_firsts xs x
  simp only [firsts] at hm
  simp only [firsts, List.foldl_append, List.foldl_cons, List.foldl_nil, hm]

/-- `addFile` on a dict that does not have the name -/
theorem addFile_new (L : List Nat) (f : Nat → Detail) (hf : ∀ x, (f x).name = x) (n : Nat) (m : Option Nat)
    (bs : Bytes) (h : n ∉ L) :
    addFile (L.map f) n m bs = L.map f ++ [{ name := n, mime := m.getD 0, bytes := bs }] := by
  induction L with
  | nil => simp [addFile]
  | cons x L ih =>
    simp only [List.mem_cons, not_or] at h
    have hx : ¬ (f x).name = n := by rw [hf]; exact fun hh => h.1 hh.symm
    simp [addFile, hx, ih h.2]

/-- `addFile` on a dict that has the name (once) -/
theorem addFile_old (L : List Nat) (f : Nat → Detail) (hf : ∀ x, (f x).name = x) (n : Nat) (m : Option Nat)
    (bs : Bytes) (h : n ∈ L) (hnd : L.Nodup) :
    addFile (L.map f) n m bs = L.map (fun x => if x = n then { f x with bytes := (f x).bytes ++ bs } else f x) := by
  induction L with
  | nil => simp at h
  | cons x L ih =>
    simp only [List.nodup_cons] at hnd
    by_cases hx : x = n
    · subst hx
      simp only [List.map_cons, addFile, hf, ↓reduceIte, List.cons.injEq, true_and]
      apply List.map_congr_left
      intro y hy
      have : y ≠ x := fun hh => hnd.1 (hh ▸ hy)
      simp [this]
    · have hn : n ∈ L := by
        rcases List.mem_cons.mp h with h | h
        · exact absurd h.symm hx
        · exact h
      simp [addFile, hf, hx, ih hn hnd.2]

theorem detailOf_name (cs : List (Nat × Option Nat × Bytes)) (x : Nat) : (detailOf cs x).name = x := rfl

theorem detailOf_snoc_other (cs : List (Nat × Option Nat × Bytes)) (c : Nat × Option Nat × Bytes) (x : Nat)
    (h : x ≠ c.1) : detailOf (cs ++ [c]) x = detailOf cs x := by
  have : (c.1 == x) = false := by simp; exact fun hh => h hh.symm
  simp [detailOf, List.filter_append, this]

theorem detailOf_snoc_new (cs : List (Nat × Option Nat × Bytes)) (n : Nat) (m : Option Nat) (bs : Bytes)
    (h : n ∉ cs.map (·.1)) : detailOf (cs ++ [(n, m, bs)]) n = { name := n, mime := m.getD 0, bytes := bs } := by
  have : cs.filter (fun c => c.1 == n) = [] := by
    rw [List.filter_eq_nil_iff]
    intro c hc
    simp only [beq_iff_eq]
    intro hh
    exact h (List.mem_map.mpr ⟨c, hc, hh⟩)
  simp [detailOf, List.filter_append, this]

theorem detailOf_snoc_old (cs : List (Nat × Option Nat × Bytes)) (n : Nat) (m : Option Nat) (bs : Bytes)
    (h : n ∈ cs.map (·.1)) :
    detailOf (cs ++ [(n, m, bs)]) n = { detailOf cs n with bytes := (detailOf cs n).bytes ++ bs } := by
  obtain ⟨c, hc, hcn⟩ := List.mem_map.mp h
  have hne : cs.filter (fun c => c.1 == n) ≠ [] := by
    intro hh
    rw [List.filter_eq_nil_iff] at hh
    exact hh c hc (by simpa using hcn)
  cases hf : cs.filter (fun c => c.1 == n) with
  | nil => exact absurd hf hne
  | cons d ds => simp [detailOf, List.filter_append, hf]

theorem details_snoc (cs : List (Nat × Option Nat × Bytes)) (n : Nat) (m : Option Nat) (bs : Bytes) :
    (firsts ((cs ++ [(n, m, bs)]).map (·.1))).map (detailOf (cs ++ [(n, m, bs)]))
      = addFile ((firsts (cs.map (·.1))).map (detailOf cs)) n m bs := by
  simp only [List.map_append, List.map_cons, List.map_nil, firsts_snoc]
  by_cases h : n ∈ cs.map (·.1)
  · simp only [h, ↓reduceIte]
    rw [addFile_old _ _ (detailOf_name cs) n m bs ((mem_firsts _ _).mpr h) (nodup_firsts _)]
    apply List.map_congr_left
    intro x _
    by_cases hx : x = n
    · subst hx
      simp only [↓reduceIte]
      exact detailOf_snoc_old cs x m bs h
    · simp only [hx, ↓reduceIte]
      exact detailOf_snoc_other cs (n, m, bs) x hx
  · simp only [h, ↓reduceIte]
    rw [addFile_new _ _ (detailOf_name cs) n m bs (fun hh => h ((mem_firsts _ _).mp hh))]
    simp only [List.map_append, List.map_cons, List.map_nil]
    congr 1
    · apply List.map_congr_left
      intro x hx
      have : x ≠ n := fun hh => h (hh ▸ (mem_firsts _ _).mp hx)
      exact detailOf_snoc_other cs (n, m, bs) x this
    · simp [detailOf_snoc_new cs n m bs h]

/-- one more event: the declarative report follows `_update_case` -/
theorem report_snoc (id : Nat) (a : Event) (l : List Event) (e : Event) :
    report id (a :: l ++ [e]) true = upd (report id (a :: l) true) e := by
  have hd : (a :: l ++ [e]).head? = (a :: l).head? := by simp
  have hl : (a :: l ++ [e]).getLast? = some e := by
    rw [show a :: l ++ [e] = (a :: l) ++ [e] by simp]; exact List.getLast?_concat ..
  simp only [report, upd, hl, List.map_append, List.map_cons, List.map_nil, lastSome_snoc,
    List.filterMap_append, List.filterMap_cons, List.filterMap_nil, ↓reduceIte, Option.bind_some]
  cases hc : chunk e with
  | none =>
    have hdet : (match e.fileName, e.fileBytes with
        | some n, some (b :: bs) => (none : Option Unit) | _, _ => some ()) = some () := by
      unfold chunk at hc
      split at hc <;> simp_all
    cases hs : e.status <;> cases ht : e.tags <;> cases hn : e.fileName <;> cases hb : e.fileBytes <;>
      simp_all [chunk] <;> (rename_i bs; cases bs <;> simp_all)
  | some c =>
    obtain ⟨n, m, bs⟩ := c
    unfold chunk at hc
    split at hc
    · rename_i n' b bs' hn hb
      simp only [Option.some.injEq, Prod.mk.injEq] at hc
      obtain ⟨rfl, rfl, rfl⟩ := hc
      have := details_snoc ((a :: l).filterMap chunk) n' e.mime (b :: bs')
      simp only [List.filterMap_cons] at this
      cases hs : e.status <;> cases ht : e.tags <;> simp_all
    · simp at hc

theorem report_single (id : Nat) (e : Event) : report id [e] true = upd (create id e) e := by
  simp only [report, upd, create, List.map_cons, List.map_nil, List.filterMap_cons, List.filterMap_nil,
    List.head?_cons, List.getLast?_singleton, Option.bind_some, ↓reduceIte]
  have hl : ∀ {α : Type} (x : Option α), lastSome [x] = x := by
    intro α x; cases x <;> simp [lastSome]
  simp only [hl]
  cases hc : chunk e with
  | none =>
    unfold chunk at hc
    cases hs : e.status <;> cases ht : e.tags <;> cases hn : e.fileName <;> cases hb : e.fileBytes <;>
      simp_all [firsts] <;> (rename_i bs; cases bs <;> simp_all)
  | some c =>
    obtain ⟨n, m, bs⟩ := c
    unfold chunk at hc
    split at hc
    · rename_i n' b bs' hn hb
      simp only [Option.some.injEq, Prod.mk.injEq] at hc
      obtain ⟨rfl, rfl, rfl⟩ := hc
      cases hs : e.status <;> cases ht : e.tags <;> simp_all [firsts, detailOf, addFile]
    · simp at hc


/-- the record of a lifetime is the fold of `_update_case` over its events, from the record created by its first -/
theorem report_fold (id : Nat) (a : Event) (l : List Event) :
    report id (a :: l) true = l.foldl upd (upd (create id a) a) := by
  obtain ⟨r, rfl⟩ : ∃ r, l = r.reverse := ⟨l.reverse, by simp⟩
  induction r with
  | nil => exact report_single id a
  | cons e r ih =>
    rw [List.reverse_cons, List.foldl_append, ← ih]
    exact report_snoc id a r.reverse e

theorem report_open (id : Nat) (l : List Event) : { report id l true with ts1 := none } = report id l false := by
  simp [report]

/-! ## lifetimes: elementary facts -/
theorem openTail_snoc (acc xs : List Event) (e : Event) :
    openTail acc (xs ++ [e]) = if evFinal e then [] else openTail acc xs ++ [e] := by
  induction xs generalizing acc with
  | nil => simp [openTail]
  | cons x xs ih =>
    simp only [List.cons_append, openTail]
    split <;> exact ih _

theorem proj_snoc_self (k : Key) (es : List Event) (e : Event) (h : key e = some k) :
    proj k (es ++ [e]) = proj k es ++ [e] := by simp [proj, List.filter_append, h]
theorem proj_snoc_other (k : Key) (es : List Event) (e : Event) (h : key e ≠ some k) :
    proj k (es ++ [e]) = proj k es := by
  have : (key e == some k) = false := by simpa using h
  simp [proj, List.filter_append, this]
theorem proj_cons_self (k : Key) (es : List Event) (e : Event) (h : key e = some k) :
    proj k (e :: es) = e :: proj k es := by simp [proj, h]
theorem proj_cons_other (k : Key) (es : List Event) (e : Event) (h : key e ≠ some k) :
    proj k (e :: es) = proj k es := by
  have : (key e == some k) = false := by simpa using h
  simp [proj, this]

theorem cur_snoc_self (k : Key) (es : List Event) (e : Event) (h : key e = some k) :
    cur k (es ++ [e]) = if evFinal e then [] else cur k es ++ [e] := by
  simp only [cur, proj_snoc_self k es e h, openTail_snoc]
theorem cur_snoc_other (k : Key) (es : List Event) (e : Event) (h : key e ≠ some k) :
    cur k (es ++ [e]) = cur k es := by simp only [cur, proj_snoc_other k es e h]

/-! ## the table -/
def keys (t : Tbl) : List Key := t.map (·.1)

theorem get_none_iff (t : Tbl) (k : Key) : t.get k = none ↔ k ∉ keys t := by
  induction t with
  | nil => simp [Tbl.get, keys]
  | cons p t ih =>
    obtain ⟨k', a⟩ := p
    simp only [Tbl.get, keys, List.map_cons, List.mem_cons, not_or]
    by_cases h : k' = k
    · simp [h]
    · simp only [h, if_false]
      rw [ih]
      simp only [keys]
      constructor
      · intro hh; exact ⟨fun e => h e.symm, hh⟩
      · intro hh; exact hh.2

theorem get_del_self (t : Tbl) (k : Key) : (t.del k).get k = none := by
  induction t with
  | nil => rfl
  | cons p t ih =>
    obtain ⟨k', a⟩ := p
    simp only [Tbl.del]
    split
    · exact ih
    · simp [Tbl.get, *]

theorem get_del_other (t : Tbl) (k k' : Key) (h : k' ≠ k) : (t.del k').get k = t.get k := by
  induction t with
  | nil => rfl
  | cons p t ih =>
    obtain ⟨k2, a⟩ := p
    simp only [Tbl.del, Tbl.get]
    split
    · rename_i h2; subst h2; simp [h, ih]
    · simp [Tbl.get, ih]

theorem get_set_self (t : Tbl) (k : Key) (a : Report) : (t.set k a).get k = some a := by
  induction t with
  | nil => simp [Tbl.set, Tbl.get]
  | cons p t ih =>
    obtain ⟨k2, a2⟩ := p
    simp only [Tbl.set]
    split
    · simp [Tbl.get]
    · simp [Tbl.get, *]

theorem get_set_other (t : Tbl) (k k' : Key) (a : Report) (h : k' ≠ k) : (t.set k' a).get k = t.get k := by
  induction t with
  | nil => simp [Tbl.set, Tbl.get, h]
  | cons p t ih =>
    obtain ⟨k2, a2⟩ := p
    simp only [Tbl.set]
    split
    · rename_i h2; subst h2; simp [Tbl.get, h]
    · simp [Tbl.get, ih]

theorem set_new (t : Tbl) (k : Key) (a : Report) (h : k ∉ keys t) : t.set k a = t ++ [(k, a)] := by
  induction t with
  | nil => rfl
  | cons p t ih =>
    obtain ⟨k', a'⟩ := p
    simp only [keys, List.map_cons, List.mem_cons, not_or] at h
    have : ¬ k' = k := fun e => h.1 e.symm
    simp [Tbl.set, this, ih h.2]

theorem keys_set_old (t : Tbl) (k : Key) (a : Report) (h : k ∈ keys t) : keys (t.set k a) = keys t := by
  induction t with
  | nil => simp [keys] at h
  | cons p t ih =>
    obtain ⟨k', a'⟩ := p
    simp only [Tbl.set]
    split
    · rename_i hk; simp [keys, hk]
    · rename_i hk
      simp only [keys, List.map_cons, List.mem_cons] at h
      rcases h with h | h
      · exact absurd h.symm hk
      · simp only [keys, List.map_cons, List.cons.injEq, true_and]; exact ih h

theorem keys_del (t : Tbl) (k : Key) : keys (t.del k) = (keys t).filter (· != k) := by
  induction t with
  | nil => rfl
  | cons p t ih =>
    obtain ⟨k', a'⟩ := p
    simp only [Tbl.del]
    split
    · rename_i hk; simp [keys, hk]; exact ih
    · rename_i hk
      have : (k' != k) = true := by simpa using hk
      simp only [keys, List.map_cons, List.filter_cons, this, if_true, List.cons.injEq, true_and]
      exact ih

/-- the table holds exactly the open lifetimes: one record per key with an open lifetime, and that record
is the report of the lifetime so far -/
structure Inv (pre : List Event) (t : Tbl) : Prop where
  nodup : (keys t).Nodup
  get : ∀ k, t.get k = match cur k pre with | [] => none | a :: l => some (report k.1 (a :: l) true)

theorem inv_nil : Inv [] [] := ⟨by simp [keys], by intro k; simp [Tbl.get, cur, proj, openTail]⟩

theorem step_key_none (t : Tbl) (e : Event) (h : key e = none) : step t e = (t, []) := by simp [step, h]

/-- the record `status()` works on, after `_update_case` -/
theorem step_record (pre : List Event) (t : Tbl) (hI : Inv pre t) (e : Event) (k : Key) (hk : key e = some k) :
    upd ((t.get k).getD (create k.1 e)) e = report k.1 (cur k pre ++ [e]) true := by
  rw [hI.get k]
  cases hc : cur k pre with
  | nil => simp [report_single]
  | cons a l => simp only [List.cons_append]; exact (report_snoc k.1 a l e).symm

theorem inv_step (pre : List Event) (t : Tbl) (hI : Inv pre t) (e : Event) : Inv (pre ++ [e]) (step t e).1 := by
  cases hk : key e with
  | none =>
    rw [step_key_none t e hk]
    refine ⟨hI.nodup, fun k => ?_⟩
    rw [cur_snoc_other k pre e (by simp [hk])]
    exact hI.get k
  | some k =>
    have hrec := step_record pre t hI e k hk
    simp only [step, hk, isFinal_eq]
    by_cases hf : evFinal e
    · simp only [hf, if_true]
      refine ⟨by rw [keys_del]; exact hI.nodup.filter _, fun k' => ?_⟩
      by_cases hkk : k = k'
      · subst hkk
        rw [get_del_self, cur_snoc_self k pre e hk]
        simp [hf]
      · rw [get_del_other _ _ _ hkk, cur_snoc_other k' pre e (by simp [hk, hkk])]
        exact hI.get k'
    · simp only [hf, Bool.false_eq_true, if_false]
      refine ⟨?_, fun k' => ?_⟩
      · by_cases hm : k ∈ keys t
        · rw [keys_set_old _ _ _ hm]; exact hI.nodup
        · rw [set_new _ _ _ hm]
          simp only [keys, List.map_append, List.map_cons, List.map_nil]
          rw [List.nodup_append]
          refine ⟨hI.nodup, by simp, ?_⟩
          intro a ha b hb
          simp at hb; subst hb
          intro hab; subst hab; exact hm ha
      · by_cases hkk : k = k'
        · subst hkk
          rw [get_set_self, cur_snoc_self k pre e hk, hrec]
          simp only [hf, Bool.false_eq_true, if_false]
          cases hc : cur k pre <;> simp
        · rw [get_set_other _ _ _ _ hkk, cur_snoc_other k' pre e (by simp [hk, hkk])]
          exact hI.get k'

/-- closed lifetimes are reported when (and in the order in which) their final events arrive -/
theorem run_closed (pre : List Event) (t : Tbl) (hI : Inv pre t) (es : List Event) :
    (run t es).2.map (·.2) = closedReports pre es := by
  induction es generalizing pre t with
  | nil => simp [run, closedReports]
  | cons e es ih =>
    simp only [run, closedReports, List.map_append]
    rw [ih (pre ++ [e]) _ (inv_step pre t hI e)]
    congr 1
    cases hk : key e with
    | none => simp [step, hk]
    | some k =>
      have hrec := step_record pre t hI e k hk
      simp only [step, hk, isFinal_eq]
      by_cases hf : evFinal e
      · simp [hf, hrec]
      · simp [hf]


/-! ## the open lifetimes: what is left in the table when the run stops, and in which order -/
/-- the lifetimes still open at the end, keyed, in the order in which they begin (with their last timestamp) -/
def openKeyed (pre : List Event) : List Event → List (Key × Report)
  | [] => []
  | e :: post =>
    (match key e with
     | some k =>
        if !evFinal e && (cur k pre).isEmpty && !(proj k post).any evFinal
        then [(k, report k.1 (e :: proj k post) true)] else []
     | none => []) ++ openKeyed (pre ++ [e]) post

theorem openReports_eq (pre es : List Event) :
    openReports pre es = (openKeyed pre es).map fun p => { p.2 with ts1 := none } := by
  induction es generalizing pre with
  | nil => rfl
  | cons e es ih =>
    simp only [openReports, openKeyed, List.map_append, ih]
    congr 1
    cases key e with
    | none => rfl
    | some k => dsimp only; split <;> simp [report_open]

/-- entries of the table that are not closed by the events `es`, updated by their events in `es` -/
def survive (es : List Event) (t : Tbl) : Tbl :=
  (t.filter fun p => !(proj p.1 es).any evFinal).map fun p => (p.1, (proj p.1 es).foldl upd p.2)

theorem survive_cons_notin (e : Event) (es : List Event) (t : Tbl) (h : ∀ k ∈ keys t, key e ≠ some k) :
    survive (e :: es) t = survive es t := by
  induction t with
  | nil => rfl
  | cons p t ih =>
    have hp : proj p.1 (e :: es) = proj p.1 es := proj_cons_other _ _ _ (h p.1 (by simp [keys]))
    have := ih (fun k hk => h k (by simp only [keys, List.map_cons, List.mem_cons]; exact Or.inr hk))
    simp only [survive, List.filter_cons, hp] at this ⊢
    split <;> simp [this, hp]

theorem survive_del (e : Event) (es : List Event) (k : Key) (hk : key e = some k) (hf : evFinal e = true) (t : Tbl) :
    survive es (t.del k) = survive (e :: es) t := by
  induction t with
  | nil => rfl
  | cons p t ih =>
    obtain ⟨k', a⟩ := p
    simp only [Tbl.del]
    by_cases h : k' = k
    · subst h
      simp only [if_true, ih]
      simp [survive, List.filter_cons, proj_cons_self k' es e hk, hf]
    · have hp : proj k' (e :: es) = proj k' es := proj_cons_other _ _ _ (by simp [hk]; exact fun hh => h hh.symm)
      simp only [h, if_false]
      simp only [survive, List.filter_cons, hp] at ih ⊢
      split <;> simp [ih, hp]

theorem survive_set (e : Event) (es : List Event) (k : Key) (hk : key e = some k) (hf : evFinal e = false) (d : Report)
    (t : Tbl) (hn : (keys t).Nodup) (hm : k ∈ keys t) :
    survive es (t.set k (upd ((t.get k).getD d) e)) = survive (e :: es) t := by
  induction t with
  | nil => simp [keys] at hm
  | cons p t ih =>
    obtain ⟨k', a⟩ := p
    simp only [keys, List.map_cons, List.nodup_cons] at hn
    by_cases h : k' = k
    · subst h
      have hrest : survive (e :: es) t = survive es t :=
        survive_cons_notin e es t (fun k2 hk2 hh => by
          rw [hk] at hh; simp only [Option.some.injEq] at hh; subst hh; exact hn.1 hk2)
      simp only [Tbl.set, Tbl.get, if_true, Option.getD_some]
      simp only [survive, List.filter_cons, proj_cons_self k' es e hk, List.any_cons, hf, Bool.false_or,
        List.foldl_cons] at hrest ⊢
      split <;> simp [hrest, proj_cons_self k' es e hk]
    · have hp : proj k' (e :: es) = proj k' es := proj_cons_other _ _ _ (by simp [hk]; exact fun hh => h hh.symm)
      have hm' : k ∈ keys t := by
        simp only [keys, List.map_cons, List.mem_cons] at hm
        rcases hm with hm | hm
        · exact absurd hm.symm h
        · exact hm
      have := ih hn.2 hm'
      simp only [Tbl.set, Tbl.get, h, if_false]
      simp only [survive, List.filter_cons, hp] at this ⊢
      split <;> simp [this, hp]

theorem survive_append (es : List Event) (t u : Tbl) : survive es (t ++ u) = survive es t ++ survive es u := by
  simp [survive]

/-- the table after a run of events: the surviving old entries in place, then the lifetimes begun since, in
the order in which they began -/
theorem run_table (pre : List Event) (t : Tbl) (hI : Inv pre t) (es : List Event) :
    (run t es).1 = survive es t ++ openKeyed pre es := by
  induction es generalizing pre t with
  | nil =>
    simp only [run, openKeyed, survive, proj, List.filter_nil, List.any_nil, Bool.not_false, List.foldl_nil, List.append_nil]
    clear hI
    induction t with
    | nil => rfl
    | cons p t ih => simpa using ih
  | cons e es ih =>
    simp only [run, openKeyed]
    rw [ih (pre ++ [e]) _ (inv_step pre t hI e)]
    rw [← List.append_assoc]
    congr 1
    cases hk : key e with
    | none =>
      rw [step_key_none t e hk, survive_cons_notin e es t (by simp [hk])]
      simp
    | some k =>
      simp only [step, hk, isFinal_eq]
      by_cases hf : evFinal e
      · simp [hf, survive_del e es k hk hf t]
      · simp only [Bool.not_eq_true] at hf
        simp only [hf, Bool.false_eq_true, if_false, Bool.not_false, Bool.true_and]
        by_cases hm : k ∈ keys t
        · have hc : (cur k pre).isEmpty = false := by
            have h1 := hI.get k
            have h2 : t.get k ≠ none := fun hh => (get_none_iff t k).mp hh hm
            cases hcur : cur k pre with
            | nil => rw [hcur] at h1; exact absurd h1 h2
            | cons a l => rfl
          rw [survive_set e es k hk hf _ t hI.nodup hm]
          simp [hc]
        · have hg : t.get k = none := (get_none_iff t k).mpr hm
          have hc : (cur k pre).isEmpty = true := by
            have h1 := hI.get k
            rw [hg] at h1
            cases hcur : cur k pre with
            | nil => rfl
            | cons a l => rw [hcur] at h1; simp at h1
          rw [set_new _ _ _ hm, survive_append,
            survive_cons_notin e es t (fun k2 hk2 hh => by
              rw [hk] at hh; simp only [Option.some.injEq] at hh; subst hh; exact hm hk2)]
          congr 1
          simp only [hg, Option.getD_none, hc, Bool.true_and]
          simp only [survive, List.filter_cons, List.filter_nil]
          split
          · simp [report_fold]
          · rfl

theorem consumeKeyed_eq (es : List Event) :
    consumeKeyed es = (run [] es).2 ++ ((openKeyed [] es).reverse.map fun p => (p.1, { p.2 with ts1 := none })) := by
  simp only [consumeKeyed, flush, run_table [] [] inv_nil es]
  simp [survive]

/-- **C10 (refinement)**: for every event list the callbacks made by the table-based consumer
(`_StreamToTestRecord`, hence `StreamToDict`) are exactly the reports of the lifetimes: each closed lifetime
when its final status arrives, then at `stopTestRun` the open ones, most recently begun first, without second
timestamp. -/
theorem C10_refines (es : List Event) : consume es = reports es := by
  simp only [consume, consumeKeyed_eq, List.map_append, reports]
  rw [run_closed [] [] inv_nil es, openReports_eq]
  simp [List.map_reverse]


/-! ## StreamSummary -/
theorem fold_gather (rs : List Report) (s : Summary) :
    (rs.foldl gather s).testsRun = s.testsRun + (rs.filter fun r => r.status != .exist).length
    ∧ (rs.foldl gather s).errors = s.errors ++ idsWith rs .errors
    ∧ (rs.foldl gather s).failures = s.failures
    ∧ (rs.foldl gather s).skipped = s.skipped ++ idsWith rs .skipped
    ∧ (rs.foldl gather s).expectedFailures = s.expectedFailures ++ idsWith rs .expectedFailures
    ∧ (rs.foldl gather s).unexpectedSuccesses = s.unexpectedSuccesses ++ idsWith rs .unexpectedSuccesses := by
  induction rs generalizing s with
  | nil => simp [idsWith]
  | cons r rs ih =>
    simp only [List.foldl_cons]
    obtain ⟨h1, h2, h3, h4, h5, h6⟩ := ih (gather s r)
    rw [h1, h2, h3, h4, h5, h6]
    cases hs : r.status <;>
      simp [gather, hs, Generated.Stream.counted, Generated.Stream.bucket, Summary.push, idsWith, specBucket,
        List.filter_cons] <;> omega

theorem summarise_spec (rs : List Report) :
    (summarise rs).testsRun = (rs.filter fun r => r.status != .exist).length
    ∧ (summarise rs).errors = idsWith rs .errors
    ∧ (summarise rs).failures = []
    ∧ (summarise rs).skipped = idsWith rs .skipped
    ∧ (summarise rs).expectedFailures = idsWith rs .expectedFailures
    ∧ (summarise rs).unexpectedSuccesses = idsWith rs .unexpectedSuccesses
    ∧ (summarise rs).wasSuccessful = (idsWith rs .errors).isEmpty := by
  obtain ⟨h1, h2, h3, h4, h5, h6⟩ := fold_gather rs Summary.empty
  simp only [Summary.empty, List.nil_append, Nat.zero_add] at h1 h2 h3 h4 h5 h6
  simp only [summarise, Summary.empty, h1, h2, h3, h4, h5, h6]
  simp

theorem failed_iff_bucket (s : Status) : failedOrIncomplete s = (specBucket s == .errors) := by
  cases s <;> rfl

/-! ## StreamToExtendedDecorator -/
theorem applyTags_enter (T : List Nat) : applyTags [] T [] = T := by
  simp [applyTags]
theorem applyTags_leave (T : List Nat) : applyTags T [] T = [] := by
  simp [applyTags]

theorem sameSet_refl (T : List Nat) : sameSet T T = true := by
  simp [sameSet]

theorem timeOk_refl (t : Option Ts) : timeOk t t = true := by
  cases t <;> simp [timeOk]

/-- reading back the calls `PlaceHolder.run` makes for one report gives one bracket that replays it, and
leaves no run-level tag behind -/
theorem interp_bracket (r : Report) (h : r.status ≠ .exist) (τ : Option Ts) (rest : List ExtEv) :
    ∃ s τ', replays r s = true ∧
      interp { gtags := [], time := τ, test := none, got := none } (bracket r ++ rest)
        = (interp { gtags := [], time := τ', test := none, got := none } rest).map (s :: ·) := by
  obtain ⟨o, ho⟩ : ∃ o, specOutcome r.status = some o := by
    cases hs : r.status <;> simp_all [specOutcome]
  simp only [bracket, statusMap_eq, ho]
  cases h0 : r.ts0 <;> cases h1 : r.ts1 <;>
    simp only [optTime, List.nil_append, List.cons_append, List.append_nil, interp, applyTags_enter,
      applyTags_leave, if_true] <;>
    exact ⟨_, _, by simp [replays, ho, sameSet_refl, h0, h1, timeOk], rfl⟩

theorem interp_brackets (rs : List Report) (h : ∀ r ∈ rs, r.status ≠ .exist) (τ : Option Ts) :
    ∃ seen, interp { gtags := [], time := τ, test := none, got := none } (rs.map bracket).flatten = some seen
      ∧ all2 replays rs seen = true := by
  induction rs generalizing τ with
  | nil => exact ⟨[], by simp [interp], rfl⟩
  | cons r rs ih =>
    obtain ⟨s, τ', hs, hi⟩ := interp_bracket r (h r (by simp)) τ (rs.map bracket).flatten
    obtain ⟨seen, h1, h2⟩ := ih (fun r' hr' => h r' (by simp [hr'])) τ'
    refine ⟨s :: seen, ?_, by simp [all2, hs, h2]⟩
    simp only [List.map_cons, List.flatten_cons, hi, h1, Option.map_some]

theorem body_wrap (mid : List ExtEv) : body ([.startTestRun] ++ mid ++ [.stopTestRun]) = some mid := by
  simp [body]

/-! a report never has a status that none of its events carried (other than `unknown`) -/
theorem report_status (tid : Nat) (l : List Event) (c : Bool) (s : Status) (hs : s ≠ .unknown)
    (h : ∀ e ∈ l, e.status ≠ some s) : (report tid l c).status ≠ s := by
  simp only [report]
  cases hl : lastSome (l.map (·.status)) with
  | none => simpa using fun hh => hs hh.symm
  | some x =>
    simp only [Option.getD_some]
    intro hx; subst hx
    simp only [lastSome] at hl
    have := List.mem_of_getLast? hl
    simp only [List.mem_filterMap, List.mem_map, id] at this
    obtain ⟨_, ⟨e, he, rfl⟩, he2⟩ := this
    exact h e he he2

theorem openTail_subset (acc xs : List Event) : ∀ e ∈ openTail acc xs, e ∈ acc ∨ e ∈ xs := by
  induction xs generalizing acc with
  | nil => intro e he; exact Or.inl he
  | cons x xs ih =>
    intro e he
    simp only [openTail] at he
    split at he
    · rcases ih [] e he with h | h
      · simp at h
      · exact Or.inr (List.mem_cons_of_mem _ h)
    · rcases ih _ e he with h | h
      · simp only [List.mem_append, List.mem_singleton] at h
        rcases h with h | h
        · exact Or.inl h
        · exact Or.inr (h ▸ List.mem_cons_self)
      · exact Or.inr (List.mem_cons_of_mem _ h)

theorem cur_subset (k : Key) (es : List Event) : ∀ e ∈ cur k es, e ∈ es := by
  intro e he
  rcases openTail_subset [] _ e he with h | h
  · simp at h
  · exact (List.mem_filter.mp h).1

theorem closedReports_status (s : Status) (hs : s ≠ .unknown) (pre es : List Event)
    (h : ∀ e ∈ pre ++ es, e.status ≠ some s) : ∀ r ∈ closedReports pre es, r.status ≠ s := by
  induction es generalizing pre with
  | nil => simp [closedReports]
  | cons e es ih =>
    intro r hr
    simp only [closedReports, List.mem_append] at hr
    rcases hr with hr | hr
    · cases hk : key e with
      | none => simp [hk] at hr
      | some k =>
        simp only [hk] at hr
        split at hr
        · simp only [List.mem_singleton] at hr
          subst hr
          apply report_status _ _ _ _ hs
          intro e' he'
          simp only [List.mem_append, List.mem_singleton] at he'
          rcases he' with he' | he'
          · exact h e' (by simp [cur_subset k pre e' he'])
          · subst he'; exact h e' (by simp)
        · simp at hr
    · exact ih (pre ++ [e]) (by simpa using h) r hr

theorem openReports_status (s : Status) (hs : s ≠ .unknown) (pre es : List Event)
    (h : ∀ e ∈ pre ++ es, e.status ≠ some s) : ∀ r ∈ openReports pre es, r.status ≠ s := by
  induction es generalizing pre with
  | nil => simp [openReports]
  | cons e es ih =>
    intro r hr
    simp only [openReports, List.mem_append] at hr
    rcases hr with hr | hr
    · cases hk : key e with
      | none => simp [hk] at hr
      | some k =>
        simp only [hk] at hr
        split at hr
        · simp only [List.mem_singleton] at hr
          subst hr
          apply report_status _ _ _ _ hs
          intro e' he'
          simp only [List.mem_cons] at he'
          rcases he' with he' | he'
          · subst he'; exact h e' (by simp)
          · exact h e' (by simp [(List.mem_filter.mp he').1])
        · simp at hr
    · exact ih (pre ++ [e]) (by simpa using h) r hr

theorem reports_status (s : Status) (hs : s ≠ .unknown) (es : List Event) (h : ∀ e ∈ es, e.status ≠ some s) :
    ∀ r ∈ reports es, r.status ≠ s := by
  intro r hr
  simp only [reports, List.mem_append, List.mem_reverse] at hr
  rcases hr with hr | hr
  · exact closedReports_status s hs [] es (by simpa using h) r hr
  · exact openReports_status s hs [] es (by simpa using h) r hr

/-! ## consumers that raise -/
theorem step_out (t : Tbl) (e : Event) : (step t e).2 = [] ∨ ∃ p, (step t e).2 = [p] := by
  simp only [step]
  split
  · exact Or.inl rfl
  · split
    · exact Or.inr ⟨_, rfl⟩
    · exact Or.inl rfl

/-- what is handed over and what is left in the table does not depend on where the callback raises: the record is
popped before the callback runs -/
theorem runF_eq (faults : List Nat) : ∀ (es : List Event) (s : FSt) (i : Nat),
    (runF faults s i es).1.tbl = (run s.tbl es).1
    ∧ (runF faults s i es).2.1 = (run s.tbl es).2.map (·.2)
    ∧ (runF faults s i es).1.n = s.n + (run s.tbl es).2.length
  | [], s, i => by simp [runF, run]
  | e :: es, s, i => by
      simp only [runF, run, statusF]
      rcases step_out s.tbl e with h | ⟨p, h⟩
      · obtain ⟨h1, h2, h3⟩ := runF_eq faults es { tbl := (step s.tbl e).1, n := s.n } (i + 1)
        simp only [h] at h1 h2 h3 ⊢
        exact ⟨h1, by simpa using h2, by simpa using h3⟩
      · obtain ⟨h1, h2, h3⟩ := runF_eq faults es { tbl := (step s.tbl e).1, n := s.n + 1 } (i + 1)
        simp only [h] at h1 h2 h3 ⊢
        refine ⟨h1, by simpa using h2, ?_⟩
        simp only [List.length_cons, List.length_append, List.length_nil] at h3 ⊢
        omega

/-- one `stopTestRun()` call hands over a prefix (in `popitem()` order) of what is in the table and leaves the rest
there; it raises only after handing over at least one record, and when it returns normally nothing is left -/
theorem stopLoop_split (faults : List Nat) : ∀ (l : List (Key × Report)) (n : Nat),
    (stopLoop faults l n).1 ++ (stopLoop faults l n).2.1.map (fun p => ({ p.2 with ts1 := none } : Report))
        = l.map (fun p => ({ p.2 with ts1 := none } : Report))
    ∧ ((stopLoop faults l n).2.2.2 = true → (stopLoop faults l n).2.1.length < l.length)
    ∧ ((stopLoop faults l n).2.2.2 = false → (stopLoop faults l n).2.1 = [])
  | [], n => by simp [stopLoop]
  | p :: rest, n => by
      simp only [stopLoop]
      split
      · simp
      · obtain ⟨h1, h2, h3⟩ := stopLoop_split faults rest (n + 1)
        refine ⟨by simp [h1], fun h => ?_, fun h => h3 h⟩
        have := h2 h
        simp only [List.length_cons]; omega

/-- the driver's repeated `stopTestRun()` hands over every record still in the table exactly once, in
`popitem()` order, however many of those calls raise -/
theorem stopAll_handed (faults : List Nat) : ∀ (fuel : Nat) (l : List (Key × Report)) (n : Nat), l.length < fuel →
    (stopAll faults fuel l n).1 = l.map (fun p => ({ p.2 with ts1 := none } : Report))
  | 0, l, n, h => by omega
  | fuel + 1, l, n, h => by
      obtain ⟨h1, h2, h3⟩ := stopLoop_split faults l n
      simp only [stopAll]
      split
      · rename_i hr
        have := stopAll_handed faults fuel (stopLoop faults l n).2.1 (stopLoop faults l n).2.2.1 (by have := h2 hr; omega)
        simp only [this, h1]
      · rename_i hr
        have hr' : (stopLoop faults l n).2.2.2 = false := by simpa using hr
        have := h3 hr'
        simpa [this] using h1

/-- **C10 (exactly once, under consumer faults)**: whatever hand-overs the consumer's callback raises at — at a final
status (the exception leaves `status()`), or inside `stopTestRun()` (which the driver then calls again) — the
records handed to it are exactly the reports of the lifetimes, each once and in the same order: the one whose
hand-over raised is not handed over again at `stopTestRun()`, and the open lifetimes are still all reported. -/
theorem C10_once_under_faults (faults : List Nat) (es : List Event) : (consumeF faults es).handed = reports es := by
  obtain ⟨h1, h2, _⟩ := runF_eq faults es { tbl := [], n := 0 } 0
  simp only [consumeF, h2, h1, ← C10_refines, consume, consumeKeyed, flush, List.map_append, List.map_map]
  rw [stopAll_handed faults _ _ _ (by simp)]
  simp [Function.comp_def]

theorem startIds_append (a b : List ExtEv) : startIds (a ++ b) = startIds a ++ startIds b := by
  induction a with
  | nil => rfl
  | cons x a ih => cases x <;> simp [startIds, ih]

theorem startIds_bracket (faults : List Nat) (n : Nat) (r : Report) (h : r.status ≠ .exist) :
    startIds (if faults.contains n then bracketAborted r else bracket r) = [r.id] := by
  obtain ⟨o, ho⟩ : ∃ o, specOutcome r.status = some o := by
    cases hs : r.status <;> simp_all [specOutcome]
  split <;> simp only [bracket, bracketAborted, statusMap_eq, ho] <;>
    cases r.ts0 <;> cases r.ts1 <;> simp [optTime, startIds]

theorem startIds_bracketsF (faults : List Nat) : ∀ (rs : List Report) (n : Nat), (∀ r ∈ rs, r.status ≠ .exist) →
    startIds (bracketsF faults n rs) = rs.map (·.id)
  | [], _, _ => rfl
  | r :: rs, n, h => by
      simp only [bracketsF, startIds_append, startIds_bracket faults n r (h r (by simp)),
        startIds_bracketsF faults rs (n + 1) (fun r' hr' => h r' (by simp [hr'])), List.map_cons, List.singleton_append]

theorem bracketsF_nofault (faults : List Nat) : ∀ (rs : List Report) (n : Nat),
    (∀ k ∈ faults, k < n ∨ n + rs.length ≤ k) → bracketsF faults n rs = (rs.map bracket).flatten
  | [], _, _ => rfl
  | r :: rs, n, h => by
      have hn : faults.contains n = false := by
        simp only [List.contains_eq_mem, decide_eq_false_iff_not]
        intro hm
        rcases h n hm with h1 | h1
        · omega
        · simp only [List.length_cons] at h1; omega
      simp only [bracketsF, hn, Bool.false_eq_true, if_false, List.map_cons, List.flatten_cons]
      rw [bracketsF_nofault faults rs (n + 1)]
      intro k hk
      rcases h k hk with h1 | h1
      · exact Or.inl (by omega)
      · simp only [List.length_cons] at h1; exact Or.inr (by omega)

/-! ## headline: the executable spec holds of the model's trace, for every input -/
theorem perRun_model (c : Run → RunTrace → Bool) (hc : ∀ r, c r (modelRun r) = true) (i : Input) :
    perRun c i (model i) = true := by
  simp only [perRun, model, List.length_map, beq_self_eq_true, Bool.true_and]
  generalize i.runs = runs
  induction runs with
  | nil => rfl
  | cons r rs ih => simp [hc r, ih]


theorem consume_status (es : List Event) : ∀ r ∈ consume (es.filter fun e => e.status != some .exist), r.status ≠ .exist := by
  rw [C10_refines]
  apply reports_status .exist (by decide)
  intro e he
  simpa using (List.mem_filter.mp he).2

theorem holds_model (i : Input) : holds i (model i) = true := by
  simp only [holds, clauses, List.all_cons, List.all_nil, Bool.and_true, Bool.and_eq_true]
  refine ⟨?_, ?_, ?_, ?_, ?_, ?_, ?_⟩
  · exact perRun_model _ (fun r => by simp [rDict, modelRun, C10_once_under_faults]) i
  · exact perRun_model _ (fun r => by
      simp [rTestsRun, modelRun, (summarise_spec _).1, C10_refines]) i
  · exact perRun_model _ (fun r => by
      obtain ⟨_, _, _, h4, h5, h6, _⟩ := summarise_spec (reports r.events)
      simp [rBuckets, modelRun, h4, h5, h6, C10_refines]) i
  · exact perRun_model _ (fun r => by
      obtain ⟨_, h2, h3, _⟩ := summarise_spec (reports r.events)
      simp [rErrors, modelRun, h2, h3, C10_refines]) i
  · exact perRun_model _ (fun r => by
      obtain ⟨_, _, _, _, _, _, h7⟩ := summarise_spec (reports r.events)
      simp only [rVerdict, modelRun, C10_refines, h7, Bool.or_eq_true, Bool.not_eq_true',
        List.any_eq_false, List.isEmpty_eq_false_iff]
      by_cases hany : ∃ x ∈ reports r.events, failedOrIncomplete x.status = true
      · right
        obtain ⟨x, hx, hf⟩ := hany
        rw [failed_iff_bucket] at hf
        intro hnil
        have : x.id ∈ idsWith (reports r.events) .errors :=
          List.mem_map.mpr ⟨x, List.mem_filter.mpr ⟨hx, hf⟩, rfl⟩
        rw [hnil] at this
        simp at this
      · left
        intro x hx
        simpa using fun hf => hany ⟨x, hx, hf⟩) i
  · exact perRun_model _ (fun r => by
      have hst := consume_status r.events
      rw [C10_refines] at hst
      simp only [rExtended, modelRun, toExtendedF, C10_once_under_faults, Bool.and_eq_true, beq_iff_eq,
        Bool.or_eq_true]
      refine ⟨by simp [startIds_append, startIds, startIds_bracketsF _ _ _ hst], ?_⟩
      by_cases hf : (r.faults.any fun k => decide (k < (reports (r.events.filter fun e => e.status != some .exist)).length)) = true
      · exact Or.inl hf
      · right
        rw [bracketsF_nofault r.faults _ 0 (fun k hk => by
          simp only [List.any_eq_true, not_exists, not_and, decide_eq_true_eq] at hf
          exact Or.inr (by have := hf k hk; omega))]
        simp only [body_wrap]
        obtain ⟨seen, h1, h2⟩ := interp_brackets _ hst none
        have hh : ({} : ISt) = { gtags := [], time := none, test := none, got := none } := rfl
        rw [hh, h1]
        exact h2) i
  · exact perRun_model _ (fun r => by simp [rReal, modelRun, C10_refines]) i


/-! ## per key: every lifetime exactly once -/
/-- the closed lifetimes of a key's events: cut after every final event (`acc` = events since the last cut) -/
def closedOf : List Event → List Event → List (List Event)
  | _, [] => []
  | acc, e :: es => if evFinal e then (acc ++ [e]) :: closedOf [] es else closedOf (acc ++ [e]) es

/-- the lifetimes partition the key's events: nothing is lost, nothing is counted twice -/
theorem C10_lifetimes_partition (acc xs : List Event) :
    (closedOf acc xs).flatten ++ openTail acc xs = acc ++ xs := by
  induction xs generalizing acc with
  | nil => simp [closedOf, openTail]
  | cons x xs ih =>
    simp only [closedOf, openTail]
    split
    · simp [ih []]
    · simp [ih (acc ++ [x])]

/-- a closed lifetime ends with a final event and contains no other one (given that the events carried over
from before, `acc`, are not final) -/
theorem C10_lifetimes_closed (acc xs : List Event) (hacc : ∀ e ∈ acc, evFinal e = false) :
    ∀ l ∈ closedOf acc xs, ∃ init e, l = init ++ [e] ∧ evFinal e = true ∧ ∀ x ∈ init, evFinal x = false := by
  induction xs generalizing acc with
  | nil => simp [closedOf]
  | cons x xs ih =>
    intro l hl
    simp only [closedOf] at hl
    split at hl
    · rename_i hx
      rcases List.mem_cons.mp hl with hl | hl
      · exact ⟨acc, x, hl, hx, hacc⟩
      · exact ih [] (by simp) l hl
    · rename_i hx
      apply ih (acc ++ [x]) _ l hl
      intro e he
      rcases List.mem_append.mp he with he | he
      · exact hacc e he
      · simp only [List.mem_singleton] at he; subst he; simpa using hx

theorem inv_run (pre : List Event) (t : Tbl) (hI : Inv pre t) (es : List Event) : Inv (pre ++ es) (run t es).1 := by
  induction es generalizing pre t with
  | nil => simpa [run] using hI
  | cons e es ih =>
    have := ih (pre ++ [e]) _ (inv_step pre t hI e)
    simpa [run] using this

theorem run_key (k : Key) (pre : List Event) (t : Tbl) (hI : Inv pre t) (es : List Event) :
    ((run t es).2.filter (·.1 == k)).map (·.2) = (closedOf (cur k pre) (proj k es)).map (report k.1 · true) := by
  induction es generalizing pre t with
  | nil => simp [run, proj, closedOf]
  | cons e es ih =>
    simp only [run, List.filter_append, List.map_append]
    rw [ih (pre ++ [e]) _ (inv_step pre t hI e)]
    cases hk : key e with
    | none =>
      rw [step_key_none t e hk, proj_cons_other k es e (by simp [hk]), cur_snoc_other k pre e (by simp [hk])]
      simp
    | some k' =>
      by_cases hkk : k' = k
      · subst hkk
        have hrec := step_record pre t hI e k' hk
        rw [proj_cons_self k' es e hk, cur_snoc_self k' pre e hk]
        simp only [step, hk, isFinal_eq, closedOf]
        by_cases hf : evFinal e
        · simp [hf, hrec]
        · simp [hf]
      · have hne : (k' == k) = false := by simpa using hkk
        rw [proj_cons_other k es e (by simp [hk, hkk]), cur_snoc_other k pre e (by simp [hk, hkk])]
        simp only [step, hk]
        split <;> simp [hne]

theorem filter_key (t : Tbl) (k : Key) (h : (keys t).Nodup) :
    t.filter (·.1 == k) = match t.get k with | some a => [(k, a)] | none => [] := by
  induction t with
  | nil => rfl
  | cons p t ih =>
    obtain ⟨k', a⟩ := p
    simp only [keys, List.map_cons, List.nodup_cons] at h
    by_cases hk : k' = k
    · subst hk
      have : t.filter (·.1 == k') = [] := by
        rw [List.filter_eq_nil_iff]
        intro q hq
        simp only [beq_iff_eq]
        intro hh
        exact h.1 (List.mem_map.mpr ⟨q, hq, hh⟩)
      simp [List.filter_cons, Tbl.get, this]
    · have hne : (k' == k) = false := by simpa using hk
      simp only [List.filter_cons, hne, Tbl.get, hk, if_false]
      exact ih h.2

/-- **C10 (exactly once, per key)**: the reports made for key `(test id, route code)` are exactly the lifetimes
of that key, in order — one report per closed lifetime, and one (without second timestamp) for the open lifetime
if there is one.  Events of other keys do not interfere. -/
theorem C10_once (es : List Event) (k : Key) :
    ((consumeKeyed es).filter (·.1 == k)).map (·.2)
      = (closedOf [] (proj k es)).map (report k.1 · true)
        ++ (match cur k es with | [] => [] | a :: l => [report k.1 (a :: l) false]) := by
  have hI := inv_run [] [] inv_nil es
  simp only [List.nil_append] at hI
  simp only [consumeKeyed, List.filter_append, List.map_append]
  rw [run_key k [] [] inv_nil es]
  congr 1
  simp only [flush, List.filter_map, List.filter_reverse]
  have : ((fun x : Key × Report => x.1 == k) ∘ fun p : Key × Report => (p.1, { p.2 with ts1 := none }))
      = fun x => x.1 == k := rfl
  rw [this, filter_key _ k hI.nodup, hI.get k]
  cases cur k es with
  | nil => rfl
  | cons a l => simp [report_open]

/-- **C10**: events without a test id are ignored — removing (or inserting) them anywhere changes nothing. -/
theorem C10_no_id_ignored (es : List Event) : consume (es.filter fun e => e.testId.isSome) = consume es := by
  have h : ∀ t, run t (es.filter fun e => e.testId.isSome) = run t es := by
    induction es with
    | nil => intro t; rfl
    | cons e es ih =>
      intro t
      cases hid : e.testId with
      | none =>
        have : key e = none := by simp [key, hid]
        simp [List.filter_cons, hid, run, step_key_none t e this, ih t]
      | some n => simp [List.filter_cons, hid, run, ih]
  simp [consume, consumeKeyed, h]

/-! ## what a report contains -/
theorem C10_report_status (id : Nat) (l : List Event) (c : Bool) :
    (report id l c).status = ((l.filterMap (·.status)).getLast?).getD .unknown := by
  simp [report, lastSome, List.filterMap_map]
theorem C10_report_tags (id : Nat) (l : List Event) (c : Bool) :
    (report id l c).tags = ((l.filterMap (·.tags)).getLast?).getD [] := by
  simp [report, lastSome, List.filterMap_map]
theorem C10_report_timestamps (id : Nat) (a : Event) (l : List Event) :
    (report id (a :: l) true).ts0 = a.timestamp ∧ (report id (a :: l) true).ts1 = ((a :: l).getLast?).bind (·.timestamp)
    ∧ (report id (a :: l) false).ts0 = a.timestamp ∧ (report id (a :: l) false).ts1 = none := by
  simp [report]
/-- attachments: one entry per file name that received a non-empty chunk, no name twice; its bytes are the
concatenation of that name's non-empty chunks in arrival order, its content type that of the first of them -/
theorem C10_report_files (id : Nat) (l : List Event) (c : Bool) :
    ((report id l c).details.map (·.name)).Nodup
    ∧ (∀ n, n ∈ (report id l c).details.map (·.name) ↔ ∃ e ∈ l, ∃ m bs, chunk e = some (n, m, bs))
    ∧ ∀ d ∈ (report id l c).details,
        d.bytes = (((l.filterMap chunk).filter (·.1 == d.name)).map (·.2.2)).flatten
        ∧ d.mime = ((((l.filterMap chunk).filter (·.1 == d.name)).head?).bind (·.2.1)).getD 0 := by
  have hmap : (report id l c).details.map (·.name) = firsts ((l.filterMap chunk).map (·.1)) := by
    simp [report, List.map_map, Function.comp_def, detailOf]
  refine ⟨hmap ▸ nodup_firsts _, fun n => ?_, fun d hd => ?_⟩
  · rw [hmap, mem_firsts]
    simp only [List.mem_map, List.mem_filterMap]
    constructor
    · rintro ⟨⟨n', m, bs⟩, ⟨e, he, hc⟩, rfl⟩; exact ⟨e, he, m, bs, hc⟩
    · rintro ⟨e, he, m, bs, hc⟩; exact ⟨(n, m, bs), ⟨e, he, hc⟩, rfl⟩
  · simp only [report, List.mem_map] at hd
    obtain ⟨n, _, rfl⟩ := hd
    simp [detailOf]

/-! ## StreamSummary, StreamToExtendedDecorator (readable forms) -/
/-- **C10 (summary)**: `testsRun` counts the reported tests whose status is not `exists`; each of them lands in
exactly the list its status names (none for success) — skip / xfail / uxsuccess in theirs, failed and incomplete
(`inprogress`, `unknown`) tests in `errors`, nothing in `failures`. -/
theorem C10_summary (es : List Event) :
    (summarise (consume es)).testsRun = ((reports es).filter fun r => r.status != .exist).length
    ∧ (summarise (consume es)).errors = idsWith (reports es) .errors
    ∧ (summarise (consume es)).failures = []
    ∧ (summarise (consume es)).skipped = idsWith (reports es) .skipped
    ∧ (summarise (consume es)).expectedFailures = idsWith (reports es) .expectedFailures
    ∧ (summarise (consume es)).unexpectedSuccesses = idsWith (reports es) .unexpectedSuccesses := by
  obtain ⟨h1, h2, h3, h4, h5, h6, _⟩ := summarise_spec (reports es)
  rw [C10_refines]
  exact ⟨h1, h2, h3, h4, h5, h6⟩

/-- **C10 (verdict)**: `wasSuccessful()` is false exactly when some reported test failed or is incomplete. -/
theorem C10_verdict (es : List Event) :
    (summarise (consume es)).wasSuccessful = false ↔ ∃ r ∈ reports es, failedOrIncomplete r.status = true := by
  rw [C10_refines, (summarise_spec (reports es)).2.2.2.2.2.2]
  simp only [List.isEmpty_eq_false_iff, idsWith]
  constructor
  · intro h
    cases hf : (reports es).filter (fun r => specBucket r.status == .errors) with
    | nil => simp [hf] at h
    | cons r rs =>
      have : r ∈ (reports es).filter (fun r => specBucket r.status == .errors) := by simp [hf]
      obtain ⟨h1, h2⟩ := List.mem_filter.mp this
      exact ⟨r, h1, by rw [failed_iff_bucket]; exact h2⟩
  · rintro ⟨r, hr, hf⟩ hnil
    rw [failed_iff_bucket] at hf
    have : r.id ∈ ((reports es).filter (fun r => specBucket r.status == .errors)).map (·.id) :=
      List.mem_map.mpr ⟨r, List.mem_filter.mpr ⟨hr, hf⟩, rfl⟩
    rw [hnil] at this
    simp at this

/-- **C10 (to extended)**: the calls `StreamToExtendedDecorator` makes are `startTestRun`, then for each report of
the stream without its `exists` events one well-formed `startTest · outcome · stopTest` bracket — same id, the
outcome of the status (`fail`/incomplete ↦ failure), the report's tags in force, the supplied times in force, the
same attachments — then `stopTestRun`. -/
theorem C10_to_extended (es : List Event) :
    ∃ mid seen, toExtended es = [.startTestRun] ++ mid ++ [.stopTestRun] ∧ interp {} mid = some seen
      ∧ all2 replays (reports (es.filter fun e => e.status != some .exist)) seen = true := by
  obtain ⟨seen, h1, h2⟩ := interp_brackets _ (consume_status es) none
  refine ⟨_, seen, rfl, h1, ?_⟩
  simpa [C10_refines] using h2

/-! ## non-vacuity -/
private def e (tid : Nat) (st : Option Status) (ts : Nat) : Event :=
  { testId := some tid, status := st, tags := none, runnable := true, fileName := none, fileBytes := none,
    eof := false, mime := none, route := none, timestamp := some (.t ts) }
private def f (tid : Nat) (bs : Bytes) : Event :=
  { testId := some tid, status := none, tags := some [7], runnable := true, fileName := some 2, fileBytes := some bs,
    eof := false, mime := some 1, route := none, timestamp := none }

/-- two lifetimes of one key (the id is re-used after its final status), an interleaved second test that stays
open, an attachment split over two chunks around an empty one -/
example : consume [e 0 (some .inprogress) 1, f 0 [65], e 1 (some .inprogress) 2, f 0 [], f 0 [66, 67],
                   e 0 (some .fail) 3, e 0 (some .success) 4] =
    [ { id := 0, tags := [7], details := [{ name := 2, mime := 1, bytes := [65, 66, 67] }], status := .fail,
        ts0 := some (.t 1), ts1 := some (.t 3) },
      { id := 0, tags := [], details := [], status := .success, ts0 := some (.t 4), ts1 := some (.t 4) },
      { id := 1, tags := [], details := [], status := .inprogress, ts0 := some (.t 2), ts1 := none } ] := by
  decide
example : (summarise (consume [e 0 (some .inprogress) 1, e 1 (some .skip) 2])).wasSuccessful = false := by decide
example : (closedOf [] [e 0 (some .fail) 3, e 0 none 4, e 0 (some .success) 5]).length = 2 := by decide


/-! ### consumer faults: non-vacuity and sharpness -/
/-- the callback raises at the hand-over of test 0's final status (call number 1) and again inside `stopTestRun()`
(hand-over 2, of the open test 1; the one of test 2 before it went through): three reports, each once -/
example : consumeF [0, 2] [e 0 (some .inprogress) 1, e 0 (some .success) 2, e 1 (some .inprogress) 3, e 2 (some .inprogress) 4]
    = { handed := [ { id := 0, tags := [], details := [], status := .success, ts0 := some (.t 1), ts1 := some (.t 2) },
                    { id := 2, tags := [], details := [], status := .inprogress, ts0 := some (.t 4), ts1 := none },
                    { id := 1, tags := [], details := [], status := .inprogress, ts0 := some (.t 3), ts1 := none } ]
        raisedAt := [1], stopRaises := 1 } := by decide
/-- the spec is sharp: a consumer that keeps the record in the table while the callback runs reports the test a second
time at `stopTestRun()` (as if it had hung) when the callback raised — rejected by the `reports` clause -/
example :
    let r : Run := { events := [e 0 (some .success) 2], faults := [0] }
    let t := modelRun r
    rDict r { t with dict := t.dict ++ [{ id := 0, tags := [], details := [], status := .success, ts0 := some (.t 2), ts1 := none }] }
      = false := by decide

/-! ## ties to the source (`harness/pystream.py` → `TTV/Generated/ConsumerSrc.lean`, regenerated on every run) -/
open TTV.ConsumerSrc in
/-- **`_update_case` is the code's**: the model's `upd` is the interpretation of the four terms that symbolic execution
of `_StreamToTestRecord._update_case` yields — status replaced iff `test_status is not None`, second timestamp always
replaced (also by `None`), a chunk appended iff `file_name is not None and file_bytes` (truthiness: a non-empty chunk),
tags replaced iff `test_tags is not None` (also by an empty set) -/
theorem C10_src_update_case (r : Report) (e : Event) :
    updInterp Generated.ConsumerSrc.updStatus Generated.ConsumerSrc.updTs1 Generated.ConsumerSrc.updDetails
      Generated.ConsumerSrc.updTags r e = some (upd r e) := by
  have h1 : Generated.ConsumerSrc.updStatus = refUpdStatus := by decide
  have h2 : Generated.ConsumerSrc.updTs1 = refUpdTs1 := by decide
  have h3 : Generated.ConsumerSrc.updDetails = refUpdDetails := by decide
  have h4 : Generated.ConsumerSrc.updTags = refUpdTags := by decide
  rw [h1, h2, h3, h4]; exact updInterp_ref r e

open TTV.ConsumerSrc in
/-- **`status` is the code's**: `_ensure_key` (no test id: nothing happens; else a record is created if the key has none),
`_update_case` on the record with every argument handed to its own parameter, and — iff the status is not interim — the
record **popped from the table before** it is handed to the callback, whose exception leaves `status()`: this is the
model's `statusF`, for every fault plan -/
theorem C10_src_status (faults : List Nat) (s : FSt) (e : Event) :
    let r := sInterp faults
      (updInterp Generated.ConsumerSrc.updStatus Generated.ConsumerSrc.updTs1 Generated.ConsumerSrc.updDetails Generated.ConsumerSrc.updTags)
      Generated.ConsumerSrc.ensureKey e Generated.ConsumerSrc.recordStatus { tbl := s.tbl, n := s.n }
    r.bad = false ∧ (({ tbl := r.tbl, n := r.n } : FSt), r.handed, r.raised) = statusF faults s e := by
  have h1 : Generated.ConsumerSrc.updStatus = refUpdStatus := by decide
  have h2 : Generated.ConsumerSrc.updTs1 = refUpdTs1 := by decide
  have h3 : Generated.ConsumerSrc.updDetails = refUpdDetails := by decide
  have h4 : Generated.ConsumerSrc.updTags = refUpdTags := by decide
  have h5 : Generated.ConsumerSrc.ensureKey = refEnsureKey := by decide
  have h6 : Generated.ConsumerSrc.recordStatus = refRecordStatus := by decide
  rw [h1, h2, h3, h4, h5, h6]; exact sInterp_ref faults s e

open TTV.ConsumerSrc in
/-- **`stopTestRun` is the code's**: `popitem()` (last in, first out), second timestamp cleared, handed over — each
record out of the table before the callback sees it -/
theorem C10_src_stop (faults : List Nat) (l : List (Key × Report)) (n : Nat) :
    dInterp faults Generated.ConsumerSrc.recordStop l n = stopLoop faults l n := by
  have h : Generated.ConsumerSrc.recordStop = refRecordStop := by decide
  rw [h]; exact dInterp_ref faults l n

open TTV.ConsumerSrc in
/-- **`StreamToDict` and `StreamToExtendedDecorator` are the code's**: `StreamToDict` hands every event on;
`StreamToExtendedDecorator.status` drops exactly the `exists` events *before* the table, `startTestRun` starts the wrapped
result then the table, `stopTestRun` flushes the table then stops the wrapped result, each completed record is replayed by
`to_test_case().run(decorated)` — together the model's `toExtendedF` -/
theorem C10_src_extended (faults : List Nat) (es : List Event) :
    es.filterMap (fStatus · Generated.ConsumerSrc.dictStatus) = es
    ∧ extInterp Generated.ConsumerSrc.extStatus Generated.ConsumerSrc.extStart Generated.ConsumerSrc.extStop
        Generated.ConsumerSrc.extHandle faults es = toExtendedF faults es := by
  have h0 : Generated.ConsumerSrc.dictStatus = refDictStatus := by decide
  have h1 : Generated.ConsumerSrc.extStatus = refExtStatus := by decide
  have h2 : Generated.ConsumerSrc.extStart = refExtStart := by decide
  have h3 : Generated.ConsumerSrc.extStop = refExtStop := by decide
  have h4 : Generated.ConsumerSrc.extHandle = refExtHandle := by decide
  rw [h0, h1, h2, h3, h4]; exact ⟨fStatus_refDict es, extInterp_ref faults es⟩

end TTV.Props.C10
