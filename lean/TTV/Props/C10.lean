import TTV.Model.Stream
import TTV.Spec.C10
namespace TTV.Props.C10
end TTV.Props.C10
