import TTV.Model.Matchers
import TTV.Model.Describe
import TTV.Model.TextRepr
import TTV.Spec.C07
import TTV.Props.C06
import TTV.Model.MatchSkel
import TTV.Generated.MatchSrc
import Mathlib.Data.List.Nodup
/-! # C07 — mismatches are always describable; assertThat / expectThat report them faithfully

* `C07_text_repr_roundtrip`      : `pyEval (textRepr s) = s` for every str / bytes, multiline setting, `isprintable`
  (`pyEval_pyRepr`: the same for `repr` itself — the non-multiline branch)
* `C07_str_table_ok`, `C07_str_total`, `C07_str_known_total` : `str(matcher)` is total (table of `__str__` resolutions read from the tree)
* `C07_describe_total`, `C07_mismatch_error_str_total` : `describe()`, `get_details()`, `str(MismatchError)` are total
* `C07_predicate_mismatch_built`  : a well-formed `MatchesPredicate` returns its Mismatch for every matchee (tuples too)
* `C07_assertThat_iff`, `C07_expectThat`, `C07_expectThat_fails` (a failed expectation fails the test whatever the
  test does afterwards; `selectExn_forced`), `C07_plain_outcomes`, `C07_details_nonclobbering` (+ `uniq_fresh`, `freshAll_iff`)
* `holds_model`                  : the executable spec holds of the model's trace, for every input
-/
namespace TTV.Props.C07
open TTV.TextRepr

/-! ## hexadecimal digits -/
theorem hexVal_hexDigit {d : Nat} (h : d < 16) : hexVal (hexDigit d) = some d := by
  unfold hexDigit hexVal
  split
  · rw [if_pos (by omega)]; congr 1; omega
  · rw [if_neg (by omega), if_pos (by omega)]; congr 1; omega

theorem fromHex_toHex : ∀ (k n acc : Nat) (rest : List Nat), n < 16 ^ k →
    fromHex k acc (toHex k n ++ rest) = some (acc * 16 ^ k + n, rest)
  | 0, n, acc, rest, h => by
    have : n = 0 := by simpa using h
    simp [fromHex, toHex, this]
  | k + 1, n, acc, rest, h => by
    have hd : n / 16 ^ k < 16 := by
      rw [Nat.div_lt_iff_lt_mul (Nat.pow_pos (by decide))]
      rw [Nat.pow_succ] at h; omega
    have hm : n % 16 ^ k < 16 ^ k := Nat.mod_lt _ (Nat.pow_pos (by decide))
    simp only [toHex, List.cons_append, fromHex, hexVal_hexDigit hd]
    rw [fromHex_toHex k _ _ rest hm]
    congr 2
    have hdm := Nat.div_add_mod n (16 ^ k)
    have e1 : (acc * 16 + n / 16 ^ k) * 16 ^ k = acc * (16 ^ k * 16) + 16 ^ k * (n / 16 ^ k) := by
      rw [Nat.add_mul, Nat.mul_assoc, Nat.mul_comm 16 (16 ^ k), Nat.mul_comm (n / 16 ^ k) (16 ^ k)]
    rw [Nat.pow_succ, e1]
    omega

theorem hexDigit_range (d : Nat) (h : d < 16) :
    (48 ≤ hexDigit d ∧ hexDigit d ≤ 57) ∨ (97 ≤ hexDigit d ∧ hexDigit d ≤ 102) := by
  unfold hexDigit; split <;> omega

theorem toHex_range : ∀ (k n : Nat), n < 16 ^ k → ∀ d ∈ toHex k n, (48 ≤ d ∧ d ≤ 57) ∨ (97 ≤ d ∧ d ≤ 102)
  | 0, _, _, d, hd => by simp [toHex] at hd
  | k + 1, n, h, d, hd => by
    have hdv : n / 16 ^ k < 16 := by
      rw [Nat.div_lt_iff_lt_mul (Nat.pow_pos (by decide))]
      rw [Nat.pow_succ] at h; omega
    simp only [toHex, List.mem_cons] at hd
    rcases hd with rfl | hd
    · exact hexDigit_range _ hdv
    · exact toHex_range k _ (Nat.mod_lt _ (Nat.pow_pos (by decide))) d hd

/-! ## `repr`: the atoms of the body -/
def valid (b : Bool) (c : Nat) : Prop := if b then c < 256 else c < 1114112

def HexOnly (l : List Nat) : Prop := ∀ d ∈ l, (48 ≤ d ∧ d ≤ 57) ∨ (97 ≤ d ∧ d ≤ 102)

def EscLetter (x : Nat) : Prop := x = 116 ∨ x = 110 ∨ x = 114 ∨ x = 120 ∨ x = 117 ∨ x = 85

theorem dec_hex2 (b : Bool) (c : Nat) (hc : c < 256) (rest : List Nat) :
    dec b (120 :: toHex 2 c ++ rest) = some (c, rest) := by
  have := fromHex_toHex 2 c 0 rest (by simpa using hc)
  simp only [dec, BS, Q, DQ]
  simpa using this

/-- what `repr` emits for one character: the escaped quote, a plain character, the escaped backslash, or
a letter escape (`\t \n \r \xNN \uNNNN \UNNNNNNNN`) that `dec` reads back -/
theorem escChar_cases (b : Bool) (p : Nat → Bool) (q c : Nat) (hq : q = Q ∨ q = DQ) (hc : valid b c) :
    (c = q ∧ escChar b p q c = [BS, q]) ∨
    (c ≠ q ∧ c ≠ BS ∧ c ≠ NL ∧ escChar b p q c = [c]) ∨
    (c ≠ q ∧ c = BS ∧ escChar b p q c = [BS, BS]) ∨
    (c ≠ q ∧ c ≠ BS ∧ ∃ x more, escChar b p q c = BS :: x :: more ∧ EscLetter x ∧ HexOnly more ∧
        ∀ rest, dec b (x :: more ++ rest) = some (c, rest)) := by
  have hqb : q ≠ BS := by rcases hq with rfl | rfl <;> decide
  unfold escChar
  by_cases h1 : c = q
  · left; subst h1; simp
  by_cases h2 : c = BS
  · right; right; left; subst h2; simp [h1]
  have h12 : ¬ (c = q ∨ c = BS) := by simp [h1, h2]
  rw [if_neg h12]
  have noHex : HexOnly [] := by intro d hd; simp at hd
  by_cases h3 : c = 9
  · right; right; right
    refine ⟨h1, h2, 116, [], by simp [h3], by simp [EscLetter], noHex, ?_⟩
    intro rest; subst h3; simp [dec, BS, Q, DQ]
  rw [if_neg h3]
  by_cases h4 : c = 10
  · right; right; right
    refine ⟨h1, h2, 110, [], by simp [h4], by simp [EscLetter], noHex, ?_⟩
    intro rest; subst h4; simp [dec, BS, Q, DQ]
  rw [if_neg h4]
  by_cases h5 : c = 13
  · right; right; right
    refine ⟨h1, h2, 114, [], by simp [h5], by simp [EscLetter], noHex, ?_⟩
    intro rest; subst h5; simp [dec, BS, Q, DQ]
  rw [if_neg h5]
  by_cases h6 : c < 32 ∨ c = 127
  · right; right; right
    have hc256 : c < 256 := by omega
    refine ⟨h1, h2, 120, toHex 2 c, by simp [h6], by simp [EscLetter], toHex_range 2 c (by simpa using hc256), ?_⟩
    intro rest; exact dec_hex2 b c hc256 rest
  rw [if_neg h6]
  by_cases h7 : c < 127
  · right; left
    exact ⟨h1, h2, h4, by simp [h7]⟩
  rw [if_neg h7]
  cases b with
  | true =>
    right; right; right
    have hc256 : c < 256 := by simpa [valid] using hc
    refine ⟨h1, h2, 120, toHex 2 c, by simp, by simp [EscLetter], toHex_range 2 c (by simpa using hc256), ?_⟩
    intro rest; exact dec_hex2 true c hc256 rest
  | false =>
    simp only [Bool.false_eq_true, ↓reduceIte]
    by_cases h8 : p c = true
    · right; left
      exact ⟨h1, h2, h4, by simp [h8]⟩
    rw [if_neg h8]
    right; right; right
    by_cases h9 : c < 256
    · refine ⟨h1, h2, 120, toHex 2 c, by simp [h9], by simp [EscLetter], toHex_range 2 c (by simpa using h9), ?_⟩
      intro rest; exact dec_hex2 false c h9 rest
    rw [if_neg h9]
    by_cases h10 : c < 65536
    · refine ⟨h1, h2, 117, toHex 4 c, by simp [h10], by simp [EscLetter], toHex_range 4 c (by simpa using h10), ?_⟩
      intro rest
      have := fromHex_toHex 4 c 0 rest (by simpa using h10)
      simp only [dec, BS, Q, DQ]
      simpa using this
    · have hc8 : c < 16 ^ 8 := by
        have : c < 1114112 := by simpa [valid] using hc
        omega
      refine ⟨h1, h2, 85, toHex 8 c, by simp [h10], by simp [EscLetter], toHex_range 8 c hc8, ?_⟩
      intro rest
      have := fromHex_toHex 8 c 0 rest hc8
      simp only [dec, BS, Q, DQ]
      simpa using this

theorem dec_quote (b : Bool) (q : Nat) (hq : q = Q ∨ q = DQ) (rest : List Nat) :
    dec b (q :: rest) = some (q, rest) := by
  rcases hq with rfl | rfl <;> simp [dec, BS, Q, DQ]

theorem dec_bs (b : Bool) (rest : List Nat) : dec b (BS :: rest) = some (BS, rest) := by
  simp [dec]

/-! ## `repr` round trip (the non-multiline branch of `text_repr`) -/
theorem ev1_reprBody (b : Bool) (p : Nat → Bool) (q : Nat) (hq : q = Q ∨ q = DQ) :
    ∀ (s : List Nat), (∀ c ∈ s, valid b c) → ∀ fuel, s.length + 1 ≤ fuel →
      ev1 b q fuel (reprBody b p q s ++ [q]) = some s
  | [], _, fuel, hf => by
    obtain ⟨n, rfl⟩ : ∃ n, fuel = n + 1 := ⟨fuel - 1, by simp at hf; omega⟩
    simp [reprBody, ev1]
  | c :: s, hv, fuel, hf => by
    obtain ⟨n, rfl⟩ : ∃ n, fuel = n + 1 := ⟨fuel - 1, by simp at hf; omega⟩
    have hqb : q ≠ BS := by rcases hq with rfl | rfl <;> decide
    have hqn : q ≠ NL := by rcases hq with rfl | rfl <;> decide
    have ih := ev1_reprBody b p q hq s (fun c hc => hv c (List.mem_cons_of_mem _ hc)) n
      (by simp at hf; omega)
    have hbq : BS ≠ q := fun h => hqb h.symm
    have hbn : BS ≠ NL := by decide
    rcases escChar_cases b p q c hq (hv c List.mem_cons_self) with
      ⟨rfl, he⟩ | ⟨h1, h2, h3, he⟩ | ⟨h1, rfl, he⟩ | ⟨h1, h2, x, more, he, _, _, hd⟩
    · simp only [reprBody, he, List.cons_append, List.nil_append, ev1, if_neg hbq, if_neg hbn, if_true,
        dec_quote b c hq, ih, Option.map_some]
    · simp only [reprBody, he, List.cons_append, List.nil_append, ev1, if_neg h1, if_neg h3, if_neg h2, ih,
        Option.map_some]
    · simp only [reprBody, he, List.cons_append, List.nil_append, ev1, if_neg hbq, if_neg hbn, if_true,
        dec_bs, ih, Option.map_some]
    · have := hd (reprBody b p q s ++ [q])
      simp only [reprBody, he, List.cons_append, List.append_assoc, ev1, if_neg hbq, if_neg hbn, if_true]
      rw [List.cons_append] at this
      rw [this]
      simp [ih]

theorem reprBody_length (b : Bool) (p : Nat → Bool) (q : Nat) (hq : q = Q ∨ q = DQ) :
    ∀ (s : List Nat), (∀ c ∈ s, valid b c) → s.length ≤ (reprBody b p q s).length
  | [], _ => by simp [reprBody]
  | c :: s, hv => by
    have ih := reprBody_length b p q hq s (fun c hc => hv c (List.mem_cons_of_mem _ hc))
    have : 1 ≤ (escChar b p q c).length := by
      rcases escChar_cases b p q c hq (hv c List.mem_cons_self) with
        ⟨_, he⟩ | ⟨_, _, _, he⟩ | ⟨_, _, he⟩ | ⟨_, _, x, more, he, _⟩ <;> simp [he]
    simp only [reprBody, List.length_append, List.length_cons]
    omega

/-- the body of `repr(s)` never starts with the quote character itself -/
theorem reprBody_head (b : Bool) (p : Nat → Bool) (q : Nat) (hq : q = Q ∨ q = DQ) (s : List Nat)
    (hv : ∀ c ∈ s, valid b c) : (reprBody b p q s).head? ≠ some q := by
  have hqb : BS ≠ q := by rcases hq with rfl | rfl <;> decide
  cases s with
  | nil => simp [reprBody]
  | cons c s =>
    rcases escChar_cases b p q c hq (hv c List.mem_cons_self) with
      ⟨_, he⟩ | ⟨h1, _, _, he⟩ | ⟨_, _, he⟩ | ⟨_, _, x, more, he, _⟩ <;> simp [reprBody, he, hqb]
    exact h1

theorem chooseQuote_cases (s : List Nat) : chooseQuote s = Q ∨ chooseQuote s = DQ := by
  unfold chooseQuote; split <;> simp

theorem stripPre_pre (b : Bool) (l : List Nat) : stripPre b (pre b ++ l) = some l := by
  cases b <;> simp [stripPre, pre]

/-- **`repr` round trip**: evaluating `repr(s)` as a literal gives `s` back (model of CPython, for every
`isprintable` predicate). -/
theorem pyEval_pyRepr (b : Bool) (p : Nat → Bool) (s : List Nat) (hv : ∀ c ∈ s, valid b c) :
    pyEval b (pyRepr b p s) = some s := by
  have hq := chooseQuote_cases s
  generalize hqq : chooseQuote s = q at hq
  have hbody := ev1_reprBody b p q hq s hv
  have hlen := reprBody_length b p q hq s hv
  have hhead := reprBody_head b p q hq s hv
  unfold pyRepr pyEval
  rw [hqq, List.append_assoc, List.append_assoc, stripPre_pre]
  simp only [List.cons_append, List.nil_append]
  have hfuel : s.length + 1 ≤ (reprBody b p q s ++ [q]).length + 1 := by simp; omega
  have goal2 : (if q = Q ∨ q = DQ then ev1 b q ((reprBody b p q s ++ [q]).length + 1) (reprBody b p q s ++ [q]) else none)
      = some s := by
    rw [if_pos hq]; exact hbody _ hfuel
  -- the triple-quote patterns cannot fire: the body never starts with the quote
  rcases hq with rfl | rfl
  · cases hb : reprBody b p Q s with
    | nil => simpa [hb] using goal2
    | cons x xs =>
      have hx : x ≠ 39 := by simpa [hb, Q] using hhead
      rw [hb] at goal2
      simp only [List.cons_append]
      split
      · rename_i heq; simp [Q] at heq; exact absurd heq.1 hx
      · rename_i heq; simp [Q] at heq; exact absurd heq.1 hx
      · rename_i q' t _ _ heq
        simp only [List.cons.injEq] at heq
        obtain ⟨rfl, rfl⟩ := heq
        simpa using goal2
      · rename_i heq; simp at heq
  · split
    · rename_i heq; simp [DQ] at heq
    · rename_i heq; simp [DQ] at heq
    · rename_i q' t _ _ heq
      simp only [List.cons.injEq] at heq
      obtain ⟨rfl, rfl⟩ := heq
      exact goal2
    · rename_i heq; simp at heq

/-! ## the `'''` escaping loop and the evaluator of a triple-quoted literal (core of the round trip) -/
structure Atom where
  chars : List Nat
  val   : Nat

/-- a plain character (not a backslash), or an escape `\…` without a quote in it that `dec` maps back -/
def Atom.Valid (b : Bool) (a : Atom) : Prop :=
  (a.chars = [a.val] ∧ a.val ≠ BS) ∨
  (∃ body, a.chars = BS :: body ∧ Q ∉ body ∧ ∀ rest, dec b (body ++ rest) = some (a.val, rest))

def flat (as : List Atom) : List Nat := (as.map Atom.chars).flatten

theorem esc3_cons_ne {c : Nat} (h : c ≠ Q) (t : List Nat) : esc3 (c :: t) = c :: esc3 t := by
  simp [esc3, h]

theorem esc3_noq_prefix (p : List Nat) (hp : Q ∉ p) (t : List Nat) : esc3 (p ++ t) = p ++ esc3 t := by
  induction p with
  | nil => rfl
  | cons c p ih =>
    have hc : c ≠ Q := by intro h; apply hp; simp [h]
    have hp' : Q ∉ p := by intro h; apply hp; simp [h]
    simp [esc3_cons_ne hc, ih hp']

theorem esc3_take2 (L : List Nat) (hlen : 2 ≤ L.length) (h : L.take 2 ≠ [Q, Q]) :
    (esc3 L ++ [Q]).take 2 ≠ [Q, Q] := by
  match L, hlen with
  | a :: c :: t, _ =>
    by_cases ha : a = Q
    · subst ha
      have hb : c ≠ Q := by intro hb; apply h; simp [hb]
      have : esc3 (Q :: c :: t) = Q :: c :: esc3 t := by
        simp [esc3, hb]
      simp [this, hb]
    · simp [esc3_cons_ne ha]
      intro h1; exact absurd h1 ha

theorem step_atom (b : Bool) (a : Atom) (ha : a.Valid b) (L : List Nat) (hlen : 2 ≤ L.length) (m : Nat) :
    ev3 b (m + 1) (esc3 (a.chars ++ L) ++ [Q]) = (ev3 b m (esc3 L ++ [Q])).map (a.val :: ·) := by
  have hbq : BS ≠ Q := by decide
  rcases ha with ⟨hc, hne⟩ | ⟨body, hc, hq, hdec⟩
  · by_cases hv : a.val = Q
    · by_cases hL : L.take 2 = [Q, Q]
      · have : esc3 (a.chars ++ L) = BS :: Q :: esc3 L := by simp [hc, hv, esc3, hL]
        have hd := dec_quote b Q (Or.inl rfl)
        simp [this, ev3, hbq, hd, hv]
      · have : esc3 (a.chars ++ L) = Q :: esc3 L := by simp [hc, hv, esc3, hL]
        have h2 := esc3_take2 L hlen hL
        have hqb : Q ≠ BS := by decide
        simp [this, ev3, h2, hqb, hv]
    · have : esc3 (a.chars ++ L) = a.val :: esc3 L := by simp [hc, esc3_cons_ne hv]
      simp [this, ev3, hv, hne]
  · have hq' : Q ∉ BS :: body := by
      intro h; rcases List.mem_cons.mp h with h | h
      · exact absurd h.symm hbq
      · exact hq h
    have : esc3 (a.chars ++ L) = BS :: body ++ esc3 L := by
      rw [hc]; exact esc3_noq_prefix _ hq' L
    simp [this, ev3, hbq, List.append_assoc, hdec]

/-- for every list of valid atoms: the produced body evaluates back to the atoms' values and the closing
quotes are found exactly at the end -/
theorem ev3_roundtrip (b : Bool) : ∀ (as : List Atom), (∀ a ∈ as, a.Valid b) → ∀ fuel, as.length + 1 ≤ fuel →
    ev3 b fuel (esc3 (flat as ++ [Q, Q]) ++ [Q]) = some (as.map Atom.val)
  | [], _, fuel, hf => by
    obtain ⟨n, rfl⟩ : ∃ n, fuel = n + 1 := ⟨fuel - 1, by simp at hf; omega⟩
    simp [flat, esc3, ev3]
  | a :: as, hv, fuel, hf => by
    obtain ⟨n, rfl⟩ : ∃ n, fuel = n + 1 := ⟨fuel - 1, by simp at hf; omega⟩
    have ih := ev3_roundtrip b as (fun x hx => hv x (List.mem_cons_of_mem _ hx)) n (by simp at hf; omega)
    have e : flat (a :: as) ++ [Q, Q] = a.chars ++ (flat as ++ [Q, Q]) := by simp [flat]
    rw [e, step_atom b a (hv a List.mem_cons_self) (flat as ++ [Q, Q]) (by simp) n, ih]
    simp

/-! ## the per-line layer of the multiline branch -/
/-- what a character of a line becomes once the quote escapes have been taken out again -/
def mlChar (b : Bool) (p : Nat → Bool) (q c : Nat) : List Nat := if c = q then [q] else escChar b p q c
def mlBody (b : Bool) (p : Nat → Bool) (q : Nat) : List Nat → List Nat
  | [] => []
  | c :: cs => mlChar b p q c ++ mlBody b p q cs

/-- with a backslash pending, text that does not start with the quote just gets the backslash back -/
theorem replaceGo_pending (q : Nat) (l : List Nat) (h : l.head? ≠ some q) :
    replaceGo q true l = BS :: replaceGo q false l := by
  cases l with
  | nil => simp [replaceGo]
  | cons c t =>
    have hc : c ≠ q := by simpa using h
    by_cases hb : c = BS
    · subst hb; simp [replaceGo, hc]
    · simp [replaceGo, hc, hb]

theorem replaceGo_plain (q : Nat) (pre : List Nat) (hp : BS ∉ pre) (l : List Nat) :
    replaceGo q false (pre ++ l) = pre ++ replaceGo q false l := by
  induction pre with
  | nil => rfl
  | cons c t ih =>
    have hc : c ≠ BS := by intro h; apply hp; simp [h]
    have ht : BS ∉ t := by intro h; apply hp; simp [h]
    simp [replaceGo, hc, ih ht]

theorem hexOnly_no (more : List Nat) (h : HexOnly more) (x : Nat) (hx : x = BS ∨ x = Q ∨ x = DQ ∨ x = NL) :
    x ∉ more := by
  intro hm
  have := h x hm
  rcases hx with rfl | rfl | rfl | rfl <;> simp [BS, Q, DQ, NL] at this

/-- the `.replace("\\" + q, q)` step: exactly the backslashes in front of quotes disappear -/
theorem replace_reprBody (b : Bool) (p : Nat → Bool) (q : Nat) (hq : q = Q ∨ q = DQ) :
    ∀ (s : List Nat), (∀ c ∈ s, valid b c) → replaceGo q false (reprBody b p q s) = mlBody b p q s
  | [], _ => by simp [reprBody, mlBody, replaceGo]
  | c :: s, hv => by
    have hv' : ∀ c ∈ s, valid b c := fun c hc => hv c (List.mem_cons_of_mem _ hc)
    have ih := replace_reprBody b p q hq s hv'
    have hhead := reprBody_head b p q hq s hv'
    have hqb : q ≠ BS := by rcases hq with rfl | rfl <;> decide
    rcases escChar_cases b p q c hq (hv c List.mem_cons_self) with
      ⟨rfl, he⟩ | ⟨h1, h2, h3, he⟩ | ⟨h1, rfl, he⟩ | ⟨h1, h2, x, more, he, hx, hm, _⟩
    · simp [reprBody, mlBody, mlChar, he, replaceGo, ih]
    · simp [reprBody, mlBody, mlChar, he, replaceGo, ih, h1, h2]
    · have hbq : BS ≠ q := fun h => hqb h.symm
      simp only [reprBody, mlBody, mlChar, he, if_neg hbq, List.cons_append, List.nil_append]
      simp only [replaceGo, if_true, if_neg hbq]
      rw [replaceGo_pending q _ hhead, ih]
    · have hxq : x ≠ q := by
        rcases hq with rfl | rfl <;> rcases hx with rfl | rfl | rfl | rfl | rfl | rfl <;> decide
      have hxb : x ≠ BS := by rcases hx with rfl | rfl | rfl | rfl | rfl | rfl <;> decide
      simp only [reprBody, mlBody, mlChar, he, if_neg h1, List.cons_append]
      simp only [replaceGo, if_true, if_neg hxq, if_neg hxb]
      rw [replaceGo_plain q more (hexOnly_no more hm BS (Or.inl rfl)), ih]

theorem lineBody_eq (b : Bool) (p : Nat → Bool) (line : List Nat) (hv : ∀ c ∈ line, valid b c) :
    lineBody b p line = mlBody b p (chooseQuote line) line := by
  have hq := chooseQuote_cases line
  unfold lineBody pyRepr replace2
  generalize chooseQuote line = q at hq ⊢
  have h1 : (pre b ++ [q] ++ reprBody b p q line ++ [q]).getLastD Q = q := by
    rw [List.getLastD_eq_getLast?, List.getLast?_append]; simp
  have h2 : ((pre b ++ [q] ++ reprBody b p q line ++ [q]).drop ((pre b).length + 1)).dropLast
      = reprBody b p q line := by
    have : pre b ++ [q] ++ reprBody b p q line ++ [q] = (pre b ++ [q]) ++ (reprBody b p q line ++ [q]) := by
      simp
    rw [this, List.drop_left' (by simp)]
    simp
  simp only [h1, h2]
  exact replace_reprBody b p q hq line hv

/-! atoms of a line / of the whole text -/
def lineAtoms (b : Bool) (p : Nat → Bool) (line : List Nat) : List Atom :=
  line.map fun c => ⟨mlChar b p (chooseQuote line) c, c⟩

theorem lineAtoms_flat (b : Bool) (p : Nat → Bool) (q : Nat) (line : List Nat) :
    flat (line.map fun c => (⟨mlChar b p q c, c⟩ : Atom)) = mlBody b p q line := by
  induction line with
  | nil => simp [flat, mlBody]
  | cons c cs ih =>
    simp only [flat, List.map_cons, List.flatten_cons, mlBody] at ih ⊢
    rw [ih]

theorem mlChar_valid (b : Bool) (p : Nat → Bool) (q c : Nat) (hq : q = Q ∨ q = DQ) (hc : valid b c) :
    Atom.Valid b ⟨mlChar b p q c, c⟩ := by
  have hqb : q ≠ BS := by rcases hq with rfl | rfl <;> decide
  unfold mlChar
  rcases escChar_cases b p q c hq hc with
    ⟨rfl, he⟩ | ⟨h1, h2, h3, he⟩ | ⟨h1, rfl, he⟩ | ⟨h1, h2, x, more, he, hx, hm, hd⟩
  · left; simp [hqb]
  · left; simp [h1, he, h2]
  · right
    refine ⟨[BS], by simp [h1, he], by simp [Q, BS], fun rest => dec_bs b rest⟩
  · right
    refine ⟨x :: more, by simp [h1, he], ?_, hd⟩
    intro hmem
    rcases List.mem_cons.mp hmem with h | h
    · rcases hx with rfl | rfl | rfl | rfl | rfl | rfl <;> simp [Q] at h
    · exact hexOnly_no more hm Q (Or.inr (Or.inl rfl)) h

def textAtoms (b : Bool) (p : Nat → Bool) : List (List Nat) → List Atom
  | [] => []
  | [l] => lineAtoms b p l
  | l :: ls => lineAtoms b p l ++ ⟨[NL], NL⟩ :: textAtoms b p ls

theorem flat_append (xs ys : List Atom) : flat (xs ++ ys) = flat xs ++ flat ys := by
  simp [flat]

theorem textAtoms_flat (b : Bool) (p : Nat → Bool) : ∀ (ls : List (List Nat)), (∀ l ∈ ls, ∀ c ∈ l, valid b c) →
    flat (textAtoms b p ls) = joinNL (ls.map (lineBody b p))
  | [], _ => by simp [textAtoms, flat, joinNL]
  | [l], hv => by
    simp only [textAtoms, List.map_cons, List.map_nil, joinNL, lineAtoms]
    rw [lineAtoms_flat, lineBody_eq b p l (hv l (by simp))]
  | l :: l2 :: ls, hv => by
    have ih := textAtoms_flat b p (l2 :: ls) (fun x hx => hv x (List.mem_cons_of_mem _ hx))
    simp only [textAtoms, List.map_cons, joinNL, flat_append, lineAtoms] at ih ⊢
    rw [lineAtoms_flat, lineBody_eq b p l (hv l (by simp))]
    congr 1
    simp only [flat, List.map_cons, List.flatten_cons, List.cons_append, List.nil_append] at ih ⊢
    rw [ih]

theorem textAtoms_val (b : Bool) (p : Nat → Bool) : ∀ (ls : List (List Nat)),
    (textAtoms b p ls).map Atom.val = joinNL ls
  | [] => by simp [textAtoms, joinNL]
  | [l] => by simp [textAtoms, joinNL, lineAtoms, Function.comp_def]
  | l :: l2 :: ls => by
    have ih := textAtoms_val b p (l2 :: ls)
    simp only [textAtoms, joinNL, List.map_append, List.map_cons] at ih ⊢
    rw [ih]
    simp [lineAtoms, Function.comp_def]

theorem textAtoms_valid (b : Bool) (p : Nat → Bool) : ∀ (ls : List (List Nat)), (∀ l ∈ ls, ∀ c ∈ l, valid b c) →
    ∀ a ∈ textAtoms b p ls, a.Valid b
  | [], _, a, ha => by simp [textAtoms] at ha
  | [l], hv, a, ha => by
    simp only [textAtoms, lineAtoms, List.mem_map] at ha
    obtain ⟨c, hc, rfl⟩ := ha
    exact mlChar_valid b p _ c (chooseQuote_cases l) (hv l (by simp) c hc)
  | l :: l2 :: ls, hv, a, ha => by
    simp only [textAtoms, List.mem_append, List.mem_cons] at ha
    rcases ha with ha | rfl | ha
    · simp only [lineAtoms, List.mem_map] at ha
      obtain ⟨c, hc, rfl⟩ := ha
      exact mlChar_valid b p _ c (chooseQuote_cases l) (hv l (by simp) c hc)
    · left; simp [NL, BS]
    · exact textAtoms_valid b p (l2 :: ls) (fun x hx => hv x (List.mem_cons_of_mem _ hx)) a ha

/-! `split` / `join` -/
theorem splitOn_ne_nil (sep : Nat) (s : List Nat) : splitOn sep s ≠ [] := by
  cases s with
  | nil => simp [splitOn]
  | cons c cs =>
    simp only [splitOn]
    split
    · simp
    · split <;> simp

theorem joinNL_splitOn : ∀ (s : List Nat), joinNL (splitOn NL s) = s
  | [] => by simp [splitOn, joinNL]
  | c :: cs => by
    have ih := joinNL_splitOn cs
    simp only [splitOn]
    split
    · rename_i h
      subst h
      cases hs : splitOn NL cs with
      | nil => exact absurd hs (splitOn_ne_nil _ _)
      | cons l ls => rw [hs] at ih; simp [joinNL, ih]
    · cases hs : splitOn NL cs with
      | nil => exact absurd hs (splitOn_ne_nil _ _)
      | cons l ls =>
        rw [hs] at ih
        cases ls with
        | nil => simp only [joinNL] at ih ⊢; rw [ih]
        | cons l2 ls => simp only [joinNL, List.cons_append] at ih ⊢; rw [ih]

theorem mem_splitOn : ∀ (s : List Nat) (l : List Nat), l ∈ splitOn NL s → ∀ c ∈ l, c ∈ s
  | [], l, hl, c, hc => by simp [splitOn] at hl; subst hl; simp at hc
  | x :: xs, l, hl, c, hc => by
    simp only [splitOn] at hl
    split at hl
    · rcases List.mem_cons.mp hl with rfl | hl
      · simp at hc
      · exact List.mem_cons_of_mem _ (mem_splitOn xs l hl c hc)
    · cases hs : splitOn NL xs with
      | nil => exact absurd hs (splitOn_ne_nil _ _)
      | cons l0 ls =>
        rw [hs] at hl
        rcases List.mem_cons.mp hl with rfl | hl
        · rcases List.mem_cons.mp hc with rfl | hc
          · exact List.mem_cons_self
          · exact List.mem_cons_of_mem _ (mem_splitOn xs l0 (by simp [hs]) c hc)
        · exact List.mem_cons_of_mem _ (mem_splitOn xs l (by simp [hs, hl]) c hc)

theorem esc3_length : ∀ (l : List Nat), l.length ≤ (esc3 l).length
  | [] => by simp [esc3]
  | a :: t => by
    have := esc3_length t
    simp only [esc3]
    split <;> simp <;> omega

theorem flat_length (b : Bool) : ∀ (as : List Atom), (∀ a ∈ as, a.Valid b) → as.length ≤ (flat as).length
  | [], _ => by simp [flat]
  | a :: as, hv => by
    have ih := flat_length b as (fun x hx => hv x (List.mem_cons_of_mem _ hx))
    have : 1 ≤ a.chars.length := by
      rcases hv a List.mem_cons_self with ⟨hc, _⟩ | ⟨body, hc, _⟩ <;> simp [hc]
    simp only [flat, List.map_cons, List.flatten_cons, List.length_append, List.length_cons] at ih ⊢
    omega

/-- **C07 (`text_repr` round trip).**  For every str / bytes `s` (any code points: quotes, backslashes,
newlines, controls, non-printables, astral characters, lone surrogates), every `multiline` setting
(`None`, `True`, `False`) and every `isprintable` predicate: evaluating the text that `text_repr`
returns as a Python literal gives `s` back.  The proof is about testtools' own logic — per-line `repr`,
taking the quote escapes out again, joining with real newlines, the `'''` escaping loop, the
backslash-newline opener — on top of the model `pyRepr`/`pyEval` of CPython's `repr` and literal
evaluation. -/
theorem C07_text_repr_roundtrip (b : Bool) (p : Nat → Bool) (ml : Option Bool) (s : List Nat)
    (hv : ∀ c ∈ s, valid b c) : pyEval b (textRepr b p ml s) = some s := by
  unfold textRepr
  simp only
  split
  · exact pyEval_pyRepr b p s hv
  · have hls : ∀ l ∈ splitOn NL s, ∀ c ∈ l, valid b c := fun l hl c hc => hv c (mem_splitOn s l hl c hc)
    have hflat := textAtoms_flat b p (splitOn NL s) hls
    have hval := textAtoms_val b p (splitOn NL s)
    have hvalid := textAtoms_valid b p (splitOn NL s) hls
    rw [joinNL_splitOn] at hval
    rw [← hflat]
    generalize textAtoms b p (splitOn NL s) = as at hval hvalid
    have hlen1 := flat_length b as hvalid
    have hlen2 := esc3_length (flat as ++ [Q, Q])
    have key := ev3_roundtrip b as hvalid ((esc3 (flat as ++ [Q, Q]) ++ [Q]).length + 1)
      (by simp only [List.length_append, List.length_cons, List.length_nil] at hlen2 ⊢; omega)
    rw [hval] at key
    unfold pyEval
    rw [List.append_assoc, List.append_assoc, stripPre_pre]
    simpa [Q, BS, NL] using key
end TTV.Props.C07

/-! # describe-ability of the stock matchers -/
namespace TTV.Props.C07
open TTV.Matchers hiding Input Trace model
open TTV.Describe TTV.Generated.C07 TTV.Spec.C07

/-- the table extracted from the tree: no class of the model resolves `str()` to `Matcher.__str__`
(re-checked against the tree on every run; fails to compile when a stock class loses its `__str__`) -/
theorem C07_str_table_ok : (strKinds.all fun p => p.2 != StrKind.inherited) = true
    ∧ (opaqueStr.all fun p => p.2) = true
    ∧ (["Equals", "NotEquals", "Is", "LessThan", "GreaterThan", "SameMembers", "StartsWith", "EndsWith", "Contains",
        "IsInstance", "_MatchesPredicateWithParams", "_Always", "_Never", "KeysEqual", "MatchesException", "Raises",
        "MatchesPredicate", "Not", "MatchesAll", "MatchesAny", "AllMatch", "AnyMatch", "MatchesListwise",
        "MatchesSetwise", "MatchesStructure", "MatchesDict", "ContainsDict", "ContainedByDict", "Annotate",
        "AfterPreprocessing"].all fun n => kindOf n != StrKind.inherited) = true := by
  decide

theorem strOf_ok {name : String} {kids : R} (h : kindOf name ≠ .inherited) (hk : kids = none) :
    strOf name kids = none := by
  unfold strOf
  cases hkind : kindOf name <;> simp_all

theorem leafStr_ok (l : Leaf) : leafStr l = none := by
  have hop := C07_str_table_ok.2.1
  cases l with
  | «opaque» id dom res =>
    simp only [leafStr]
    split
    · rfl
    · rename_i x heq
      have := List.mem_of_find?_eq_some heq
      rw [List.all_eq_true] at hop
      have := hop _ this
      simp at this
    · rfl
  | _ => simp only [leafStr, leafClass]; exact strOf_ok (by decide) rfl

mutual
/-- **C07 (`str()` is total).**  `str(matcher)` succeeds for every stock matcher expression of any depth
(given the `__str__` table read from the tree). -/
theorem C07_str_total : ∀ m : M, strM m = none
  | .leaf l => by simp only [strM]; exact leafStr_ok l
  | .excTypeV _ _ => strOf_ok (by decide) rfl
  | .raises _ => strOf_ok (by decide) rfl
  | .not m => strOf_ok (by decide) (C07_str_total m)
  | .all _ ms => strOf_ok (by decide) (strML_total ms)
  | .any ms => strOf_ok (by decide) (strML_total ms)
  | .allMatch m => strOf_ok (by decide) (C07_str_total m)
  | .anyMatch m => strOf_ok (by decide) (C07_str_total m)
  | .listwise _ _ => strOf_ok (by decide) rfl
  | .setwise _ _ _ => strOf_ok (by decide) rfl
  | .structure _ ms => strOf_ok (by decide) (strML_total ms)
  | .dict k _ ms => by
    simp only [strM]
    cases k <;> exact strOf_ok (by decide) (strML_total ms)
  | .annotate m => strOf_ok (by decide) (C07_str_total m)
  | .after _ _ m => strOf_ok (by decide) (C07_str_total m)
theorem strML_total : ∀ ms : List M, strML ms = none
  | [] => rfl
  | m :: ms => by simp [strML, seqR, C07_str_total m, strML_total ms]
end

theorem descrParts_none (fo : Bool) : ∀ (vs : List Verdict) (ds : List R), (∀ d ∈ ds, d = none) →
    descrParts fo vs ds = none
  | [], _, _ => by simp [descrParts]
  | _ :: _, [], _ => by simp [descrParts]
  | v :: vs, d :: ds, h => by
    have hd := h d List.mem_cons_self
    have ih := descrParts_none fo vs ds (fun x hx => h x (List.mem_cons_of_mem _ hx))
    subst hd
    cases v <;> cases fo <;> simp [descrParts, seqR, ih]

theorem getD_all_none : ∀ (l : List R), (∀ d ∈ l, d = none) → ∀ i, l.getD i none = none
  | [], _, i => by simp
  | d :: ds, h, 0 => by simpa using h d List.mem_cons_self
  | d :: ds, h, i + 1 => by
    simpa using getD_all_none ds (fun x hx => h x (List.mem_cons_of_mem _ hx)) i

theorem zipWith_all_none (f : Nat → V → R) : ∀ (r : List Nat) (n : List V), (∀ i x, f i x = none) →
    ∀ d ∈ List.zipWith f r n, d = none
  | [], _, _, d, hd => by simp at hd
  | _ :: _, [], _, d, hd => by simp at hd
  | i :: r, x :: n, h, d, hd => by
    simp only [List.zipWith_cons_cons, List.mem_cons] at hd
    rcases hd with rfl | hd
    · exact h i x
    · exact zipWith_all_none f r n h d hd

mutual
/-- **C07 (`describe()` is total).**  For every stock matcher expression (any depth, any constructor
arguments), every value and both set orders: describing the mismatch that `match()` returned succeeds. -/
theorem C07_describe_total (sel : Bool) : ∀ (m : M) (v : V), descr sel m v = none
  | .leaf l, v => by simp [descr, leafDescr]
  | .excTypeV cs vm, v => by
    simp only [descr]
    split
    · split
      · exact C07_describe_total sel vm _
      · rfl
    · rfl
  | .raises em, v => by
    simp only [descr]
    split
    · rfl
    · exact C07_describe_total sel em _
  | .not m, _ => by simp only [descr]; exact C07_str_total m
  | .all fo ms, v => by
    simp only [descr]
    exact descrParts_none _ _ _ (descrRow_none sel ms v)
  | .any ms, v => by
    simp only [descr]
    exact descrParts_none _ _ _ (descrRow_none sel ms v)
  | .allMatch m, v => by
    simp only [descr]
    split
    · rfl
    · apply descrParts_none
      intro d hd
      obtain ⟨x, _, rfl⟩ := List.mem_map.mp hd
      exact C07_describe_total sel m x
  | .anyMatch m, v => by
    simp only [descr]
    split
    · rfl
    · apply descrParts_none
      intro d hd
      obtain ⟨x, _, rfl⟩ := List.mem_map.mp hd
      exact C07_describe_total sel m x
  | .listwise fo ms, v => by
    simp only [descr]
    split
    · rfl
    · exact descrParts_none _ _ _ (descrZip_none sel ms _)
  | .setwise _ _ ms, v => by
    simp only [descr]
    split
    · rfl
    · rename_i xs _
      have : ∀ ys : List V,
          ys.foldr (fun x r => seqR (descrParts false (matchRow sel ms x) (descrRow sel ms x)) r) none = none := by
        intro ys
        induction ys with
        | nil => rfl
        | cons x ys ih =>
          rw [List.foldr_cons, ih, descrParts_none _ _ _ (descrRow_none sel ms x)]
          rfl
      exact this xs
  | .structure attrs ms, v => by
    simp only [descr]
    exact descrParts_none _ _ _ (descrZip_none sel ms _)
  | .dict _ ks ms, v => by
    simp only [descr]
    split
    · exact descrParts_none _ _ _ (descrZip_none sel ms _)
    · rfl
  | .annotate m, v => by
    simp only [descr]
    exact C07_describe_total sel m v
  | .after f _ m, v => by
    simp only [descr]
    split
    · exact C07_describe_total sel m _
    · rfl
theorem descrRow_none (sel : Bool) : ∀ (ms : List M) (v : V), ∀ d ∈ descrRow sel ms v, d = none
  | [], _, d, hd => by simp [descrRow] at hd
  | m :: ms, v, d, hd => by
    simp only [descrRow, List.mem_cons] at hd
    rcases hd with rfl | hd
    · exact C07_describe_total sel m v
    · exact descrRow_none sel ms v d hd
theorem descrZip_none (sel : Bool) : ∀ (ms : List M) (vs : List (Option V)),
    ∀ d ∈ descrZip sel ms vs, d = none
  | [], vs, d, hd => by simp [descrZip] at hd
  | _ :: _, [], d, hd => by simp [descrZip] at hd
  | m :: ms, none :: vs, d, hd => by
    simp only [descrZip] at hd
    exact descrZip_none sel ms vs d hd
  | m :: ms, some v :: vs, d, hd => by
    simp only [descrZip, List.mem_cons] at hd
    rcases hd with rfl | hd
    · exact C07_describe_total sel m v
    · exact descrZip_none sel ms vs d hd
end
-- a failed expectation followed by skipTest in the body, an expected failure in tearDown and an erroring cleanup: addFailure
example : (assertModel { api := .expectThat, existing := [], mismatch := some [], after := .skip, tearDown := .xfail,
                         cleanups := [.error, .ret] }).outcome = .failure := by decide
-- … and with a KeyboardInterrupt in a cleanup: addError, re-raised; without the mismatch the skip would be reported
example : (assertModel { api := .expectThat, existing := [], mismatch := some [], after := .skip, cleanups := [.interrupt] })
    = { raised := false, continued := true, names := [⟨0, 0⟩], forceFailure := true, outcome := .error, propagated := true } := by decide
example : (assertModel { api := .expectThat, existing := [], mismatch := none, after := .skip }).outcome = .skip := by decide
-- a failed expectation in setUp, which then skips: the test method and tearDown do not run, the run is a failure (not
-- addSkip); likewise when setUp ends with an expected failure and a cleanup skips; without the mismatch: the skip
example : (assertModel { api := .expectThat, existing := [], mismatch := some [], after := .skip, tearDown := .error,
                         place := .setUp })
    = { raised := false, continued := true, names := [⟨0, 0⟩], forceFailure := true, outcome := .failure, propagated := false } := by decide
example : (assertModel { api := .expectThat, existing := [], mismatch := some [2], after := .xfail, cleanups := [.skip],
                         place := .setUp }).outcome = .failure := by decide
-- recorded in setUp before the upcall to the base setUp, setUp then returns: still a failure
example : (assertModel { api := .expectThat, existing := [], mismatch := some [], place := .setUpEarly }).outcome = .failure := by decide
example : (assertModel { api := .expectThat, existing := [], mismatch := none, after := .skip, tearDown := .error,
                         place := .setUp }).outcome = .skip := by decide

end TTV.Props.C07

/-! # assertThat / assert_that / expectThat -/
namespace TTV.Props.C07
open TTV.Matchers hiding Input Trace model
open TTV.Describe TTV.Spec.C07

theorem uniqFrom_base (ex : List Name) (base : Nat) : ∀ fuel k, (uniqFrom ex base fuel k).base = base
  | 0, _ => rfl
  | fuel + 1, k => by
    simp only [uniqFrom]
    split
    · exact uniqFrom_base ex base fuel (k + 1)
    · rfl

theorem uniqFrom_spec (ex : List Name) (base : Nat) : ∀ fuel k,
    uniqFrom ex base fuel k ∉ ex ∨
      (uniqFrom ex base fuel k = ⟨base, k + fuel⟩ ∧ ∀ j, k ≤ j → j < k + fuel → (⟨base, j⟩ : Name) ∈ ex)
  | 0, k => Or.inr ⟨rfl, fun j h1 h2 => by omega⟩
  | fuel + 1, k => by
    simp only [uniqFrom]
    split
    · rename_i hk
      have hk' : (⟨base, k⟩ : Name) ∈ ex := by simpa using hk
      rcases uniqFrom_spec ex base fuel (k + 1) with h | ⟨h1, h2⟩
      · exact Or.inl h
      · right
        refine ⟨by rw [h1]; congr 1; omega, ?_⟩
        intro j hj1 hj2
        by_cases hjk : j = k
        · subst hjk; exact hk'
        · exact h2 j (by omega) (by omega)
    · rename_i hk
      left
      simpa using hk

/-- `addDetailUniqueName` never picks a name that is already taken (pigeonhole: among `name`, `name-1`, …,
`name-n` one is free when `n` details exist) -/
theorem uniq_fresh (ex : List Name) (base : Nat) : uniq ex base ∉ ex := by
  unfold uniq
  rcases uniqFrom_spec ex base ex.length 0 with h | ⟨h1, h2⟩
  · exact h
  · rw [h1]
    intro hmem
    have hnd : ((List.range (ex.length + 1)).map fun j => (⟨base, j⟩ : Name)).Nodup := by
      apply List.Nodup.map _ List.nodup_range
      intro a c hac
      simpa using hac
    have hsub : ((List.range (ex.length + 1)).map fun j => (⟨base, j⟩ : Name)) ⊆ ex := by
      intro n hn
      obtain ⟨j, hj, rfl⟩ := List.mem_map.mp hn
      have hj' : j < ex.length + 1 := List.mem_range.mp hj
      by_cases hje : j = ex.length
      · subst hje; simpa using hmem
      · exact h2 j (Nat.zero_le _) (by omega)
    have := List.Nodup.length_le_of_subset hnd hsub
    simp only [List.length_map, List.length_range] at this
    omega

theorem freshAll_of_append (ex : List Name) (u : Name) (added : List Name) (hu : u ∉ ex)
    (h : freshAll (ex ++ [u]) added = true) : freshAll ex (u :: added) = true := by
  simp [freshAll, hu, h]

theorem foldl_addUnique : ∀ (ds : List Nat) (ex : List Name),
    ∃ added, ds.foldl addUnique ex = ex ++ added ∧ added.map (·.base) = ds ∧ freshAll ex added = true
  | [], ex => ⟨[], by simp [freshAll]⟩
  | d :: ds, ex => by
    obtain ⟨added, h1, h2, h3⟩ := foldl_addUnique ds (addUnique ex d)
    refine ⟨uniq ex d :: added, ?_, ?_, ?_⟩
    · have e : addUnique ex d = ex ++ [uniq ex d] := rfl
      rw [e] at h1
      simp [h1, e]
    · simp only [List.map_cons, h2, uniq, uniqFrom_base]
    · exact freshAll_of_append ex _ added (uniq_fresh ex d) h3

theorem freshAll_snoc : ∀ (added ex : List Name) (u : Name), freshAll ex added = true → u ∉ ex ++ added →
    freshAll ex (added ++ [u]) = true
  | [], ex, u, _, hu => by simpa [freshAll] using hu
  | a :: added, ex, u, h, hu => by
    simp only [freshAll, Bool.and_eq_true] at h
    simp only [List.cons_append, freshAll, Bool.and_eq_true]
    refine ⟨h.1, freshAll_snoc added (ex ++ [a]) u h.2 ?_⟩
    simpa [List.append_assoc] using hu

/-- **C07 (`assertThat` / `assert_that`)** raise `MismatchError` exactly when `match()` returned a mismatch
(and then the statement after the call does not run). -/
theorem C07_assertThat_iff (a : AssertIn) (h : a.api ≠ .expectThat) :
    ((assertModel a).raised = true ↔ a.mismatch.isSome = true) ∧
    ((assertModel a).continued = true ↔ a.mismatch.isSome = false) := by
  unfold assertModel
  cases hm : a.mismatch <;> cases ha : a.api <;> simp_all

/-- **C07 (`expectThat`)** never raises and the test body continues; the test is marked to fail once it
has finished exactly when `match()` returned a mismatch. -/
theorem C07_expectThat (a : AssertIn) (h : a.api = .expectThat) :
    (assertModel a).raised = false ∧ (assertModel a).continued = true ∧
    ((assertModel a).forceFailure = true ↔ a.mismatch.isSome = true) := by
  unfold assertModel
  cases hm : a.mismatch <;> simp_all

theorem mem_somesExn {e : Exn} : ∀ {l : List (Option Exn)}, e ∈ somesExn l ↔ some e ∈ l
  | [] => by simp [somesExn]
  | none :: r => by simp [somesExn, mem_somesExn (l := r)]
  | some x :: r => by simp [somesExn, mem_somesExn (l := r)]

theorem somesExn_all_none : ∀ {l : List (Option Exn)}, (∀ x ∈ l, x = none) → somesExn l = []
  | [], _ => rfl
  | none :: r, h => by simp [somesExn, somesExn_all_none (l := r) (fun x hx => h x (List.mem_cons_of_mem _ hx))]
  | some x :: r, h => by simpa using h (some x) List.mem_cons_self

/-- `_select_exception` when the forced failure was appended (it always comes last): an exception that has
to propagate wins, otherwise the forced `AssertionError` itself — never a skip, an expected failure, an
unexpected success or somebody else's error -/
theorem selectExn_forced (xs : List Exn) :
    selectExn (xs ++ [.fail]) = if .intr ∈ xs then some .intr else some .fail := by
  unfold selectExn
  rw [List.find?_append]
  cases hf : xs.find? (· == Exn.intr) with
  | some e =>
    have he : e = .intr := by simpa using List.find?_some hf
    have hmem : Exn.intr ∈ xs := he ▸ List.mem_of_find?_eq_some hf
    simp [hmem, he]
  | none =>
    have hmem : Exn.intr ∉ xs := by
      intro hm
      have := List.find?_eq_none.mp hf _ hm
      simp at this
    simp [hmem, Exn.benign]

/-- `tearDown` runs: the call sits in the test method, or `setUp` (with the call in it) returned -/
def tearDownRuns (a : AssertIn) : Prop := a.place = .body ∨ a.after = .ret

/-- some stage of the test that runs raises an exception that no handler claims (`KeyboardInterrupt`) -/
def interrupted (a : AssertIn) : Prop :=
  a.after = .interrupt ∨ (tearDownRuns a ∧ a.tearDown = .interrupt) ∨ .interrupt ∈ a.cleanups

theorem exn_intr_iff (x : Act) : x.exn = some .intr ↔ x = .interrupt := by
  cases x <;> simp [Act.exn]

theorem setUpGaveUp_false_iff (a : AssertIn) : setUpGaveUp false a = false ↔ tearDownRuns a := by
  obtain ⟨api, ex, mm, after, td, cs, place⟩ := a
  cases place <;> cases after <;> simp [setUpGaveUp, tearDownRuns]

theorem intr_mem_stages (a : AssertIn) : Exn.intr ∈ stageExns false a ↔ interrupted a := by
  unfold stageExns
  rw [mem_somesExn]
  simp only [Bool.false_eq_true, ↓reduceIte, List.cons_append, List.mem_cons, List.mem_append, List.mem_map,
    List.mem_reverse, interrupted]
  have hcl : (∃ x, x ∈ a.cleanups ∧ x.exn = some Exn.intr) ↔ Act.interrupt ∈ a.cleanups :=
    ⟨fun ⟨x, hx, h⟩ => (exn_intr_iff x).mp h ▸ hx, fun h => ⟨.interrupt, h, rfl⟩⟩
  have haf : some Exn.intr = a.after.exn ↔ a.after = .interrupt :=
    ⟨fun h => (exn_intr_iff _).mp h.symm, fun h => ((exn_intr_iff _).mpr h).symm⟩
  have htd : some Exn.intr = a.tearDown.exn ↔ a.tearDown = .interrupt :=
    ⟨fun h => (exn_intr_iff _).mp h.symm, fun h => ((exn_intr_iff _).mpr h).symm⟩
  rw [hcl, haf]
  cases hg : setUpGaveUp false a with
  | true =>
    have hn : ¬ tearDownRuns a := by rw [← setUpGaveUp_false_iff]; simp [hg]
    simp [hn]
  | false =>
    have hn : tearDownRuns a := (setUpGaveUp_false_iff a).mp hg
    simp [hn, htd]

/-- **C07 (a failed expectation fails the test — whatever happens afterwards).**  If `expectThat` recorded a
mismatch — in the test method or in `setUp`, before or after its upcall (`a.place`) —, then for every continuation of the test — the rest of
that stage, `tearDown` (which does not run when `setUp` gave up) and any number of cleanups each returning, skipping, raising an expected failure, an unexpected success, a failure, an
error or a `KeyboardInterrupt` — the run is reported with `addFailure` (the forced `AssertionError` is
appended last to the collected exceptions, and `_select_exception` prefers the last exception that is not
a skip / expected failure), except when a stage raised an exception that has to propagate: then the
outcome is `addError` for that exception and `run()` re-raises it.  Never success, skip, expected failure
or unexpected success. -/
theorem C07_expectThat_fails (a : AssertIn) (ds : List Nat) (h : a.api = .expectThat) (hm : a.mismatch = some ds) :
    (¬ interrupted a → (assertModel a).outcome = .failure ∧ (assertModel a).propagated = false) ∧
    (interrupted a → (assertModel a).outcome = .error ∧ (assertModel a).propagated = true) ∧
    failureClass (assertModel a).outcome = true := by
  have hi := intr_mem_stages a
  have hsel := selectExn_forced (stageExns false a)
  have hrun : runExns false true a = stageExns false a ++ [.fail] := by simp [runExns]
  unfold assertModel
  simp only [hm, h, hrun, hsel]
  generalize stageExns false a = L at hi
  by_cases hint : interrupted a
  · have hmem := hi.mpr hint
    simp [hmem, hint, Exn.outcome, failureClass]
  · have hmem : Exn.intr ∉ L := fun hmem => hint (hi.mp hmem)
    simp [hmem, hint, Exn.outcome, failureClass]

theorem cleanups_allRet (cs : List Act) (h : ∀ x ∈ cs, x = .ret) : somesExn (cs.map Act.exn).reverse = [] := by
  apply somesExn_all_none
  intro x hx
  obtain ⟨y, hy, rfl⟩ := List.mem_map.mp (List.mem_reverse.mp hx)
  rw [h y hy]; rfl

theorem runExns_allRet (a : AssertIn) (h : allRet a = true) : runExns false false a = [] := by
  simp only [allRet, Bool.and_eq_true, beq_iff_eq, List.all_eq_true] at h
  obtain ⟨⟨h1, h2⟩, h3⟩ := h
  have hc := cleanups_allRet a.cleanups h3
  simp only [runExns, stageExns, h1, h2, Act.exn, Bool.false_eq_true, if_false, List.append_nil, List.cons_append]
  split <;> simp [somesExn, hc]

theorem runExns_allRet_raised (a : AssertIn) (h : allRet a = true) : runExns true false a = [.fail] := by
  simp only [allRet, Bool.and_eq_true, beq_iff_eq, List.all_eq_true] at h
  obtain ⟨⟨_, h2⟩, h3⟩ := h
  have hc := cleanups_allRet a.cleanups h3
  simp only [runExns, stageExns, h2, Act.exn, Bool.false_eq_true, if_false, if_true, List.append_nil, List.cons_append]
  split <;> simp [somesExn, hc]

/-- without a mismatch and with nothing else happening the test succeeds; a `MismatchError` raised by
`assertThat` / `assert_that` and nothing else is a failure -/
theorem C07_plain_outcomes (a : AssertIn) (h : allRet a = true) :
    (a.mismatch = none → (assertModel a).outcome = .success) ∧
    (a.mismatch.isSome = true → a.api ≠ .expectThat → (assertModel a).outcome = .failure) := by
  constructor
  · intro hm
    simp [assertModel, hm, runExns_allRet a h, selectExn]
  · intro hm ha
    obtain ⟨ds, hds⟩ := Option.isSome_iff_exists.mp hm
    cases hapi : a.api with
    | expectThat => exact absurd hapi ha
    | assertThat => simp [assertModel, hds, hapi, runExns_allRet_raised a h, selectExn, Exn.benign, Exn.outcome]
    | assert_that => simp [assertModel, hds, hapi, runExns_allRet_raised a h, selectExn, Exn.benign, Exn.outcome]

/-- **C07 (details attached under non-clobbering names)**: `assertThat` and `expectThat` keep every
existing detail (same names, same order) and add one detail per entry of the mismatch's `get_details()`
(`expectThat` also the "Failed expectation" one), each under a name that is neither an existing one nor
one added before it. -/
theorem C07_details_nonclobbering (a : AssertIn) (ds : List Nat) (hm : a.mismatch = some ds)
    (h : a.api ≠ .assert_that) :
    ∃ added, (assertModel a).names = a.existing ++ added ∧ freshAll a.existing added = true ∧
      added.map (·.base) = (if a.api = .expectThat then ds ++ [0] else ds) := by
  obtain ⟨added, h1, h2, h3⟩ := foldl_addUnique ds a.existing
  unfold assertModel
  cases ha : a.api with
  | assert_that => exact absurd ha h
  | assertThat => exact ⟨added, by simp [hm, h1], h3, by simp [h2]⟩
  | expectThat =>
    refine ⟨added ++ [uniq (a.existing ++ added) 0], ?_, ?_, ?_⟩
    · simp [hm, h1, addUnique]
    · exact freshAll_snoc added a.existing _ h3 (uniq_fresh _ 0)
    · simp [h2, uniq, uniqFrom_base]

/-- `freshAll` read as a proposition: no added name clashes with an existing one or an earlier added one -/
theorem freshAll_iff : ∀ (added ex : List Name), freshAll ex added = true ↔
    (∀ n ∈ added, n ∉ ex) ∧ added.Nodup
  | [], ex => by simp [freshAll]
  | a :: added, ex => by
    have ih := freshAll_iff added (ex ++ [a])
    have e : freshAll ex (a :: added) = true ↔ a ∉ ex ∧ freshAll (ex ++ [a]) added = true := by
      simp [freshAll]
    rw [e, ih]
    constructor
    · rintro ⟨h1, h2, h3⟩
      refine ⟨?_, List.nodup_cons.mpr ⟨?_, h3⟩⟩
      · intro n hn
        rcases List.mem_cons.mp hn with rfl | hn
        · exact h1
        · exact fun hmem => h2 n hn (List.mem_append_left _ hmem)
      · exact fun hmem => h2 a hmem (List.mem_append_right _ (List.mem_singleton.mpr rfl))
    · rintro ⟨h1, h2⟩
      obtain ⟨h3, h4⟩ := List.nodup_cons.mp h2
      refine ⟨h1 a List.mem_cons_self, ?_, h4⟩
      intro n hn hmem
      rcases List.mem_append.mp hmem with hmem | hmem
      · exact h1 n (List.mem_cons_of_mem _ hn) hmem
      · rw [List.mem_singleton] at hmem
        subst hmem
        exact h3 hn
-- a failed expectation followed by skipTest in the body, an expected failure in tearDown and an erroring cleanup: addFailure
example : (assertModel { api := .expectThat, existing := [], mismatch := some [], after := .skip, tearDown := .xfail,
                         cleanups := [.error, .ret] }).outcome = .failure := by decide
-- … and with a KeyboardInterrupt in a cleanup: addError, re-raised; without the mismatch the skip would be reported
example : (assertModel { api := .expectThat, existing := [], mismatch := some [], after := .skip, cleanups := [.interrupt] })
    = { raised := false, continued := true, names := [⟨0, 0⟩], forceFailure := true, outcome := .error, propagated := true } := by decide
example : (assertModel { api := .expectThat, existing := [], mismatch := none, after := .skip }).outcome = .skip := by decide
-- tearDown's KeyboardInterrupt counts only if tearDown runs
example : ¬ interrupted { api := .expectThat, existing := [], mismatch := some [], after := .skip, tearDown := .interrupt,
                          place := .setUp } := by simp [interrupted, tearDownRuns]

end TTV.Props.C07

/-! # headline and the recorded finding -/
namespace TTV.Props.C07
open TTV.Matchers hiding Input Trace model
open TTV.Describe TTV.Spec.C07 TTV.TextRepr

theorem matchImpl_stripAnnot (sel : Bool) : ∀ (m : M) (v : V), matchImpl sel m v = matchImpl sel (stripAnnot m) v
  | .annotate m, v => by simp only [matchImpl, stripAnnot]; exact matchImpl_stripAnnot sel m v
  | .leaf _, _ => rfl
  | .excTypeV _ _, _ => rfl
  | .raises _, _ => rfl
  | .not _, _ => rfl
  | .all _ _, _ => rfl
  | .any _, _ => rfl
  | .allMatch _, _ => rfl
  | .anyMatch _, _ => rfl
  | .listwise _ _, _ => rfl
  | .setwise _ _ _, _ => rfl
  | .structure _ _, _ => rfl
  | .dict _ _ _, _ => rfl
  | .after _ _ _, _ => rfl

theorem coarse_stripAnnot : ∀ (m : M), coarse m = coarse (stripAnnot m)
  | .annotate m => by simp only [coarse, stripAnnot]; exact coarse_stripAnnot m
  | .leaf _ => rfl
  | .excTypeV _ _ => rfl
  | .raises _ => rfl
  | .not _ => rfl
  | .all _ _ => rfl
  | .any _ => rfl
  | .allMatch _ => rfl
  | .anyMatch _ => rfl
  | .listwise _ _ => rfl
  | .setwise _ _ _ => rfl
  | .structure _ _ => rfl
  | .dict _ _ _ => rfl
  | .after _ _ _ => rfl

theorem validText_iff (b : Bool) (s : List Nat) : validText b s = true ↔ ∀ c ∈ s, valid b c := by
  unfold validText valid
  cases b <;> simp

/-- **C07 (a well-formed `MatchesPredicate` returns its Mismatch)**: for every value `v` of which the
predicate is false — a tuple included, the message is formatted with `(v,)` — `match()` returns a Mismatch.
(`'%s' % (v,)` is `str(v)`: the one value of the universe whose `__str__` raises, an instance of the harness's
`StrRaisesError`, is excluded — see `C07_predicate_str_raises`.) -/
theorem C07_predicate_mismatch_built (sel : Bool) (id : Nat) (dom : List V) (res : List Verdict) (v : V)
    (hno : lookupTbl v dom res = .mismatch) (hstr : strRaises v = false) :
    matchImpl sel (.leaf (.predicate id .one dom res)) v = .mismatch := by
  simp [matchImpl, leafImpl, hno, fmtErr, hstr]
/-- … and for that value the ValueError of its `__str__` propagates out of `match()` -/
theorem C07_predicate_str_raises (sel : Bool) (id : Nat) (dom : List V) (res : List Verdict) (v : V)
    (hno : lookupTbl v dom res = .mismatch) (hstr : strRaises v = true) :
    matchImpl sel (.leaf (.predicate id .one dom res)) v = .raised .valueError := by
  simp [matchImpl, leafImpl, hno, fmtStr, hstr]

/-- `str()` of an instance of any class of the table succeeds (no row resolves to `Matcher.__str__`) -/
theorem C07_str_known_total (cls : String) : strKnown cls = none := by
  unfold strKnown
  split
  · rename_i heq
    have hmem := List.mem_of_find?_eq_some heq
    have hall := C07_str_table_ok.1
    rw [List.all_eq_true] at hall
    have := hall _ hmem
    simp at this
  · rfl

/-- The executable specification holds of the model's trace, for every input. -/
theorem holds_model (i : Input) : holds i (model i) = true := by
  simp only [holds, clauses, List.all_cons, List.all_nil, Bool.and_true, Bool.and_eq_true]
  cases i with
  | describe m v annotated verbose =>
    have hstr := C07_str_total (withMessage annotated m)
    have hd := C07_describe_total true (withMessage annotated m) v
    refine ⟨?_, ?_, ?_, ?_, rfl, rfl, rfl, rfl⟩
    · simp [cStrTotal, model, hstr]
    · simp [cDescribeTotal, model, hd]
    · simp [cErrorStrTotal, model, hd, hstr, seqR]
    · simp only [cMismatchBuilt, model]
      split
      · rename_i hp
        unfold predicateSaysNo at hp
        generalize hm' : withMessage annotated m = m' at hp ⊢
        have hr : matchImpl true m' v = .mismatch := by
          rw [matchImpl_stripAnnot]
          split at hp
          · rename_i id dom res heq
            rw [heq]
            have hp' : lookupTbl v dom res = Verdict.mismatch ∧ strRaises v = false := by simpa using hp
            exact C07_predicate_mismatch_built true id dom res v hp'.1 hp'.2
          · simp at hp
        simp [hr, canon]
      · rfl
  | textRepr b ml np s =>
    refine ⟨rfl, rfl, rfl, rfl, ?_, rfl, rfl, rfl⟩
    simp only [cTextReprRoundTrip, model]
    cases hvt : validText b s with
    | false => simp
    | true =>
      rw [C07_text_repr_roundtrip b _ ml s ((validText_iff b s).mp hvt)]
      simp
  | ctor cls row variant matchee annotated verbose =>
    refine ⟨?_, rfl, rfl, rfl, rfl, rfl, rfl, rfl⟩
    simp [cStrTotal, model, C07_str_known_total]
  | assert a =>
    refine ⟨rfl, rfl, rfl, rfl, rfl, ?_, ?_, ?_⟩
    · simp only [cRaisesIff, model, assertModel]
      cases hm : a.mismatch <;> cases ha : a.api <;> simp
    · simp only [cFailsAfterwards, model]
      cases hm : a.mismatch with
      | none =>
        have hff : (assertModel a).forceFailure = false := by simp [assertModel, hm]
        have hs : (!allRet a || (assertModel a).outcome == .success) = true := by
          cases hr : allRet a with
          | false => rfl
          | true => simp [(C07_plain_outcomes a hr).1 hm]
        cases ha : a.api <;> simp [hs, hff]
      | some ds =>
        cases ha : a.api with
        | expectThat =>
          have h3 := (C07_expectThat_fails a ds ha hm).2.2
          have hff : (assertModel a).forceFailure = true := by simp [assertModel, hm, ha]
          simp [h3, hff]
        | assertThat =>
          cases hr : allRet a with
          | false => simp
          | true => simp [(C07_plain_outcomes a hr).2 (by simp [hm]) (by simp [ha])]
        | assert_that =>
          cases hr : allRet a with
          | false => simp
          | true => simp [(C07_plain_outcomes a hr).2 (by simp [hm]) (by simp [ha])]
    · simp only [cNonClobbering, model]
      cases hm : a.mismatch with
      | none => simp [assertModel, hm, freshAll]
      | some ds =>
        cases ha : a.api with
        | assert_that => simp [assertModel, hm, ha, freshAll]
        | assertThat =>
          obtain ⟨added, h1, h2, h3⟩ := C07_details_nonclobbering a ds hm (by simp [ha])
          simp [h1, h2, h3, ha]
        | expectThat =>
          obtain ⟨added, h1, h2, h3⟩ := C07_details_nonclobbering a ds hm (by simp [ha])
          simp [h1, h2, h3, ha]

/-- **C07 (`str(MismatchError)` is total)**, verbose or not, annotated or not: for every
expression and every value, `str(matcher)`, `describe()`, `get_details()` and `str(MismatchError(...))`
all succeed in the model. -/
theorem C07_mismatch_error_str_total (m : M) (v : V) (annotated verbose : Bool) :
    ∃ r, model (.describe m v annotated verbose) = .describe none r none none none := by
  have hstr := C07_str_total (withMessage annotated m)
  have hd := C07_describe_total true (withMessage annotated m) v
  refine ⟨canon (withMessage annotated m) (matchImpl true (withMessage annotated m) v), ?_⟩
  simp [model, hstr, hd, seqR]

/-! ## non-vacuity -/
-- text_repr of  a'''\'  with multiline forced: the literal the real code prints; it evaluates back
example : textRepr false (fun _ => true) (some true) [97, 39, 39, 39, 92, 39]
    = [39, 39, 39, 92, 10, 97, 92, 39, 39, 39, 92, 92, 92, 39, 39, 39, 39] := by decide
example : pyEval false (textRepr false (fun _ => true) none [39, 10, 34, 233, 0]) = some [39, 10, 34, 233, 0] := by decide
example : valid false 0x10ffff ∧ valid true 255 := by simp [valid]
-- a mismatch whose description needs str() of a sub-matcher
example : matchImpl true (.not (.leaf .always)) (.int 1) = .mismatch ∧ descr true (.not (.leaf .always)) (.int 1) = none := by decide
-- a MatchesPredicate on an exc_info tuple returns its Mismatch; built outside its domain (empty message) it raises
example : matchImpl true (.leaf (.predicate 1 .one [.exc ⟨.valueError, 1⟩ true] [.mismatch])) (.exc ⟨.valueError, 1⟩ true) = .mismatch
    ∧ matchImpl true (.leaf (.predicate 1 .empty [.dict [] []] [.mismatch])) (.dict [] []) = .raised .typeError := by decide
-- expectThat with colliding names: "Failed expectation" exists, the detail d2 exists twice
example : (assertModel { api := .expectThat, existing := [⟨0, 0⟩, ⟨2, 0⟩, ⟨2, 1⟩], mismatch := some [2] }).names
    = [⟨0, 0⟩, ⟨2, 0⟩, ⟨2, 1⟩, ⟨2, 2⟩, ⟨0, 1⟩] := by decide
-- a failed expectation followed by skipTest in the body, an expected failure in tearDown and an erroring cleanup: addFailure
example : (assertModel { api := .expectThat, existing := [], mismatch := some [], after := .skip, tearDown := .xfail,
                         cleanups := [.error, .ret] }).outcome = .failure := by decide
-- … and with a KeyboardInterrupt in a cleanup: addError, re-raised; without the mismatch the skip would be reported
example : (assertModel { api := .expectThat, existing := [], mismatch := some [], after := .skip, cleanups := [.interrupt] })
    = { raised := false, continued := true, names := [⟨0, 0⟩], forceFailure := true, outcome := .error, propagated := true } := by decide
example : (assertModel { api := .expectThat, existing := [], mismatch := none, after := .skip }).outcome = .skip := by decide

-- a failed expectation followed by skipTest in the body, an expected failure in tearDown and an erroring cleanup: addFailure
example : (assertModel { api := .expectThat, existing := [], mismatch := some [], after := .skip, tearDown := .xfail,
                         cleanups := [.error, .ret] }).outcome = .failure := by decide
-- … and with a KeyboardInterrupt in a cleanup: addError, re-raised; without the mismatch the skip would be reported
example : (assertModel { api := .expectThat, existing := [], mismatch := some [], after := .skip, cleanups := [.interrupt] })
    = { raised := false, continued := true, names := [⟨0, 0⟩], forceFailure := true, outcome := .error, propagated := true } := by decide
example : (assertModel { api := .expectThat, existing := [], mismatch := none, after := .skip }).outcome = .skip := by decide

end TTV.Props.C07

/-! # source ties (C07): `_impl.py`, `testcase.py`, `assertions.py` as found in the tree -/
namespace TTV.Props.C07
open TTV.Matchers hiding Input Trace model
open TTV.Describe TTV.MatchSkel TTV.Generated

/-- `Mismatch.__init__` keeps a description that `is not None` (an empty one too), `describe()` returns it and raises
`NotImplementedError` only when none was given, `get_details()` returns the details, `MismatchDecorator` forwards both;
`MismatchError.__str__`: describe first; verbose: `text_repr(matchee, multiline=False)` for str / bytes, `repr` otherwise,
interpolated in the order matchee, matcher, difference; terse: the difference alone -/
theorem C07_src_mismatch : MatchSrc.mismatch = refMismatch ∧ MatchSrc.mismatchErrorStr = refErrStr := by decide

/-- `_matchHelper`, `assertThat`, `expectThat`, `addDetailUniqueName` and `assert_that` as found in the source -/
theorem C07_src_assert_skel : MatchSrc.assertFamily = refAssert := by decide

/-- … and the model of the three entry points (raised?, detail names afterwards, forced failure) is their interpretation -/
theorem C07_src_assert (a : AssertIn) :
    assertI MatchSrc.assertFamily a = ((assertModel a).raised, (assertModel a).names, (assertModel a).forceFailure) := by
  rw [C07_src_assert_skel]
  unfold assertI assertModel
  cases hm : a.mismatch <;> cases ha : a.api <;>
    simp [refAssert, ResTest.holds, assertI.mismatched']

/-- the loops that the description model replays (`descrParts`) are the loops of the source: the same arms decide
which sub-mismatches are collected (and therefore described) -/
theorem C07_src_described_parts : MatchSrc.matchesAll = refAll ∧ MatchSrc.matchesAny = refAny ∧
    MatchSrc.allMatch = refAllMatch ∧ MatchSrc.anyMatch = refAnyMatch ∧ MatchSrc.matchesListwise = refListwise ∧
    MatchSrc.notM = refNot ∧ MatchSrc.annotate = refAnnotate := by decide

end TTV.Props.C07
