import TTV.Model.Result
import TTV.Model.ResC08
import TTV.Spec.C08
import TTV.Lemmas.DetailsStr
import TTV.Generated.C08
import TTV.Generated.EtodSrc
import TTV.Lemmas.SrcRefRes
/-! # C08 — result adapters deliver each call once, at the richest protocol the target has

Theorems over the tree model M-Res (`TTV/Model/Result.lean`): **every** adapter graph (any depth, any fan-out) built
from `ExtendedToOriginalDecorator`, `TestResultDecorator`, `Tagger`, `ThreadsafeForwardingResult`,
`MultiTestResult` over leaves of the flavours 2.6 / 2.7 / Twisted / extended / `testtools.TestResult` /
`TextTestResult` / `TestByTestResult`, and **every** call history (no bound on length; well-formed or not
unless stated).

* `holds_model`         : the executable spec `Spec.C08.holds` is true of the model's trace, for every input
* `C08_reach`           : each leaf has received a call list whose test events are the history's, seen through the adapters above it
* `C08_forward`, `C08_forward_wf`, `C08_once_in_order` : the `startTest`/outcome/`stopTest` log of each leaf = the history's,
                          once each, in order, degraded only by the fixed table
* `C08_no_pass_from_fail` : the degradation never turns a failing outcome into a passing one
* `C08_details_text`    : `_details_to_str` (modelled exactly) contains the stripped text of every non-empty text detail
* `C08_tbt`, `C08_tbt_times_tags`, `C08_tbt_table` : `TestByTestResult` — one callback per `stopTest` with test, status
                          word, details, start/stop time and tags
-/
namespace TTV.Props.C08
open TTV.Result TTV.ResC08 TTV.Spec.C08

/-! ## what reaches a leaf -/
/-- a `ThreadsafeForwardingResult` swallows `startTest`/`stopTest` and sends a whole bracket per outcome -/
def tfrView (evs : List Call) : List Call :=
  evs.flatMap fun
    | .add k t a => [.startTest t, .add k t a, .stopTest t]
    | _ => []

theorem testEvs_append (a b : List Call) : testEvs (a ++ b) = testEvs a ++ testEvs b := by
  simp [testEvs]

theorem testEvs_idem (a : List Call) : testEvs (testEvs a) = testEvs a := by
  simp [testEvs]

theorem tfrView_append (a b : List Call) : tfrView (a ++ b) = tfrView a ++ tfrView b := by
  simp [tfrView]

@[simp] theorem testEvs_nil : testEvs [] = [] := rfl
@[simp] theorem testEvs_add (k : Kind) (t : Nat) (a : Arg) (cs : List Call) :
    testEvs (.add k t a :: cs) = .add k t a :: testEvs cs := rfl
@[simp] theorem testEvs_startTest (t : Nat) (cs : List Call) :
    testEvs (.startTest t :: cs) = .startTest t :: testEvs cs := rfl
@[simp] theorem testEvs_stopTest (t : Nat) (cs : List Call) :
    testEvs (.stopTest t :: cs) = .stopTest t :: testEvs cs := rfl
@[simp] theorem testEvs_startTestRun (cs : List Call) : testEvs (.startTestRun :: cs) = testEvs cs := rfl
@[simp] theorem testEvs_stopTestRun (cs : List Call) : testEvs (.stopTestRun :: cs) = testEvs cs := rfl
@[simp] theorem testEvs_tags (n g : TagSet) (cs : List Call) : testEvs (.tags n g :: cs) = testEvs cs := rfl
@[simp] theorem testEvs_time (d : TimeV) (cs : List Call) : testEvs (.time d :: cs) = testEvs cs := rfl
@[simp] theorem testEvs_stop (cs : List Call) : testEvs (.stop :: cs) = testEvs cs := rfl
@[simp] theorem testEvs_done (cs : List Call) : testEvs (.done :: cs) = testEvs cs := rfl
@[simp] theorem testEvs_progress (cs : List Call) : testEvs (.progress :: cs) = testEvs cs := rfl
@[simp] theorem testEvs_setFailfast (b : Bool) (cs : List Call) : testEvs (.setFailfast b :: cs) = testEvs cs := rfl

/-! ## adapters emit call lists -/
section emit
variable {σ : Type} (I : Iface σ)

theorem etodStop_emits (own : EtodOwn) (inner : σ) :
    ∃ cs, (etodStop I own inner).2 = cs.foldl I.step inner ∧ testEvs cs = [] := by
  unfold etodStop
  split
  · exact ⟨[.stop], rfl, rfl⟩
  · exact ⟨[], rfl, rfl⟩

theorem etodFinally_emits (p : EtodOwn × σ) :
    ∃ cs, (etodFinally I p).2 = cs.foldl I.step p.2 ∧ testEvs cs = [] := by
  unfold etodFinally
  split
  · exact etodStop_emits I p.1 p.2
  · exact ⟨[], rfl, rfl⟩

theorem finally_after (own : EtodOwn) (inner : σ) (cs : List Call) :
    ∃ cs2, (etodFinally I (own, cs.foldl I.step inner)).2 = (cs ++ cs2).foldl I.step inner ∧
      testEvs (cs ++ cs2) = testEvs cs := by
  obtain ⟨cs2, h1, h2⟩ := etodFinally_emits I (own, cs.foldl I.step inner)
  exact ⟨cs2, by simp [h1], by rw [testEvs_append, h2]; simp⟩

theorem etodStep_emits (own : EtodOwn) (inner : σ) (c : Call) :
    ∃ cs, (etodStep I own inner c).2 = cs.foldl I.step inner ∧
      testEvs cs = (testEvs [c]).map (degradeCall I.caps) := by
  cases c with
  | add k t a =>
    cases k <;> simp only [etodStep]
    · -- success
      refine ⟨[_], rfl, ?_⟩
      cases a <;> simp [degradeCall, degradeKind, degradeArg]
    · -- error
      obtain ⟨cs2, h1, h2⟩ := finally_after I own inner [.add .error t (match a with
        | .details d => if I.caps.details then a else detailsToExc d
        | a => a)]
      refine ⟨_, h1, ?_⟩
      rw [h2]
      cases a <;> simp [degradeCall, degradeKind, degradeArg]
    · -- failure
      obtain ⟨cs2, h1, h2⟩ := finally_after I own inner [.add .failure t (match a with
        | .details d => if I.caps.details then a else detailsToExc d
        | a => a)]
      refine ⟨_, h1, ?_⟩
      rw [h2]
      cases a <;> simp [degradeCall, degradeKind, degradeArg]
    · -- skip
      by_cases hs : I.caps.skip
      · cases a <;> simp only [hs] <;> refine ⟨[_], rfl, ?_⟩ <;>
          simp [degradeCall, degradeKind, degradeArg, hs]
      · simp only [hs]
        refine ⟨[_], rfl, ?_⟩
        simp [degradeCall, degradeKind, degradeArg, hs]
    · -- xfail
      by_cases hs : I.caps.xfail
      · simp only [hs]
        refine ⟨[_], rfl, ?_⟩
        cases a <;> simp [degradeCall, degradeKind, degradeArg, hs]
      · simp only [hs]
        refine ⟨[_], rfl, ?_⟩
        simp [degradeCall, degradeKind, degradeArg, hs]
    · -- uxsuccess
      by_cases hs : I.caps.uxs
      · simp only [hs]
        obtain ⟨cs2, h1, h2⟩ := finally_after I own inner [.add .uxsuccess t (match a with
          | .details _ => if I.caps.details then a else .none
          | _ => .none)]
        refine ⟨_, h1, ?_⟩
        rw [h2]
        cases a <;> simp [degradeCall, degradeKind, degradeArg, hs]
      · simp only [hs]
        obtain ⟨cs2, h1, h2⟩ := finally_after I own inner [.add .failure t (.exc .synth)]
        obtain ⟨cs3, h3, h4⟩ := etodFinally_emits I (etodFinally I (own, [Call.add .failure t (.exc .synth)].foldl I.step inner))
        refine ⟨[.add .failure t (.exc .synth)] ++ cs2 ++ cs3, ?_, ?_⟩
        · simp only [List.foldl_cons, List.foldl_nil] at h3 h1
          simp only [Bool.not_false, ite_true] 
          rw [h3, h1]; simp
        · rw [testEvs_append, h2, h4]
          simp [degradeCall, degradeKind, degradeArg, hs]
  | startTest t => exact ⟨[.startTest t], rfl, rfl⟩
  | stopTest t => exact ⟨[.stopTest t], rfl, rfl⟩
  | startTestRun =>
    simp only [etodStep]; split
    · exact ⟨[.startTestRun], rfl, rfl⟩
    · exact ⟨[], rfl, rfl⟩
  | stopTestRun =>
    simp only [etodStep]; split
    · exact ⟨[.stopTestRun], rfl, rfl⟩
    · exact ⟨[], rfl, rfl⟩
  | tags n g =>
    simp only [etodStep]; split
    · exact ⟨[.tags n g], rfl, rfl⟩
    · exact ⟨[], rfl, rfl⟩
  | time d =>
    simp only [etodStep]; split
    · exact ⟨[.time d], rfl, rfl⟩
    · exact ⟨[], rfl, rfl⟩
  | progress =>
    simp only [etodStep]; split
    · exact ⟨[.progress], rfl, rfl⟩
    · exact ⟨[], rfl, rfl⟩
  | done =>
    simp only [etodStep]; split
    · exact ⟨[.done], rfl, rfl⟩
    · exact ⟨[], rfl, rfl⟩
  | stop =>
    simp only [etodStep]
    exact etodStop_emits I own inner
  | setFailfast b =>
    simp only [etodStep]; split
    · exact ⟨[.setFailfast b], rfl, rfl⟩
    · exact ⟨[], rfl, rfl⟩

theorem testEvs_tfrBlock (own : TfrOwn) (k : Kind) (t : Nat) (a : Arg) :
    testEvs (tfrBlock own k t a) = [.startTest t, .add k t a, .stopTest t] := by
  unfold tfrBlock
  split <;> split <;> simp [testEvs_append]

theorem tfrStep_emits (own : TfrOwn) (inner : σ) (c : Call) :
    ∃ cs, (tfrStep I own inner c).2 = cs.foldl I.step inner ∧ testEvs cs = tfrView (testEvs [c]) := by
  cases c with
  | add k t a =>
    refine ⟨tfrBlock own k t a ++ tfrStops own k, rfl, ?_⟩
    have : testEvs (tfrStops own k) = [] := by unfold tfrStops; split <;> rfl
    simp [testEvs_append, testEvs_tfrBlock, tfrView, this]
  | startTestRun => exact ⟨[.startTestRun], rfl, rfl⟩
  | stopTestRun => exact ⟨[.stopTestRun], rfl, rfl⟩
  | stop => exact ⟨[.stop], rfl, rfl⟩
  | done => exact ⟨[.done], rfl, rfl⟩
  | startTest t => exact ⟨[], rfl, rfl⟩
  | stopTest t => exact ⟨[], rfl, rfl⟩
  | tags n g => exact ⟨[], rfl, rfl⟩
  | time d => exact ⟨[], rfl, rfl⟩
  | setFailfast b => exact ⟨[], rfl, rfl⟩
  | progress => exact ⟨[], rfl, rfl⟩
end emit

/-! ## `Reach s st evs`: every leaf of the graph is in the state it gets from its initial state by some list of
calls whose test events are `evs` as seen through the adapters above it (`ExtendedToOriginalDecorator`:
degraded for its target; `ThreadsafeForwardingResult`: re-bracketed; everything else: unchanged) -/
def LeafReach (s : Shape) (st : St s) (evs : List Call) : Prop :=
  ∃ cs, st = run s (init s) cs ∧ testEvs cs = evs

mutual
def Reach : (s : Shape) → St s → List Call → Prop
  | .sink f, st, evs => LeafReach (.sink f) st evs
  | .tt ff, st, evs => LeafReach (.tt ff) st evs
  | .text ff, st, evs => LeafReach (.text ff) st evs
  | .tbt, st, evs => LeafReach .tbt st evs
  | .etod c, (_, inner), evs => Reach c inner (evs.map (degradeCall (caps c)))
  | .deco c, st, evs => Reach c st evs
  | .fsink l b f, st, evs => LeafReach (.fsink l b f) st evs
  | .tagger _ _ c, st, evs => Reach c st evs
  | .tfr c, (_, inner), evs => Reach c inner (tfrView evs)
  | .multi cs, (_, inner), evs => ReachL cs inner evs
  | .e2s _, _, _ => True
  | .sff, _, _ => True
def ReachL : (cs : List Shape) → StL cs → List Call → Prop
  | [], _, _ => True
  | c :: cs, (x, xs), evs => Reach c x evs ∧ ReachL cs xs evs
end

theorem run_append (s : Shape) (st : St s) (a b : List Call) : run s st (a ++ b) = run s (run s st a) b := by
  simp [run]

theorem leafReach_steps (s : Shape) (st : St s) (e cs : List Call) (h : LeafReach s st e) :
    LeafReach s (cs.foldl (step s) st) (e ++ testEvs cs) := by
  obtain ⟨cs0, h1, h2⟩ := h
  exact ⟨cs0 ++ cs, by rw [run_append, ← h1]; rfl, by rw [testEvs_append, h2]⟩

theorem testEvs_cons_split (c : Call) (cs : List Call) : testEvs (c :: cs) = testEvs [c] ++ testEvs cs := by
  rw [← testEvs_append]; rfl

/-- from one call to a list of calls -/
theorem lift (s : Shape)
    (h1 : ∀ (st : St s) (e : List Call) (c : Call), Reach s st e → Reach s (step s st c) (e ++ testEvs [c])) :
    ∀ (cs : List Call) (st : St s) (e : List Call), Reach s st e → Reach s (cs.foldl (step s) st) (e ++ testEvs cs) := by
  intro cs
  induction cs with
  | nil => intro st e h; simpa using h
  | cons c cs ih =>
    intro st e h
    have := ih (step s st c) (e ++ testEvs [c]) (h1 st e c h)
    rw [List.append_assoc, ← testEvs_cons_split] at this
    exact this

mutual
theorem reach_steps : ∀ (s : Shape), s.noStream = true → ∀ (cs : List Call) (st : St s) (e : List Call),
    Reach s st e → Reach s (cs.foldl (step s) st) (e ++ testEvs cs)
  | .sink f, _ => fun cs st e h => by
      simp only [Reach] at h ⊢; exact leafReach_steps _ st e cs h
  | .tt ff, _ => fun cs st e h => by
      simp only [Reach] at h ⊢; exact leafReach_steps _ st e cs h
  | .fsink l b f, _ => fun cs st e h => by
      simp only [Reach] at h ⊢; exact leafReach_steps _ st e cs h
  | .text ff, _ => fun cs st e h => by
      simp only [Reach] at h ⊢; exact leafReach_steps _ st e cs h
  | .tbt, _ => fun cs st e h => by
      simp only [Reach] at h ⊢; exact leafReach_steps _ st e cs h
  | .etod ch, hn => lift _ (fun st e c h => by
      obtain ⟨own, inner⟩ := st
      obtain ⟨em, h1, h2⟩ := etodStep_emits ⟨caps ch, step ch, failfastOf ch⟩ own inner c
      have hstep : step (.etod ch) (own, inner) c
          = ((etodStep ⟨caps ch, step ch, failfastOf ch⟩ own inner c).1, em.foldl (step ch) inner) := by
        rw [← h1]; rfl
      rw [hstep]
      simp only [Reach] at h ⊢
      have := reach_steps ch (by simpa [Shape.noStream] using hn) em inner _ h
      rw [h2] at this
      simpa using this)
  | .tfr ch, hn => lift _ (fun st e c h => by
      obtain ⟨own, inner⟩ := st
      obtain ⟨em, h1, h2⟩ := tfrStep_emits ⟨caps ch, step ch, failfastOf ch⟩ own inner c
      have hstep : step (.tfr ch) (own, inner) c
          = ((tfrStep ⟨caps ch, step ch, failfastOf ch⟩ own inner c).1, em.foldl (step ch) inner) := by
        rw [← h1]; rfl
      rw [hstep]
      simp only [Reach] at h ⊢
      have := reach_steps ch (by simpa [Shape.noStream] using hn) em inner _ h
      rw [h2] at this
      simpa [tfrView_append] using this)
  | .deco ch, hn => lift _ (fun st e c h => by
      have hc := reach_steps ch (by simpa [Shape.noStream] using hn) [c] st e (by simpa [Reach] using h)
      simp only [Reach] at h ⊢
      cases c <;> first | simpa [step] using hc | simpa [step] using h)
  | .tagger n g ch, hn => lift _ (fun st e c h => by
      have hn' : ch.noStream = true := by simpa [Shape.noStream] using hn
      have hc := reach_steps ch hn' [c] st e (by simpa [Reach] using h)
      simp only [Reach] at h ⊢
      cases c with
      | startTest t =>
        have := reach_steps ch hn' [.startTest t, .tags n g] st e h
        simpa [step] using this
      | done => simpa [step] using h
      | _ => simpa [step] using hc)
  | .multi ss, hn => lift _ (fun st e c h => by
      obtain ⟨own, inner⟩ := st
      have hn' : Shape.noStreamL ss = true := by simpa [Shape.noStream] using hn
      simp only [Reach] at h ⊢
      have hc := reachL_step ss hn' inner e c h
      cases c with
      | progress => simpa [step] using h
      | _ => simpa [step] using hc)
  | .e2s _, hn => by simp [Shape.noStream] at hn
  | .sff, hn => by simp [Shape.noStream] at hn
theorem reachL_step : ∀ (ss : List Shape), Shape.noStreamL ss = true → ∀ (st : StL ss) (e : List Call) (c : Call),
    ReachL ss st e → ReachL ss (stepL ss st c) (e ++ testEvs [c])
  | [], _, _, _, _, _ => by simp [ReachL]
  | s :: ss, hn, (x, xs), e, c, h => by
      simp only [Shape.noStreamL, Bool.and_eq_true] at hn
      simp only [ReachL, stepL] at h ⊢
      exact ⟨by simpa using reach_steps s hn.1 [c] x e h.1, reachL_step ss hn.2 xs e c h.2⟩
end

mutual
theorem reach_init : ∀ (s : Shape), s.noStream = true → Reach s (init s) []
  | .sink f, _ => ⟨[], rfl, rfl⟩
  | .fsink _ _ _, _ => ⟨[], rfl, rfl⟩
  | .tt ff, _ => ⟨[], rfl, rfl⟩
  | .text ff, _ => ⟨[], rfl, rfl⟩
  | .tbt, _ => ⟨[], rfl, rfl⟩
  | .etod ch, hn => by
      simp only [Reach, init]; exact reach_init ch (by simpa [Shape.noStream] using hn)
  | .tfr ch, hn => by
      simp only [Reach, init]; exact reach_init ch (by simpa [Shape.noStream] using hn)
  | .deco ch, hn => by
      simp only [Reach, init]; exact reach_init ch (by simpa [Shape.noStream] using hn)
  | .tagger _ _ ch, hn => by
      simp only [Reach, init]; exact reach_init ch (by simpa [Shape.noStream] using hn)
  | .multi ss, hn => by
      simp only [Reach, init]
      exact reachL_init ss (by simpa [Shape.noStream] using hn)
  | .e2s _, hn => by simp [Shape.noStream] at hn
  | .sff, hn => by simp [Shape.noStream] at hn
theorem reachL_init : ∀ (ss : List Shape), Shape.noStreamL ss = true → ReachL ss (initL ss) []
  | [], _ => by simp [ReachL]
  | s :: ss, hn => by
      simp only [Shape.noStreamL, Bool.and_eq_true] at hn
      simp only [ReachL, initL]
      exact ⟨reach_init s hn.1, reachL_init ss hn.2⟩
end

/-- **C08 (forwarding, strongest form).**  For every adapter graph without a stream pipeline and every call
history `h` (well-formed or not), every leaf result has received, from its initial state, a list of calls
whose `startTest` / outcome / `stopTest` subsequence is the one of `h` seen through the adapters above the
leaf. -/
theorem C08_reach (s : Shape) (hs : s.noStream = true) (h : List Call) :
    Reach s (run s (init s) h) (testEvs h) := by
  have := reach_steps s hs h (init s) [] (reach_init s hs)
  simpa [run] using this

/-! ## from `Reach` to the event logs -/
/-- the `startTest` / outcome / `stopTest` events in a leaf's log -/
def tlog (l : LeafSt) : List Call := testEvs (l.log.map (·.call))

theorem sinkStep_log (f : Flavour) (s : Sink) (c : Call) :
    (sinkStep f s c).log.map (·.call) = s.log.map (·.call) ++ (if c.logged then [c] else []) := by
  cases c <;> simp [sinkStep, Call.logged] <;> (repeat' split) <;> simp

theorem ttStep_log (s : TT) (c : Call) :
    (ttStep s c).log.map (·.call) = s.log.map (·.call) ++ (if c.logged then [c] else []) := by
  cases c with
  | add k t a => cases k <;> simp [ttStep, Call.logged]
  | _ => simp [ttStep, Call.logged, TT.reset]

theorem textStep_log (s : TextSt) (c : Call) :
    (textStep s c).tt.log.map (·.call) = s.tt.log.map (·.call) ++ (if c.logged then [c] else []) := by
  cases c <;> simp only [textStep] <;> exact ttStep_log _ _

theorem tbtStep_log (s : TbtSt) (c : Call) :
    (tbtStep s c).tt.log.map (·.call) = s.tt.log.map (·.call) ++ (if c.logged then [c] else []) := by
  cases c <;> simp only [tbtStep] <;> exact ttStep_log _ _

theorem testEvs_logged (c : Call) : testEvs (if c.logged then [c] else []) = testEvs [c] := by
  cases c <;> simp [Call.logged]

theorem foldl_log {σ : Type} (stepf : σ → Call → σ) (log : σ → List Call)
    (h : ∀ s c, log (stepf s c) = log s ++ (if c.logged then [c] else [])) (cs : List Call) (s : σ) :
    testEvs (log (cs.foldl stepf s)) = testEvs (log s) ++ testEvs cs := by
  induction cs generalizing s with
  | nil => simp
  | cons c cs ih =>
    rw [List.foldl_cons, ih, h, testEvs_append, testEvs_logged, List.append_assoc, ← testEvs_cons_split]

/- the views of the test events at the leaves, left to right (as `Spec.C08.expect`, but a
`ThreadsafeForwardingResult` re-brackets) -/
mutual
def expectV : Shape → List Call → List (List Call)
  | .sink _, evs => [evs]
  | .tt _, evs => [evs]
  | .text _, evs => [evs]
  | .tbt, evs => [evs]
  | .etod c, evs => expectV c (evs.map (degradeCall (caps c)))
  | .deco c, evs => expectV c evs
  | .fsink _ _ _, evs => [evs]
  | .tagger _ _ c, evs => expectV c evs
  | .tfr c, evs => expectV c (tfrView evs)
  | .e2s c, evs => expectV c evs
  | .sff, _ => []
  | .multi cs, evs => expectVL cs evs
def expectVL : List Shape → List Call → List (List Call)
  | [], _ => []
  | c :: cs, evs => expectV c evs ++ expectVL cs evs
end

mutual
theorem reach_tlogs : ∀ (s : Shape), s.noStream = true → ∀ (st : St s) (evs : List Call),
    Reach s st evs → (leaves s st).map tlog = expectV s evs
  | .sink f, _, st, evs, ⟨cs, h1, h2⟩ => by
      subst h1
      simp only [leaves, expectV, List.map, tlog, LeafSt.log, run, step]
      rw [foldl_log (sinkStep f) (fun s => s.log.map (·.call)) (sinkStep_log f)]
      simp [init, h2]
  | .fsink l b f, _, st, evs, ⟨cs, h1, h2⟩ => by
      subst h1
      simp only [leaves, expectV, List.map, tlog, LeafSt.log, run, step]
      rw [foldl_log (sinkStep f) (fun s => s.log.map (·.call)) (sinkStep_log f)]
      simp [init, h2]
  | .tt ff, _, st, evs, ⟨cs, h1, h2⟩ => by
      subst h1
      simp only [leaves, expectV, List.map, tlog, LeafSt.log, run, step]
      rw [foldl_log ttStep (fun s => s.log.map (·.call)) ttStep_log]
      simp [init, h2]
  | .text ff, _, st, evs, ⟨cs, h1, h2⟩ => by
      subst h1
      simp only [leaves, expectV, List.map, tlog, LeafSt.log, run, step]
      rw [foldl_log textStep (fun s => s.tt.log.map (·.call)) textStep_log]
      simp [init, h2]
  | .tbt, _, st, evs, ⟨cs, h1, h2⟩ => by
      subst h1
      simp only [leaves, expectV, List.map, tlog, LeafSt.log, run, step]
      rw [foldl_log tbtStep (fun s => s.tt.log.map (·.call)) tbtStep_log]
      simp [init, h2]
  | .etod ch, hn, (own, inner), evs, h => by
      simp only [leaves, expectV]; exact reach_tlogs ch (by simpa [Shape.noStream] using hn) inner _ h
  | .tfr ch, hn, (own, inner), evs, h => by
      simp only [leaves, expectV]; exact reach_tlogs ch (by simpa [Shape.noStream] using hn) inner _ h
  | .deco ch, hn, st, evs, h => by
      simp only [leaves, expectV]; exact reach_tlogs ch (by simpa [Shape.noStream] using hn) st _ h
  | .tagger _ _ ch, hn, st, evs, h => by
      simp only [leaves, expectV]; exact reach_tlogs ch (by simpa [Shape.noStream] using hn) st _ h
  | .multi ss, hn, (own, inner), evs, h => by
      simp only [leaves, expectV]; exact reachL_tlogs ss (by simpa [Shape.noStream] using hn) inner _ h
  | .e2s _, hn, _, _, _ => by simp [Shape.noStream] at hn
  | .sff, hn, _, _, _ => by simp [Shape.noStream] at hn
theorem reachL_tlogs : ∀ (ss : List Shape), Shape.noStreamL ss = true → ∀ (st : StL ss) (evs : List Call),
    ReachL ss st evs → (leavesL ss st).map tlog = expectVL ss evs
  | [], _, _, _, _ => by simp [leavesL, expectVL]
  | s :: ss, hn, (x, xs), evs, h => by
      simp only [Shape.noStreamL, Bool.and_eq_true] at hn
      simp only [leavesL, expectVL, List.map_append]
      rw [reach_tlogs s hn.1 x evs h.1, reachL_tlogs ss hn.2 xs evs h.2]
end

/-- **C08 (forwarding).**  The `startTest` / outcome / `stopTest` events in the log of each leaf, left to
right, are the events of the history seen through the adapters above that leaf: same events, same order,
outcomes degraded by `degradeCall` for the capabilities of the target of each `ExtendedToOriginalDecorator`
(a `ThreadsafeForwardingResult` sends `startTest t, outcome, stopTest t` for every outcome). -/
theorem C08_forward (s : Shape) (hs : s.noStream = true) (h : List Call) :
    (leaves s (run s (init s) h)).map tlog = expectV s (testEvs h) :=
  reach_tlogs s hs _ _ (C08_reach s hs h)

/-! ### well-formed histories: a `ThreadsafeForwardingResult` is transparent -/
theorem tfrView_map (c : Caps) (evs : List Call) :
    tfrView (evs.map (degradeCall c)) = (tfrView evs).map (degradeCall c) := by
  induction evs with
  | nil => rfl
  | cons x evs ih =>
    have hc : tfrView (degradeCall c x :: evs.map (degradeCall c))
        = tfrView [degradeCall c x] ++ tfrView (evs.map (degradeCall c)) := tfrView_append [_] _
    have hc' : tfrView (x :: evs) = tfrView [x] ++ tfrView evs := tfrView_append [_] _
    rw [List.map_cons, hc, hc', ih, List.map_append]
    congr 1
    cases x <;> simp [tfrView, degradeCall]

theorem tfrView_wf (evs : List Call) (h : wfEvs evs = true) : tfrView evs = evs := by
  fun_induction wfEvs evs with
  | case1 => rfl
  | case2 t k t' a t'' rest ih =>
    simp only [Bool.and_eq_true, beq_iff_eq] at h
    obtain ⟨⟨rfl, rfl⟩, h3⟩ := h
    have := ih h3
    simp only [tfrView] at this ⊢
    simp [this]
  | case3 evs h1 h2 => simp_all

mutual
theorem expectV_eq : ∀ (s : Shape) (evs : List Call), (tfrView evs = evs ∨ s.hasTfr = false) →
    expectV s evs = expect s evs
  | .sink _, _, _ => rfl
  | .fsink _ _ _, _, _ => rfl
  | .tt _, _, _ => rfl
  | .text _, _, _ => rfl
  | .tbt, _, _ => rfl
  | .etod c, evs, h => by
      simp only [expectV, expect]
      refine expectV_eq c _ (h.imp (fun h => ?_) (fun h => by simpa [Shape.hasTfr] using h))
      rw [tfrView_map, h]
  | .deco c, evs, h => by
      simp only [expectV, expect]; exact expectV_eq c _ (h.imp id (fun h => by simpa [Shape.hasTfr] using h))
  | .tagger _ _ c, evs, h => by
      simp only [expectV, expect]; exact expectV_eq c _ (h.imp id (fun h => by simpa [Shape.hasTfr] using h))
  | .sff, _, _ => rfl
  | .e2s c, evs, h => by
      simp only [expectV, expect]; exact expectV_eq c _ (h.imp id (fun h => by simpa [Shape.hasTfr] using h))
  | .tfr c, evs, h => by
      simp only [expectV, expect]
      rcases h with h | h
      · rw [h]; exact expectV_eq c _ (.inl h)
      · simp [Shape.hasTfr] at h
  | .multi cs, evs, h => by
      simp only [expectV, expect]; exact expectVL_eq cs _ (h.imp id (fun h => by simpa [Shape.hasTfr] using h))
theorem expectVL_eq : ∀ (ss : List Shape) (evs : List Call), (tfrView evs = evs ∨ Shape.hasTfrL ss = false) →
    expectVL ss evs = expectL ss evs
  | [], _, _ => rfl
  | s :: ss, evs, h => by
      simp only [expectVL, expectL]
      rw [expectV_eq s evs (h.imp id (fun h => by simp [Shape.hasTfrL] at h; exact h.1)),
          expectVL_eq ss evs (h.imp id (fun h => by simp [Shape.hasTfrL] at h; exact h.2))]
end

/-- **C08 (forwarding, well-formed histories).**  When the history is a sequence of
`startTest t, outcome t, stopTest t` brackets, or no `ThreadsafeForwardingResult` is in the graph, each leaf
logs exactly the test events of the history, once each and in order, degraded only by the
`ExtendedToOriginalDecorator`s above it (`Spec.C08.expect`). -/
theorem C08_forward_wf (s : Shape) (hs : s.noStream = true) (h : List Call)
    (hw : wfEvs (testEvs h) = true ∨ s.hasTfr = false) :
    (leaves s (run s (init s) h)).map tlog = expect s (testEvs h) := by
  rw [C08_forward s hs h]
  exact expectV_eq s _ (hw.imp (tfrView_wf _) id)

/-! ## a failing outcome never arrives as a passing one -/
/-- **C08 (no pass from fail).**  Whatever the target lacks, the degraded outcome is passing (success, skip,
expected failure) only if the reported outcome is passing. -/
theorem C08_no_pass_from_fail (c : Caps) (k : Kind) (h : (degradeKind c k).passing = true) : k.passing = true := by
  cases k <;> simp only [degradeKind] at h <;> (try split at h) <;> simp_all [Kind.passing]

/-! ## the text of details survives the degradation -/
theorem isInfix_iff (p : Text) : ∀ (s : Text), isInfix p s = true ↔ p <:+: s
  | [] => by simp [isInfix, List.infix_nil]
  | c :: s => by
      simp only [isInfix, Bool.or_eq_true, List.isPrefixOf_iff_prefix, isInfix_iff p s, List.infix_cons_iff]

/-- **C08 (details text).**  `_details_to_str` — the text of the `_StringException` / reason a target without
the details protocol receives — contains the stripped text of every non-empty text detail (names in a
details dict are unique). -/
theorem C08_details_text (details : Details) (special : Option Text) (n t : Text)
    (hm : (n, Content.text t) ∈ details) (hu : ∀ p ∈ details, p.1 = n → p = (n, Content.text t))
    (hne : strip t ≠ []) : strip t <:+: detailsToStr details special :=
  Lemmas.DetailsStr.detailsToStr_contains details special n t hm hu hne

/-- names of a details dict are pairwise different -/
def UniqueNames (d : Details) : Prop := ∀ p ∈ d, ∀ q ∈ d, p.1 = q.1 → p = q

theorem textsOf_infix (d : Details) (special : Option Text) (hd : UniqueNames d) :
    (textsOf d).all (isInfix · (detailsToStr d special)) = true := by
  rw [List.all_eq_true]
  intro x hx
  obtain ⟨p, hp, hpx⟩ := List.mem_filterMap.mp hx
  obtain ⟨n, c⟩ := p
  cases c with
  | text t =>
    simp only at hpx
    split at hpx
    · simp at hpx
    · rename_i hne
      simp only [Option.some.injEq] at hpx
      subst hpx
      rw [isInfix_iff]
      exact C08_details_text d special n t hp (fun q hq h => hd q hq _ hp h) (by simpa using hne)
  | binary ct => simp at hpx
  | tb => simp at hpx

/-- how an argument can arrive after any number of `ExtendedToOriginalDecorator`s: unchanged, dropped,
replaced by the synthetic failure of an unexpected success, or its details rendered as exception / reason -/
def arrives (got orig : Arg) : Bool :=
  got == orig || got == .none || got == .exc .synth ||
  match orig with
  | .details d => got == detailsToExc d || got == .reason (detailsToReason d)
  | _ => false

theorem arrives_degrade (c : Caps) (k : Kind) (a : Arg) : arrives (degradeArg c k a) a = true := by
  cases k <;> cases a <;> simp [degradeArg, arrives] <;> (repeat' split) <;> simp_all

theorem arrives_trans (x y z : Arg) (h1 : arrives x y = true) (h2 : arrives y z = true) : arrives x z = true := by
  simp only [arrives, Bool.or_eq_true, beq_iff_eq] at h1 h2 ⊢
  rcases h1 with ((h | h) | h) | h
  · subst h; exact h2
  · exact .inl (.inl (.inr h))
  · exact .inl (.inr h)
  · cases y with
    | details d =>
      rcases h2 with ((h2 | h2) | h2) | h2
      · subst h2; exact .inr (by simpa using h)
      · cases h2
      · cases h2
      · cases z <;> simp [detailsToExc] at h2
    | _ => simp at h

theorem arrives_textKept (got orig : Arg) (hd : ∀ d, orig = .details d → UniqueNames d)
    (h : arrives got orig = true) : textKept got orig = true := by
  simp only [arrives, Bool.or_eq_true, beq_iff_eq] at h
  rcases h with ((h | h) | h) | h
  · subst h; cases got <;> simp [textKept]
  · subst h; cases orig <;> simp [textKept]
  · subst h; cases orig <;> simp [textKept]
  · cases orig with
    | details d =>
      simp only [Bool.or_eq_true, beq_iff_eq] at h
      rcases h with h | h
      · subst h; simp only [textKept, detailsToExc]; exact textsOf_infix d _ (hd d rfl)
      · subst h
        simp only [textKept, detailsToReason]
        cases hl : lookup d reasonKey with
        | none => simp only []; exact textsOf_infix d _ (hd d rfl)
        | some c => cases c <;> simp only [beq_self_eq_true] <;> exact textsOf_infix d _ (hd d rfl)
    | _ => simp at h

/-! ## relations between what a leaf is to receive and the history -/
mutual
theorem expect_rel (Q : List Call → List Call → Prop) (hrefl : ∀ evs, Q evs evs)
    (hstep : ∀ c l evs, Q l (evs.map (degradeCall c)) → Q l evs) :
    ∀ (s : Shape) (evs : List Call), ∀ l ∈ expect s evs, Q l evs
  | .sink _, evs, l, h => by simp only [expect, List.mem_singleton] at h; subst h; exact hrefl _
  | .fsink _ _ _, evs, l, h => by simp only [expect, List.mem_singleton] at h; subst h; exact hrefl _
  | .tt _, evs, l, h => by simp only [expect, List.mem_singleton] at h; subst h; exact hrefl _
  | .text _, evs, l, h => by simp only [expect, List.mem_singleton] at h; subst h; exact hrefl _
  | .tbt, evs, l, h => by simp only [expect, List.mem_singleton] at h; subst h; exact hrefl _
  | .etod c, evs, l, h => hstep _ _ _ (expect_rel Q hrefl hstep c _ l (by simpa [expect] using h))
  | .deco c, evs, l, h => expect_rel Q hrefl hstep c _ l (by simpa [expect] using h)
  | .tagger _ _ c, evs, l, h => expect_rel Q hrefl hstep c _ l (by simpa [expect] using h)
  | .tfr c, evs, l, h => expect_rel Q hrefl hstep c _ l (by simpa [expect] using h)
  | .e2s c, evs, l, h => expect_rel Q hrefl hstep c _ l (by simpa [expect] using h)
  | .sff, _, _, h => by simp [expect] at h
  | .multi cs, evs, l, h => expectL_rel Q hrefl hstep cs _ l (by simpa [expect] using h)
theorem expectL_rel (Q : List Call → List Call → Prop) (hrefl : ∀ evs, Q evs evs)
    (hstep : ∀ c l evs, Q l (evs.map (degradeCall c)) → Q l evs) :
    ∀ (ss : List Shape) (evs : List Call), ∀ l ∈ expectL ss evs, Q l evs
  | [], _, _, h => by simp [expectL] at h
  | s :: ss, evs, l, h => by
      simp only [expectL, List.mem_append] at h
      rcases h with h | h
      · exact expect_rel Q hrefl hstep s evs l h
      · exact expectL_rel Q hrefl hstep ss evs l h
end

theorem zipAll_refl {α : Type} (p : α → α → Bool) (h : ∀ a, p a a = true) : ∀ l, zipAll p l l = true
  | [] => rfl
  | a :: l => by simp [zipAll, h, zipAll_refl p h l]

theorem zipAll_map_right {α β γ : Type} (p : α → γ → Bool) (q : α → β → Bool) (f : β → γ)
    (h : ∀ x y, p x (f y) = true → q x y = true) : ∀ (a : List α) (b : List β),
    zipAll p a (b.map f) = true → zipAll q a b = true
  | [], [], _ => rfl
  | [], _ :: _, h' => by simp [zipAll] at h'
  | _ :: _, [], h' => by simp [zipAll] at h'
  | x :: a, y :: b, h' => by
      simp only [List.map_cons, zipAll, Bool.and_eq_true] at h' ⊢
      exact ⟨h _ _ h'.1, zipAll_map_right p q f h a b h'.2⟩

theorem zipAll_imp {α β : Type} (p q : α → β → Bool) : ∀ (a : List α) (b : List β),
    (∀ x, ∀ y ∈ b, p x y = true → q x y = true) → zipAll p a b = true → zipAll q a b = true
  | [], [], _, _ => rfl
  | [], _ :: _, _, h' => by simp [zipAll] at h'
  | _ :: _, [], _, h' => by simp [zipAll] at h'
  | x :: a, y :: b, h, h' => by
      simp only [zipAll, Bool.and_eq_true] at h' ⊢
      exact ⟨h _ _ (by simp) h'.1, zipAll_imp p q a b (fun x y hy => h x y (by simp [hy])) h'.2⟩

theorem zipAll_map_eq {α β γ : Type} (p : α → γ → Bool) (f : β → γ) : ∀ (a : List α) (b : List β),
    zipAll p a (b.map f) = zipAll (fun x y => p x (f y)) a b
  | [], [] => rfl
  | [], _ :: _ => rfl
  | _ :: _, [] => rfl
  | x :: a, y :: b => by simp [zipAll, zipAll_map_eq p f a b]

theorem kindsOf_map (c : Caps) (evs : List Call) :
    kindsOf (evs.map (degradeCall c)) = (kindsOf evs).map (degradeKind c) := by
  induction evs with
  | nil => rfl
  | cons x evs ih => cases x <;> simp_all [kindsOf, degradeCall]

theorem kindsOf_testEvs (h : List Call) : kindsOf (testEvs h) = kindsOf h := by
  induction h with
  | nil => rfl
  | cons x h ih => cases x <;> simp_all [kindsOf]

theorem argsOf_testEvs (h : List Call) : argsOf (testEvs h) = argsOf h := by
  induction h with
  | nil => rfl
  | cons x h ih => cases x <;> simp_all [argsOf]

/-- outcome by outcome, what any leaf is to receive is passing only if the reported outcome is passing -/
theorem expect_kinds (s : Shape) (evs : List Call) : ∀ l ∈ expect s evs,
    zipAll (fun k' k => !k'.passing || k.passing) (kindsOf l) (kindsOf evs) = true :=
  expect_rel (fun l evs => zipAll (fun k' k => !k'.passing || k.passing) (kindsOf l) (kindsOf evs) = true)
    (fun evs => zipAll_refl _ (by intro k; cases k <;> rfl) _)
    (fun c l evs h => by
      rw [kindsOf_map] at h
      refine zipAll_map_right _ _ _ (fun x y hxy => ?_) _ _ h
      cases hx : x.passing
      · simp
      · simp only [hx, Bool.not_true, Bool.false_or] at hxy
        simp [C08_no_pass_from_fail c y hxy]) s evs

/-- kind and argument of every outcome -/
def kaOf (evs : List Call) : List (Kind × Arg) := evs.filterMap fun | .add k _ a => some (k, a) | _ => none

theorem kaOf_map (c : Caps) (evs : List Call) :
    kaOf (evs.map (degradeCall c)) = (kaOf evs).map (fun ka => (degradeKind c ka.1, degradeArg c ka.1 ka.2)) := by
  induction evs with
  | nil => rfl
  | cons x evs ih => cases x <;> simp_all [kaOf, degradeCall]

theorem kaOf_snd (evs : List Call) : (kaOf evs).map (·.2) = argsOf evs := by
  induction evs with
  | nil => rfl
  | cons x evs ih => cases x <;> simp_all [kaOf, argsOf]

theorem arrives_refl (a : Arg) : arrives a a = true := by simp [arrives]

theorem expect_args (s : Shape) (evs : List Call) : ∀ l ∈ expect s evs,
    zipAll (fun got (ka : Kind × Arg) => arrives got ka.2) (argsOf l) (kaOf evs) = true :=
  expect_rel (fun l evs => zipAll (fun got (ka : Kind × Arg) => arrives got ka.2) (argsOf l) (kaOf evs) = true)
    (fun evs => by
      induction evs with
      | nil => rfl
      | cons x evs ih => cases x <;> simp_all [kaOf, argsOf, zipAll, arrives_refl])
    (fun c l evs h => by
      rw [kaOf_map] at h
      exact zipAll_map_right (fun got (ka : Kind × Arg) => arrives got ka.2) (fun got (ka : Kind × Arg) => arrives got ka.2)
        (fun ka : Kind × Arg => (degradeKind c ka.1, degradeArg c ka.1 ka.2))
        (fun x y hxy => arrives_trans _ _ _ hxy (arrives_degrade c y.1 y.2)) _ _ h) s evs

/-! ## TestByTestResult -/
def proj (c : TbtCall) : Nat × Option Kind × Option Details := (c.test, c.status, c.details)

/-- the callbacks as the code computes them from the test events it receives -/
def scanM : Option Kind → Option Details → List Call → List (Nat × Option Kind × Option Details)
  | _, _, [] => []
  | _, _, .startTest _ :: evs => scanM none none evs
  | _, _, .add k _ a :: evs => scanM (some (tbtStatus k)) (tbtDet k a) evs
  | s, d, .stopTest t :: evs => (t, s, d) :: scanM s d evs
  | s, d, _ :: evs => scanM s d evs

theorem tbt_calls : ∀ (cs : List Call) (st : TbtSt),
    (cs.foldl tbtStep st).calls.map proj = st.calls.map proj ++ scanM st.status st.details (testEvs cs)
  | [], st => by simp [scanM]
  | c :: cs, st => by
      rw [List.foldl_cons, tbt_calls cs]
      cases c <;> simp [tbtStep, scanM, proj]

/-- an outcome as it can reach a result: its argument has a form that fits the kind -/
def fineCall : Call → Bool
  | .add k _ a =>
      (match k, a with
       | .success, .none | .success, .details _ | .uxsuccess, .none | .uxsuccess, .details _ => true
       | .skip, .reason _ | .skip, .details _ => true
       | .error, .exc _ | .failure, .exc _ | .xfail, .exc _ => true
       | .error, .details _ | .failure, .details _ | .xfail, .details _ => true
       | _, _ => false)
  | _ => true

theorem tbtWord_eq (k : Kind) : tbtWord k = tbtStatus k := by cases k <;> rfl

theorem scanM_eq : ∀ (evs : List Call) (s : Option Kind) (d : Option Details), evs.all fineCall = true →
    scanM s d evs = tbtExpect s d evs
  | [], _, _, _ => rfl
  | c :: evs, s, d, h => by
      simp only [List.all_cons, Bool.and_eq_true] at h
      have ih := fun s d => scanM_eq evs s d h.2
      cases c with
      | add k t a =>
        have : tbtDet k a = tbtDetails a := by
          have h1 := h.1
          cases k <;> cases a <;> simp [fineCall] at h1 <;> simp [tbtDet, tbtDetails, errToDetails]
        simp [scanM, tbtExpect, ih, this, tbtWord_eq]
      | _ => simp [scanM, tbtExpect, ih]

theorem fine_degrade (c : Caps) (x : Call) (h : fineCall x = true) : fineCall (degradeCall c x) = true := by
  cases x with
  | add k t a =>
    cases hd : c.details <;> cases hs : c.skip <;> cases hx : c.xfail <;> cases hu : c.uxs <;>
      cases k <;> cases a <;> simp [fineCall] at h <;>
      simp [degradeCall, degradeKind, degradeArg, fineCall, detailsToExc, hd, hs, hx, hu, h]
  | _ => simpa [degradeCall] using h

theorem fine_map (c : Caps) (evs : List Call) (h : evs.all fineCall = true) :
    (evs.map (degradeCall c)).all fineCall = true := by
  rw [List.all_eq_true] at h ⊢
  intro x hx
  obtain ⟨y, hy, rfl⟩ := List.mem_map.mp hx
  exact fine_degrade c y (h y hy)

theorem fine_tfrView (evs : List Call) (h : evs.all fineCall = true) : (tfrView evs).all fineCall = true := by
  rw [List.all_eq_true] at h ⊢
  intro x hx
  simp only [tfrView, List.mem_flatMap] at hx
  obtain ⟨y, hy, hxy⟩ := hx
  cases y <;> simp at hxy
  rcases hxy with rfl | rfl | rfl
  · rfl
  · exact h _ hy
  · rfl

def tbtOk (l : LeafTrace) (isTbt : Bool) (evs : List Call) : Bool :=
  if isTbt then l.calls.map (fun c => (c.test, c.status, c.details)) == tbtExpect none none evs
  else l.calls.isEmpty

theorem zip3All_append {α β γ : Type} (p : α → β → γ → Bool) : ∀ (a1 : List α) (b1 : List β) (c1 : List γ) a2 b2 c2,
    zip3All p a1 b1 c1 = true → zip3All p a2 b2 c2 = true → zip3All p (a1 ++ a2) (b1 ++ b2) (c1 ++ c2) = true
  | [], [], [], _, _, _, _, h => by simpa using h
  | x :: a, y :: b, z :: c, _, _, _, h1, h2 => by
      simp only [zip3All, Bool.and_eq_true, List.cons_append] at h1 ⊢
      exact ⟨h1.1, zip3All_append p a b c _ _ _ h1.2 h2⟩
  | [], [], _ :: _, _, _, _, h, _ => by simp [zip3All] at h
  | [], _ :: _, _, _, _, _, h, _ => by simp [zip3All] at h
  | _ :: _, [], _, _, _, _, h, _ => by simp [zip3All] at h
  | _ :: _, _ :: _, [], _, _, _, h, _ => by simp [zip3All] at h

mutual
theorem reach_tbt : ∀ (s : Shape), s.noStream = true → ∀ (st : St s) (evs : List Call),
    Reach s st evs → (s.hasTbt = true → evs.all fineCall = true) →
    zip3All tbtOk ((leaves s st).map observe) (isTbtLeaf s) (expectV s evs) = true
  | .sink f, _, st, evs, _, _ => by simp [leaves, isTbtLeaf, expectV, zip3All, tbtOk, observe, LeafSt.calls]
  | .fsink _ _ f, _, st, evs, _, _ => by simp [leaves, isTbtLeaf, expectV, zip3All, tbtOk, observe, LeafSt.calls]
  | .tt ff, _, st, evs, _, _ => by simp [leaves, isTbtLeaf, expectV, zip3All, tbtOk, observe, LeafSt.calls]
  | .text ff, _, st, evs, _, _ => by simp [leaves, isTbtLeaf, expectV, zip3All, tbtOk, observe, LeafSt.calls]
  | .tbt, _, st, evs, ⟨cs, h1, h2⟩, hf => by
      subst h1
      have := tbt_calls cs (init .tbt)
      simp only [leaves, isTbtLeaf, expectV, zip3All, tbtOk, observe, LeafSt.calls, List.map, Bool.and_true, ite_true,
        beq_iff_eq]
      simp only [init, List.map_nil, List.nil_append] at this
      rw [h2, scanM_eq evs _ _ (hf rfl)] at this
      exact this
  | .etod ch, hn, (own, inner), evs, h, hf => by
      simp only [leaves, isTbtLeaf, expectV]
      exact reach_tbt ch (by simpa [Shape.noStream] using hn) inner _ h
        (fun ht => fine_map _ _ (hf (by simpa [Shape.hasTbt] using ht)))
  | .tfr ch, hn, (own, inner), evs, h, hf => by
      simp only [leaves, isTbtLeaf, expectV]
      exact reach_tbt ch (by simpa [Shape.noStream] using hn) inner _ h
        (fun ht => fine_tfrView _ (hf (by simpa [Shape.hasTbt] using ht)))
  | .deco ch, hn, st, evs, h, hf => by
      simp only [leaves, isTbtLeaf, expectV]
      exact reach_tbt ch (by simpa [Shape.noStream] using hn) st _ h (fun ht => hf (by simpa [Shape.hasTbt] using ht))
  | .tagger _ _ ch, hn, st, evs, h, hf => by
      simp only [leaves, isTbtLeaf, expectV]
      exact reach_tbt ch (by simpa [Shape.noStream] using hn) st _ h (fun ht => hf (by simpa [Shape.hasTbt] using ht))
  | .multi ss, hn, (own, inner), evs, h, hf => by
      simp only [leaves, isTbtLeaf, expectV]
      exact reachL_tbt ss (by simpa [Shape.noStream] using hn) inner _ h (fun ht => hf (by simpa [Shape.hasTbt] using ht))
  | .e2s _, hn, _, _, _, _ => by simp [Shape.noStream] at hn
  | .sff, hn, _, _, _, _ => by simp [Shape.noStream] at hn
theorem reachL_tbt : ∀ (ss : List Shape), Shape.noStreamL ss = true → ∀ (st : StL ss) (evs : List Call),
    ReachL ss st evs → (Shape.hasTbtL ss = true → evs.all fineCall = true) →
    zip3All tbtOk ((leavesL ss st).map observe) (isTbtLeafL ss) (expectVL ss evs) = true
  | [], _, _, _, _, _ => by simp [leavesL, isTbtLeafL, expectVL, zip3All]
  | s :: ss, hn, (x, xs), evs, h, hf => by
      simp only [Shape.noStreamL, Bool.and_eq_true] at hn
      simp only [leavesL, isTbtLeafL, expectVL, List.map_append]
      exact zip3All_append _ _ _ _ _ _ _
        (reach_tbt s hn.1 x evs h.1 (fun ht => hf (by simp [Shape.hasTbtL, ht])))
        (reachL_tbt ss hn.2 xs evs h.2 (fun ht => hf (by simp [Shape.hasTbtL, ht])))
end

theorem ok_fine (h : List Call) (hok : h.all Call.ok = true) : (testEvs h).all fineCall = true := by
  rw [List.all_eq_true]
  intro c hc
  have hc' : c ∈ h := (List.mem_filter.mp hc).1
  have h1 := (List.all_eq_true.mp hok) c hc'
  cases c with
  | add k t a => cases k <;> cases a <;> simp [Call.ok, argOk] at h1 <;> simp [fineCall]
  | _ => rfl

/-- **C08 (TestByTestResult, what is reported).**  Whatever adapters sit above a `TestByTestResult`, its
callbacks are exactly one per `stopTest` it is to receive, each carrying the test, the status word of the
outcome reported since the `startTest` (`tbtWord`) and that outcome's details (`tbtDetails`; an empty details dict
is details), for every history of calls a caller may make (`Call.ok`: the argument form fits the outcome). -/
theorem C08_tbt (s : Shape) (hs : s.noStream = true) (h : List Call) (hok : h.all Call.ok = true) :
    zip3All tbtOk ((leaves s (run s (init s) h)).map observe) (isTbtLeaf s) (expectV s (testEvs h)) = true :=
  reach_tbt s hs _ _ (C08_reach s hs h) (fun _ => ok_fine h hok)

/-! ### times and tags of a directly used TestByTestResult -/
theorem tbt_root : ∀ (cs : List Call) (st : TbtSt),
    (cs.foldl tbtStep st).calls.map (fun c => (c.start, c.stop, c.tags))
      = st.calls.map (fun c => (c.start, c.stop, c.tags)) ++ rootExpect st.tt.now st.tt.tags st.start cs
  | [], st => by simp [rootExpect]
  | c :: cs, st => by
      rw [List.foldl_cons, tbt_root cs]
      cases c with
      | add k t a => cases k <;> simp [tbtStep, ttStep, rootExpect, Call.logged]
      | _ => simp [tbtStep, ttStep, rootExpect, TT.reset, TT.clock, Call.logged]

/-- **C08 (TestByTestResult, times and tags).**  Used directly, a `TestByTestResult` reports for the n-th
`stopTest` the time current at the matching `startTest` and at the `stopTest` (the value last given to
`time()` in this run, else the wall clock) and the tags current just before the `stopTest`. -/
theorem C08_tbt_times_tags (h : List Call) :
    (run .tbt (init .tbt) h : TbtSt).calls.map (fun c => (c.start, c.stop, c.tags))
      = rootExpect .none {} .none h := by
  have := tbt_root h (init .tbt)
  simpa [run, step, init] using this

/-! ### a `TestByTestResult` below `TestResultDecorator`s / `Tagger`s -/
theorem deco_fold (c : Shape) : ∀ (cs : List Call) (st : St c),
    cs.foldl (step (.deco c)) st = (decoPass cs).foldl (step c) st
  | [], _ => rfl
  | x :: cs, st => by
      rw [List.foldl_cons, deco_fold c cs]
      cases x <;> rfl

theorem tagger_fold (n g : TagSet) (c : Shape) : ∀ (cs : List Call) (st : St c),
    cs.foldl (step (.tagger n g c)) st = (taggerPass n g cs).foldl (step c) st
  | [], _ => rfl
  | x :: cs, st => by
      rw [List.foldl_cons, tagger_fold n g c cs]
      cases x <;> rfl

/-- **C08 (TestByTestResult below decorators and taggers).**  Through any stack of `TestResultDecorator`s and
`Tagger`s the `TestByTestResult` is in the state it gets from the calls `pathHist` lists: every `startTest` followed by
each `Tagger`'s `tags(new, gone)`, innermost last — so (`C08_tbt_times_tags`) each callback carries the reporter's tags
adjusted by all the `Tagger`s on the way, also by one that only removes tags. -/
theorem path_run : ∀ (s : Shape) (h h' : List Call), pathHist s h = some h' →
    leaves s (h.foldl (step s) (init s)) = [.tbt (h'.foldl tbtStep (init .tbt))]
  | .tbt, h, h', hp => by
      simp only [pathHist, Option.some.injEq] at hp; subst hp; rfl
  | .deco c, h, h', hp => by
      have := path_run c (decoPass h) h' (by simpa [pathHist] using hp)
      show leaves c (h.foldl (step (.deco c)) (init c)) = _
      rw [deco_fold]; exact this
  | .tagger n g c, h, h', hp => by
      have := path_run c (taggerPass n g h) h' (by simpa [pathHist] using hp)
      show leaves c (h.foldl (step (.tagger n g c)) (init c)) = _
      rw [tagger_fold]; exact this
  | .sink _, _, _, hp => by simp [pathHist] at hp
  | .fsink _ _ _, _, _, hp => by simp [pathHist] at hp
  | .tt _, _, _, hp => by simp [pathHist] at hp
  | .text _, _, _, hp => by simp [pathHist] at hp
  | .etod _, _, _, hp => by simp [pathHist] at hp
  | .tfr _, _, _, hp => by simp [pathHist] at hp
  | .multi _, _, _, hp => by simp [pathHist] at hp
  | .e2s _, _, _, hp => by simp [pathHist] at hp
  | .sff, _, _, hp => by simp [pathHist] at hp

/-- **C08 (TestByTestResult, a callback that raises).**  In the model a raising `on_test` (`Input.faults`, linear stacks
over a `TestByTestResult`) is invisible to everything reported later: the trace is that of the same history with a
well-behaved callback — in particular (`C08_tbt`, `C08_tbt_times_tags`) there still is exactly one callback per
`stopTest`, the raising one included, and every later callback carries its own test's times, tags and details, not
those of the test whose callback raised.  (That the code behaves like this model — `TestByTestResult.stopTest` leaves
the test's tag context before calling `on_test` — is what the correspondence check with faults tests.) -/
theorem C08_tbt_faults (s : Shape) (h : List Call) (faults : List Nat) :
    model { shape := s, hist := h, faults := faults } = model { shape := s, hist := h } := rfl

/-! ## the executable specification holds of the model -/
theorem unique_of_noDup : ∀ (d : Details), hasDupNames (d.map (·.1)) = false → UniqueNames d
  | [], _ => by intro p hp; simp at hp
  | x :: d, h => by
      simp only [List.map_cons, hasDupNames, Bool.or_eq_false_iff, List.contains_eq_mem, decide_eq_false_iff_not,
        List.mem_map, not_exists, not_and] at h
      have ih := unique_of_noDup d h.2
      intro p hp q hq hpq
      rcases List.mem_cons.mp hp with hp1 | hp1 <;> rcases List.mem_cons.mp hq with hq1 | hq1
      · rw [hp1, hq1]
      · subst hp1; exact absurd hpq.symm (h.1 q hq1)
      · subst hq1; exact absurd hpq (h.1 p hp1)
      · exact ih p hp1 q hq1 hpq

theorem model_leafEvs (i : Input) : (model i).map leafEvs = (leaves i.shape (run i.shape (init i.shape) i.hist)).map tlog := by
  simp [model, List.map_map]; intro l _; rfl

theorem ok_unique (h : List Call) (hok : h.all Call.ok = true) :
    ∀ ka ∈ kaOf (testEvs h), ∀ d, ka.2 = Arg.details d → UniqueNames d := by
  intro ka hka d hd
  simp only [kaOf, List.mem_filterMap] at hka
  obtain ⟨c, hc, hck⟩ := hka
  have hc' : c ∈ h := (List.mem_filter.mp hc).1
  have := (List.all_eq_true.mp hok) c hc'
  cases c <;> simp at hck
  subst hck
  simp only at hd
  subst hd
  simp only [Call.ok, argOk, detailsOk, Bool.and_eq_true, Bool.not_eq_true'] at this
  exact unique_of_noDup d this

/-- **Headline.**  The executable specification `Spec.C08.holds` is true of the model's trace for every input. -/
theorem holds_model (i : Input) : holds i (model i) = true := by
  simp only [holds, clauses, List.all_cons, List.all_nil, Bool.and_true, Bool.and_eq_true]
  have key : inScope i = true → (i.hist.all Call.ok = true ∧ i.shape.noStream = true ∧
      (wfEvs (testEvs i.hist) = true ∨ i.shape.hasTfr = false)) := by
    intro h
    simp only [inScope, Bool.and_eq_true, Bool.or_eq_true, Bool.not_eq_true'] at h
    exact ⟨h.1.1, h.1.2, h.2⟩
  have fwd : inScope i = true → (model i).map leafEvs = expect i.shape (testEvs i.hist) := by
    intro h
    obtain ⟨_, hn, hw⟩ := key h
    rw [model_leafEvs]; exact C08_forward_wf _ hn _ hw
  refine ⟨?_, ?_, ?_, ?_, ?_⟩
  · -- forward
    cases hs : inScope i
    · simp [cForward, hs]
    · simp [cForward, hs, fwd hs]
  · -- no pass from fail
    cases hs : inScope i
    · simp [cNoPassFromFail, hs]
    · simp only [cNoPassFromFail, hs, Bool.not_true, Bool.false_or, List.all_eq_true]
      intro l hl
      have : leafEvs l ∈ expect i.shape (testEvs i.hist) := by
        rw [← fwd hs]; exact List.mem_map_of_mem hl
      have := expect_kinds _ _ _ this
      rwa [kindsOf_testEvs] at this
  · -- details text
    cases hs : inScope i
    · simp [cDetailsText, hs]
    · simp only [cDetailsText, hs, Bool.not_true, Bool.false_or, List.all_eq_true]
      intro l hl
      obtain ⟨hok, _, _⟩ := key hs
      have : leafEvs l ∈ expect i.shape (testEvs i.hist) := by
        rw [← fwd hs]; exact List.mem_map_of_mem hl
      have h1 := expect_args _ _ _ this
      have h2 := zipAll_imp _ (fun got (ka : Kind × Arg) => textKept got ka.2) _ _
        (fun x y hy hxy => arrives_textKept x y.2 (ok_unique _ hok y hy) hxy) h1
      rw [← argsOf_testEvs i.hist, ← kaOf_snd (testEvs i.hist), zipAll_map_eq]
      exact h2
  · -- tbt
    cases hs : inScope i
    · simp [cTbt, hs]
    · simp only [cTbt, hs, Bool.not_true, Bool.false_or]
      obtain ⟨hok, hn, hw⟩ := key hs
      have := reach_tbt i.shape hn _ _ (C08_reach i.shape hn i.hist) (fun ht => by
        exact ok_fine _ hok)
      rw [expectV_eq _ _ (hw.imp (tfrView_wf _) id)] at this
      exact this
  · -- tbt used directly or below decorators / taggers
    simp only [cTbtRoot]
    cases hp : pathHist i.shape i.hist with
    | none => rfl
    | some h' =>
      have hm : model i = [observe (.tbt (run .tbt (init .tbt) h'))] := by
        simp only [model, run]
        rw [path_run i.shape i.hist h' hp]; rfl
      rw [hm]
      simp only [observe, LeafSt.calls, Bool.or_eq_true, beq_iff_eq]
      exact .inr (C08_tbt_times_tags h')

/-! ## nothing is dropped or duplicated -/
/-- which call, for which test -/
def sig : Call → Nat × Nat
  | .startTest t => (0, t)
  | .add _ t _ => (1, t)
  | .stopTest t => (2, t)
  | _ => (3, 0)

/-- **C08 (once, in order).**  What any leaf is to receive is, event by event, the same kind of call
(`startTest` / outcome / `stopTest`) for the same test as in the history: same length, same order. -/
theorem C08_once_in_order (s : Shape) (evs : List Call) : ∀ l ∈ expect s evs, l.map sig = evs.map sig :=
  expect_rel (fun l evs => l.map sig = evs.map sig) (fun _ => rfl)
    (fun c l evs h => by
      rw [h, List.map_map]
      apply List.map_congr_left
      intro x _; cases x <;> rfl) s evs

/-! ## the status words in the code (tie 1) -/
def methodName : Kind → String
  | .success => "addSuccess" | .error => "addError" | .failure => "addFailure" | .skip => "addSkip"
  | .xfail => "addExpectedFailure" | .uxsuccess => "addUnexpectedSuccess"
def word : Kind → String
  | .success => "success" | .error => "error" | .failure => "failure" | .skip => "skip"
  | .xfail => "xfail" | .uxsuccess => "uxsuccess"

/-- the status word each `TestByTestResult.add*` assigns in `/repo` (extracted on every run) is `tbtWord` -/
theorem C08_tbt_table (k : Kind) :
    (methodName k, word (tbtWord k)) ∈ TTV.Generated.C08.tbtStatusWords := by
  cases k <;> decide

/-! ## non-vacuity -/
/-- an empty details dict is details (regression of the former finding `tbtEmptyDetails`) -/
example : (run .tbt (init .tbt) [.startTest 1, .add .failure 1 (.details []), .stopTest 1] : TbtSt).calls.map proj
    = [(1, some .failure, some [])] := rfl

/-- a callback that raised for a test with test-level tags: the next test is reported with the run-level tags only -/
example :
    let i : Input := { shape := .tbt, faults := [1],
                       hist := [.startTestRun, .tags 1 0, .startTest 1, .tags 2 0, .add .success 1 .none, .stopTest 1,
                                .startTest 2, .add .success 2 .none, .stopTest 2] }
    (model i).map (fun l => l.calls.map (fun c => (c.test, c.tags))) = [[(1, 3), (2, 1)]] ∧ holds i (model i) = true := by
  decide

/-- a `Tagger` that only removes a tag, above a `TestByTestResult`: the run-level tag is gone in every callback -/
example :
    let i : Input := { shape := .tagger 0 1 (.deco .tbt),
                       hist := [.startTestRun, .tags 3 0, .startTest 1, .add .success 1 .none, .stopTest 1,
                                .startTest 2, .tags 4 0, .add .success 2 .none, .stopTest 2] }
    (model i).map (fun l => l.calls.map (fun c => (c.test, c.tags))) = [[(1, 2), (2, 6)]] ∧ holds i (model i) = true := by
  decide

/-- the forwarding clause is not vacuous: a skip and an unexpected success through
`MultiTestResult(2.6-style, TestResult)` inside a `ThreadsafeForwardingResult` -/
example :
    (leaves (.tfr (.etod (.multi [.etod (.sink .py26), .etod (.tt false)])))
      (run _ (init _) [.startTestRun, .startTest 1, .add .skip 1 (.reason ['r']), .stopTest 1,
                        .startTest 2, .add .uxsuccess 2 .none, .stopTest 2])).map tlog
    = [[.startTest 1, .add .success 1 .none, .stopTest 1, .startTest 2, .add .failure 2 (.exc .synth), .stopTest 2],
       [.startTest 1, .add .skip 1 (.reason ['r']), .stopTest 1, .startTest 2, .add .uxsuccess 2 .none, .stopTest 2]] := by
  decide

example : inScope { shape := .tfr (.etod (.multi [.etod (.sink .py26), .etod (.tt false)])),
                    hist := [.startTest 1, .add .skip 1 (.reason ['r']), .stopTest 1] } = true := by decide

example : tbtExpect none none [.startTest 4, .add .uxsuccess 4 (.details [(['x'], .text ['y'])]), .stopTest 4]
    = [(4, some .success, some [(['x'], .text ['y'])])] := rfl

/-! ## the code itself (translator tie, DESIGN D.2a item 2e)

`harness/pyres2lean.py` re-reads the adapters on every run into `TTV/Generated/EtodSrc.lean`: per outcome method of
`ExtendedToOriginalDecorator` the fallback rule (probe → substitution when the target lacks the method → argument check →
`details=` first → conversion on `TypeError` → final call → `finally`), and the canonical skeletons of the helpers, of
`TestByTestResult` and of `TestResultDecorator`. -/
section src
def ruleOf (k : Kind) : List String := (TTV.SrcRef.EtodSrc.etodAdd.lookup (methodName k)).getD []

/-- the capability a rule's `getattr` probe tests -/
def hasMethod (c : Caps) : Kind → Bool
  | .skip => c.skip | .xfail => c.xfail | .uxsuccess => c.uxs | _ => true

/-- what the rule substitutes when the probe finds nothing -/
def substOf (k : Kind) : String → Kind
  | "addSuccess" => .success
  | "addFailure(synthetic)" => .failure
  | _ => k

/-- **C08 (source: the fallback rules of `ExtendedToOriginalDecorator`).**  The rules read from the source are the
reference rules, and the model's degradation table is their meaning: a method is probed with `getattr` exactly for skip,
expected failure and unexpected success; a missing `addSkip` / `addExpectedFailure` becomes `addSuccess`, a missing
`addUnexpectedSuccess` a synthetic `addFailure`; every method tries `details=` first and converts on `TypeError` (to an
`exc_info`, to the reason — or the description of the details —, or drops them); errors, failures and unexpected successes
run under `finally: if self.failfast: self.stop()`. -/
theorem C08_src_etod_rules :
    TTV.Generated.EtodSrc.etodAdd = TTV.SrcRef.EtodSrc.etodAdd ∧
    (∀ (c : Caps) (k : Kind), degradeKind c k = if hasMethod c k then k else substOf k ((ruleOf k).getD 1 "")) ∧
    (∀ k : Kind, ((ruleOf k).getD 0 "" == "getattr-probe") = (k == .skip || k == .xfail || k == .uxsuccess)) ∧
    (∀ k : Kind, (ruleOf k).getD 3 "" = "details-first") ∧
    (∀ k : Kind, ((ruleOf k).getD 6 "" == "failfast-stop") = (k == .error || k == .failure || k == .uxsuccess)) ∧
    (∀ k : Kind, (ruleOf k).getD 4 "" =
      match k with
      | .error | .failure | .xfail => "exc-info"
      | .skip => "reason-or-description"
      | .success | .uxsuccess => "drop") := by
  refine ⟨rfl, ?_, ?_, ?_, ?_, ?_⟩
  · intro c k; cases k <;> simp [degradeKind, hasMethod, substOf, ruleOf, methodName, TTV.SrcRef.EtodSrc.etodAdd, List.lookup]
  all_goals (intro k; cases k <;> decide)

/-- **C08 (source: helpers and the other methods of `ExtendedToOriginalDecorator`).**  `_check_args` is read as a rule - "exactly
one of `err` / `details`, else `ValueError`", in the counting spelling or as one comparison with that truth table, whatever the
message says; the model's `Arg` carries exactly one of the two by construction, so the error branch is outside the histories. -/
theorem C08_src_etod_helpers :
    TTV.Generated.EtodSrc.etodCheckArgs = TTV.SrcRef.EtodSrc.etodCheckArgs ∧
    TTV.SrcRef.EtodSrc.etodCheckArgs = ["exactly-one a0 a1", "raise ValueError"] ∧
    TTV.Generated.EtodSrc.etodDetailsToExcInfo = TTV.SrcRef.EtodSrc.etodDetailsToExcInfo ∧
    TTV.Generated.EtodSrc.etodDone = TTV.SrcRef.EtodSrc.etodDone ∧
    TTV.Generated.EtodSrc.etodProgress = TTV.SrcRef.EtodSrc.etodProgress ∧
    TTV.Generated.EtodSrc.etodTags = TTV.SrcRef.EtodSrc.etodTags ∧
    TTV.Generated.EtodSrc.etodTime = TTV.SrcRef.EtodSrc.etodTime ∧
    TTV.Generated.EtodSrc.etodStartTest = TTV.SrcRef.EtodSrc.etodStartTest ∧
    TTV.Generated.EtodSrc.etodStopTest = TTV.SrcRef.EtodSrc.etodStopTest ∧
    TTV.Generated.EtodSrc.etodStopTestRun = TTV.SrcRef.EtodSrc.etodStopTestRun :=
  ⟨rfl, rfl, rfl, rfl, rfl, rfl, rfl, rfl, rfl, rfl⟩

/-- **C08 (source: `TestByTestResult`).**  `startTest` records the start time and clears the per-test fields; `stopTest`
takes the stop time and the tags, leaves the test's tag context (`super().stopTest`) and only then calls `on_test` with
exactly the six keyword arguments; the outcome methods store the status word (`C08_tbt_table`) and the details. -/
theorem C08_src_tbt :
    TTV.Generated.EtodSrc.tbtStartTest = TTV.SrcRef.EtodSrc.tbtStartTest ∧
    TTV.Generated.EtodSrc.tbtStopTest = TTV.SrcRef.EtodSrc.tbtStopTest ∧
    TTV.Generated.EtodSrc.tbtErrToDetails = TTV.SrcRef.EtodSrc.tbtErrToDetails ∧
    TTV.Generated.EtodSrc.tbtAddSkip = TTV.SrcRef.EtodSrc.tbtAddSkip ∧
    TTV.Generated.EtodSrc.tbtAddSuccess = TTV.SrcRef.EtodSrc.tbtAddSuccess ∧
    TTV.Generated.EtodSrc.tbtAddError = TTV.SrcRef.EtodSrc.tbtAddError ∧
    TTV.Generated.EtodSrc.tbtAddUnexpectedSuccess = TTV.SrcRef.EtodSrc.tbtAddUnexpectedSuccess ∧
    -- the order in `stopTest`: the tags are read, then the test's tag context is left, and only then comes the callback
    (TTV.SrcRef.EtodSrc.tbtStopTest.drop 2 =
      ["  v0 = set(self.current_tags)", "  super().stopTest(a0)",
       "  self._on_test(test=a0, status=self._status, start_time=self._start_time, stop_time=self._stop_time, tags=v0, details=self._details)"]) :=
  ⟨rfl, rfl, rfl, rfl, rfl, rfl, rfl, rfl⟩

/-- **C08 (source: `TestResultDecorator` / `Tagger`).**  Every method of the decorator makes exactly one call of the same
name on the decorated result (outcomes with `details=` passed through); `Tagger.startTest` is the forwarded `startTest`
followed by `tags(new, gone)` — unconditionally. -/
theorem C08_src_deco_forward :
    TTV.Generated.EtodSrc.decoForward = TTV.SrcRef.EtodSrc.decoForward ∧
    TTV.Generated.EtodSrc.taggerStartTest = TTV.SrcRef.EtodSrc.taggerStartTest ∧
    (∀ k : Kind, ((TTV.SrcRef.EtodSrc.decoForward.lookup (methodName k)).getD []).length = 1) ∧
    (∀ (n g : TagSet) (c : Shape) (st : St c) (t : Nat),
      step (.tagger n g c) st (.startTest t) = step c (step c st (.startTest t)) (.tags n g)) := by
  refine ⟨rfl, rfl, ?_, fun _ _ _ _ _ => rfl⟩
  intro k; cases k <;> decide
end src

end TTV.Props.C08
