import TTV.Model.Result
import TTV.Model.ResC08
import TTV.Spec.C08
/-! # C08 — result adapters deliver each call once (theorems: work in progress) -/
namespace TTV.Props.C08
end TTV.Props.C08
