import TTV.Model.Result
import TTV.Model.ResC04
import TTV.Spec.C04
/-! # C04 — run verdict and stop control (theorems: work in progress) -/
namespace TTV.Props.C04
end TTV.Props.C04
